"""C07 — EO number codec: correspondence of Num.encode/Num.decode with
eolib.data.number_encoding_utils and the direct oracle of the property on the real code."""
from __future__ import annotations

import itertools
import multiprocessing as mp
import os
import zlib

from . import common
from .common import Ctx, tohex

FILES = ["src/eolib/data/number_encoding_utils.py", "src/eolib/data/eo_numeric_limits.py"]
RULE = ("encode: every n in 0..253^2+253 and (escalated/thorough) every n < 253^3, block-CRC compared with the "
        "model; all digit boundaries d*253^j+delta; seeded random in-range; out-of-range and negative inputs "
        "(error class compared). decode: every byte string of length 0..2 (thorough: 0..3), strings of length "
        "3..6 over a boundary alphabet, random strings. A case is non-trivial/distinct by its signature "
        "(direction, number of significant digits or string length class, error class, which bytes are 0x00/0xFE/0xFF).")
ASSUMPTIONS = ["CPython int arithmetic and bytes([..]) range check behave as modelled (Int floor div/mod; ValueError outside range(256))"]

C = 253
LIM = [C, C ** 2, C ** 3, C ** 4]


def mods():
    common.load_eolib()
    return common.imp("eolib.data.number_encoding_utils")


def py_encode(m, n):
    try:
        return "ok " + tohex(m.encode_number(n))
    except Exception as e:  # noqa: BLE001
        return "err " + common.exc_class(e)


def formula(bs) -> int:
    total = 0
    for i, b in enumerate(bs[:4]):
        if b == 0xFE:
            break
        total += (b - 1) * C ** i
    return total


def oracle_number(m, n: int) -> str | None:
    """The property statement evaluated on the real code for one in-range n; None = holds."""
    try:
        e = m.encode_number(n)
    except Exception as ex:  # noqa: BLE001
        return f"encode_number({n}) raised {type(ex).__name__}"
    if len(e) != 4:
        return f"encode_number({n}) has length {len(e)}"
    if m.decode_number(e) != n:
        return f"decode_number(encode_number({n})) = {m.decode_number(e)}"
    if 0 in e or 0xFF in e:
        return f"encode_number({n}) = {e.hex()} contains 0x00/0xFF"
    for k in (1, 2, 3, 4):
        if n < C ** k:
            if m.decode_number(e[:k]) != n:
                return f"first {k} bytes of encode_number({n}) decode to {m.decode_number(e[:k])}"
            if any(b != 0xFE for b in e[k:]):
                return f"bytes after the first {k} of encode_number({n}) = {e.hex()} are not the 0xFE filler"
            break
    return None


def oracle_bytes(m, bs: bytes) -> str | None:
    try:
        v = m.decode_number(bs)
    except Exception as ex:  # noqa: BLE001
        return f"decode_number({bs.hex()}) raised {type(ex).__name__}"
    if v != formula(bs):
        return f"decode_number({bs.hex() or '-'}) = {v}, positional formula gives {formula(bs)}"
    return None


# ---- block workers (fork) -------------------------------------------------------------------

_W = {}


def _winit():
    _W["m"] = mods()
    _W["d"] = common.Driver()


def _enc_block(rng):
    lo, hi = rng
    m = _W["m"]
    crc = 0
    bad = None
    enc = m.encode_number
    dec = m.decode_number
    for n in range(lo, hi):
        try:
            e = enc(n)
        except Exception:  # noqa: BLE001
            e = b"\x00"
        crc = zlib.crc32(e, crc)
        if bad is None and (len(e) != 4 or dec(e) != n or 0 in e or 255 in e):
            bad = n
    ans = _W["d"].ask1(f"num crc enc {lo} {hi}")
    return lo, hi, crc, ans, bad


def pool_map(fn, items, procs=None):
    procs = procs or common.ncpu()
    ctx = mp.get_context("fork")
    with ctx.Pool(procs, initializer=_winit) as pool:
        for r in pool.imap_unordered(fn, items, chunksize=1):
            yield r


def bisect_enc(ctx: Ctx, m, lo, hi):
    """first n in [lo,hi) where real encode and model encode differ"""
    for n in range(lo, hi):
        a = py_encode(m, n)
        b = ctx.driver.ask1(f"num enc {n}")
        if a != b:
            return n, a, b
    return None


def sig_num(n: int, ans: str) -> tuple:
    if ans.startswith("err"):
        return ("enc", "err", ans, n < 0)
    digits = 1 + sum(1 for l in LIM[:3] if n >= l)
    return ("enc", digits, n < 0, n >= LIM[3])


def disagree(ctx: Ctx, m, what: str, inp: dict, model: str, impl: str, near: list[int] | None = None,
             near_bytes: list[bytes] | None = None):
    """Model and implementation differ: look for an input on which the *property* fails."""
    fails = []
    for n in near or []:
        if 0 <= n < LIM[3]:
            r = oracle_number(m, n)
            if r:
                fails.append({"n": n, "why": r})
    for bs in near_bytes or []:
        r = oracle_bytes(m, bs)
        if r:
            fails.append({"bytes": bs.hex(), "why": r})
    if not fails:
        fails = sweep(ctx, m, budget=400_000)
    if fails:
        f = fails[0]
        ctx.violation("property-fails", f["why"], {"input": f, "disagreement": inp, "model": model, "impl": impl})
    else:
        ctx.violation("model-impl-disagree", what,
                      {"input": inp, "model": model, "impl": impl,
                       "correspondence": "Num.encode/Num.decode vs eolib.data.number_encoding_utils",
                       "theorems_no_longer_tied": common.load_registry()["C07"]["theorems"]}, found_input=False)


def boundary_numbers():
    out = set()
    for j in (1, 2, 3):
        for d in range(0, 254):
            for delta in (-2, -1, 0, 1, 2):
                out.add(d * C ** j + delta)
    for l in LIM:
        for delta in range(-3, 4):
            out.add(l + delta)
    return sorted(x for x in out if 0 <= x < LIM[3])


def sweep(ctx: Ctx, m, budget: int) -> list[dict]:
    """Direct oracle sweep on the real code (no model involved)."""
    fails = []
    for n in itertools.chain(range(0, min(budget // 2, C * C + C)), boundary_numbers()):
        r = oracle_number(m, n)
        if r:
            fails.append({"n": n, "why": r})
            return fails
    rng = ctx.rng
    for _ in range(budget // 4):
        n = rng.randrange(LIM[3])
        r = oracle_number(m, n)
        if r:
            return [{"n": n, "why": r}]
    for ln in range(0, 3):
        for t in itertools.product(range(256), repeat=ln):
            r = oracle_bytes(m, bytes(t))
            if r:
                return [{"bytes": bytes(t).hex(), "why": r}]
    for _ in range(budget // 8):
        bs = bytes(rng.choice([0, 1, 2, 0x7F, 0x80, 0xFC, 0xFD, 0xFE, 0xFF, rng.randrange(256)])
                   for _ in range(rng.randrange(0, 7)))
        r = oracle_bytes(m, bs)
        if r:
            return [{"bytes": bs.hex(), "why": r}]
    return fails


def oracle_sweep(ctx: Ctx) -> bool:
    m = mods()
    fails = sweep(ctx, m, budget=2_000_000)
    if fails:
        ctx.violation("property-fails", fails[0]["why"], {"input": fails[0]})
        return True
    return False


def run(ctx: Ctx):
    m = mods()
    d = ctx.driver
    rng = ctx.rng

    # -- 1. encode, exhaustive blocks (CRC) + per-number oracle
    top = C ** 3 if ctx.thorough else C * C + C + 1
    block = 1 << 16
    ranges = [(lo, min(lo + block, top)) for lo in range(0, top, block)]
    if ctx.tier == "thorough":
        # stratified 4-byte range: the first, last and two random blocks of every leading digit
        full = os.environ.get("VERIF_C07_FULL") == "1"
        if full:
            ranges += [(lo, min(lo + (1 << 20), LIM[3])) for lo in range(C ** 3, LIM[3], 1 << 20)]
        else:
            for dd in range(1, 253):
                base = dd * C ** 3
                picks = {base, base + C ** 3 - block, base + rng.randrange(0, C ** 3 - block),
                         base + rng.randrange(0, C ** 3 - block)}
                ranges += [(lo, lo + block) for lo in sorted(picks)]
        ctx.extra["four_byte_range"] = "exhaustive" if full else "stratified (4 blocks of 65536 per leading digit)"
    n_eval = 0
    for lo, hi, crc, ans, bad in pool_map(_enc_block, ranges):
        n_eval += hi - lo
        if bad is not None:
            ctx.violation("property-fails", oracle_number(m, bad) or "codec property fails", {"input": {"n": bad}})
            return
        if ans != f"ok {crc}":
            hit = bisect_enc(ctx, m, lo, hi)
            if hit:
                n, a, b = hit
                disagree(ctx, m, f"encode_number({n}) = {a}, model = {b}", {"n": n}, b, a,
                         near=list(range(max(0, n - 300), n + 300)))
                return
    ctx.part("encode exhaustive blocks", n_eval, True, f"every n in [0,{top}) (+ 4-byte strata in thorough tier)")
    for k in range(1, 5):
        ctx.sig(("enc-range", k))

    # -- 2. boundaries, random, out of range (individually compared)
    nums = boundary_numbers()
    nums += [rng.randrange(LIM[3]) for _ in range(300_000 if ctx.thorough else 60_000)]
    out_of_range = [-1, -2, -3, -253, -10 ** 9, LIM[3], LIM[3] + 1, LIM[3] + C ** 3 - 1, LIM[3] + C ** 3,
                    LIM[3] + 2 * C ** 3, 255 * C ** 3, 256 * C ** 3, 10 ** 12, 2 ** 64]
    out_of_range += [rng.randrange(LIM[3], 2 * LIM[3]) for _ in range(200)] + [-rng.randrange(1, 10 ** 6) for _ in range(200)]
    allnums = nums + out_of_range
    answers = d.ask([f"num enc {n}" for n in allnums])
    for n, b in zip(allnums, answers):
        a = py_encode(m, n)
        ctx.sig(sig_num(n, a))
        if 0 <= n < LIM[3]:
            r = oracle_number(m, n)
            if r:
                ctx.violation("property-fails", r, {"input": {"n": n}})
                return
        if a != b:
            disagree(ctx, m, f"encode_number({n}) = {a}, model = {b}", {"n": n}, b, a,
                     near=list(range(max(0, n - 300), n + 300)))
            return
    ctx.part("encode boundaries/random/out-of-range", len(allnums), False)
    ctx.count("encode.in_range", len(nums))
    ctx.count("encode.out_of_range", len(out_of_range))
    for n in (0, 252, 253, 64008, 64009, 16194277, LIM[3] - 1, -1, LIM[3]):
        ctx.sample({"op": "encode", "n": n, "impl": py_encode(m, n)})

    # -- 2b. results are values: an encoding held by the caller must not change when other numbers are encoded
    held_nums = [rng.randrange(LIM[3]) for _ in range(2000)] + boundary_numbers()[:200]
    held = [(n, m.encode_number(n)) for n in held_nums]
    seen_at_return = [bytes(m.encode_number(n)) for n in held_nums]
    for (n, obj), first in zip(held, seen_at_return):
        if bytes(obj) != first or m.decode_number(obj) != n:
            ctx.violation("property-fails", f"the encoding returned for {n} changed after later encode_number calls "
                          f"(now {bytes(obj).hex()}, decodes to {m.decode_number(obj)}): distinct numbers share an encoding object",
                          {"input": {"n": n, "held": True}})
            return
    ctx.part("held encodings re-examined after further calls", len(held), False)
    ctx.sig(("held",))

    # -- 3. decode
    strings = []
    maxlen = 3 if ctx.tier == "thorough" else 2
    alpha = [0, 1, 2, 0x7F, 0x80, 0xFC, 0xFD, 0xFE, 0xFF]
    if maxlen == 3:
        # exhaustive length 3 is 16.7M strings: compare by blocks on the first byte in parallel
        pass
    for ln in range(0, 3):
        strings += [bytes(t) for t in itertools.product(range(256), repeat=ln)]
    n_exh = len(strings)
    for ln in range(3, 7):
        strings += [bytes(t) for t in itertools.product(alpha, repeat=ln)] if ln <= 4 else \
            [bytes(rng.choice(alpha) for _ in range(ln)) for _ in range(20000)]
    strings += [bytes(rng.randrange(256) for _ in range(rng.randrange(0, 9))) for _ in range(50_000)]
    if ctx.tier == "thorough":
        strings += [bytes(t) for t in itertools.product(range(256), repeat=3)] if os.environ.get("VERIF_C07_FULL") == "1" \
            else [bytes([a, b, c]) for a in range(256) for b in alpha + [3, 100, 252, 253] for c in range(256)]
    for i in range(0, len(strings), 200_000):
        chunk = strings[i:i + 200_000]
        answers = d.ask([f"num dec {tohex(s)}" for s in chunk])
        for s, b in zip(chunk, answers):
            r = oracle_bytes(m, s)
            if r:
                ctx.violation("property-fails", r, {"input": {"bytes": s.hex()}})
                return
            a = f"ok {m.decode_number(s)}"
            if a != b:
                disagree(ctx, m, f"decode_number({s.hex()}) = {a}, model = {b}", {"bytes": s.hex()}, b, a,
                         near_bytes=[s])
                return
            fe = s[:4].find(b"\xfe")
            ctx.sig(("dec", min(len(s), 5), fe, 0 in s[:4], 255 in s[:4]))
    ctx.part("decode strings", len(strings), False, f"exhaustive for length 0..2 ({n_exh} strings)")
    ctx.count("decode.strings", len(strings))
    ctx.sample({"op": "decode", "bytes": "0101fe05", "impl": m.decode_number(bytes.fromhex("0101fe05"))})
    ctx.exhaustive = ctx.thorough


def replay(ctx: Ctx, doc: dict) -> int:
    m = mods()
    inp = doc.get("input", {})
    if isinstance(inp, dict) and inp.get("held"):
        return common.replay_full_rerun(ctx, run)   # depends on the calls made before: the whole sweep again
    if "n" in inp:
        n = int(inp["n"])
        r = oracle_number(m, n) if 0 <= n < LIM[3] else None
        a, b = py_encode(m, n), ctx.driver.ask1(f"num enc {n}")
        print(f"n={n} impl={a} model={b} property: {r or 'holds'}")
        return 1 if (r or a != b) else 0
    if "bytes" in inp:
        bs = bytes.fromhex(inp["bytes"])
        r = oracle_bytes(m, bs)
        a, b = f"ok {m.decode_number(bs)}", ctx.driver.ask1(f"num dec {tohex(bs)}")
        print(f"bytes={bs.hex()} impl={a} model={b} property: {r or 'holds'}")
        return 1 if (r or a != b) else 0
    print("nothing to replay")
    return 2
