"""Subprocess worker: in a fresh interpreter with <src> first on sys.path, import the top-level
package (after optionally importing one submodule first) and report, for every name given, what the
top-level package and the home subpackage export.  Prints JSON.

usage: importworker.py <src> <first_import|-> <json list of [name, home_module]>"""
import importlib
import json
import sys


def main():
    src, first, names = sys.argv[1], sys.argv[2], json.loads(sys.argv[3])
    sys.path.insert(0, src)
    out = {"error": None, "names": {}}
    try:
        if first != "-":
            importlib.import_module(first)
        top = importlib.import_module("eolib")
        for name, home in names:
            hm = importlib.import_module(home)
            a, b = getattr(top, name, None), getattr(hm, name, None)
            out["names"][name] = {
                "top_is_class": isinstance(a, type), "home_is_class": isinstance(b, type), "same": a is b and a is not None,
                "defined_in": getattr(a, "__module__", None),
            }
    except BaseException as ex:  # noqa: BLE001
        import traceback
        out["error"] = f"{type(ex).__name__}: {ex}"
        out["traceback"] = traceback.format_exc()[-1500:]
    print(json.dumps(out))


if __name__ == "__main__":
    main()
