"""C11 — server verification hash: exhaustive correspondence + C-formula oracle."""
from __future__ import annotations

import multiprocessing as mp

from . import common
from .common import Ctx

FILES = ["src/eolib/encrypt/server_verification_utils.py"]
RULE = ("every challenge 0 <= c < 253^3 (16,194,277 values) block-CRC compared with the model and individually with "
        "the truncating-remainder formula computed by the harness; a band above 253^3 and negative challenges compared "
        "individually. distinct = residue classes (c+1 mod 11, sign of 11092004-(c+1), exact-multiple or not)")
ASSUMPTIONS = ["the game client's arithmetic is the published formula with C remainder (Int.tmod)"]
TOP = 253 ** 3
BOUND = 11_092_110


def mods():
    common.load_eolib()
    return common.imp("eolib.encrypt.server_verification_utils")


def tmod(a, b):
    r = abs(a) % abs(b)
    return -r if a < 0 else r


def c_formula(c: int) -> int:
    ch = c + 1
    return 110905 + (tmod(ch, 9) + 1) * tmod(11092004 - ch, (tmod(ch, 11) + 1) * 119) * 119 + tmod(ch, 2004)


def oracle(m, c: int) -> str | None:
    try:
        h = m.server_verification_hash(c)
    except Exception as ex:  # noqa: BLE001
        return f"server_verification_hash({c}) raised {type(ex).__name__}"
    if 0 <= c < TOP and h != c_formula(c):
        return f"server_verification_hash({c}) = {h}, client computes {c_formula(c)}"
    if 0 <= c <= BOUND and not 0 <= h < 253 ** 4:
        return f"server_verification_hash({c}) = {h} does not fit an EO int"
    return None


_W = {}


def _winit():
    _W["m"] = mods()
    _W["d"] = common.Driver()


def _block(rng):
    lo, hi = rng
    f = _W["m"].server_verification_hash
    vals = []
    bad = None
    sigs = set()
    for c in range(lo, hi):
        try:
            h = f(c)
        except Exception:  # noqa: BLE001 - the property says the hash equals the client's value: an exception is a failure
            h = -(2 ** 62)   # never a hash; differs from the formula below, so `bad` records this challenge
        vals.append(h)
        x = 11092003 - c
        md = ((c + 1) % 11 + 1) * 119
        if bad is None and (h != c_formula(c) or (c <= BOUND and not 0 <= h < 4097152081)):
            bad = c
        if x < 0:
            sigs.add(("neg", (c + 1) % 11, x % md == 0))
    ans = _W["d"].ask1(f"hash crc {lo} {hi}")
    return lo, hi, common.crc_i64(vals), ans, bad, sigs


def search_fail(m, lo=0, hi=TOP):
    for c in range(lo, hi):
        r = oracle(m, c)
        if r:
            return {"challenge": c, "why": r}
    return None


def oracle_sweep(ctx: Ctx) -> bool:
    m = mods()
    f = search_fail(m, 11_000_000, TOP) or search_fail(m, 0, 11_000_000)
    if f:
        ctx.violation("property-fails", f["why"], {"input": f}, key=f"challenge={f['challenge']}")
        return True
    return False


def run(ctx: Ctx):
    m = mods()
    block = 1 << 17
    ranges = [(lo, min(lo + block, TOP)) for lo in range(0, TOP, block)]
    pool = mp.get_context("fork").Pool(common.ncpu(), initializer=_winit)
    first_bad = None
    mismatch = None
    sigs = set()
    with pool:
        for lo, hi, crc, ans, bad, sg in pool.imap_unordered(_block, ranges):
            sigs |= sg
            if bad is not None and (first_bad is None or bad < first_bad):
                first_bad = bad
            if ans != f"ok {crc}" and (mismatch is None or lo < mismatch[0]):
                mismatch = (lo, hi)
    for s in sigs:
        ctx.sig(s)
    for k in range(11):
        ctx.sig(("pos", k))
    ctx.part("all challenges of the three-byte field", TOP, True)
    ctx.exhaustive = True
    if first_bad is not None:
        ctx.violation("property-fails", oracle(m, first_bad), {"input": {"challenge": first_bad},
                      "impl": m.server_verification_hash(first_bad), "client_formula": c_formula(first_bad)},
                      key=f"challenge={first_bad}")
        return
    if mismatch is not None:
        lo, hi = mismatch
        for c in range(lo, hi):
            a, b = f"ok {m.server_verification_hash(c)}", ctx.driver.ask1(f"hash v {c}")
            if a != b:
                ctx.violation("model-impl-disagree", f"server_verification_hash({c}): impl {a}, model {b}; the property "
                              "holds on every challenge (exhaustive oracle)", {"input": {"challenge": c}, "impl": a, "model": b,
                              "correspondence": "Hash.hash vs server_verification_hash",
                              "theorems_no_longer_tied": common.load_registry()["C11"]["theorems"]}, found_input=False)
                return
    # band above the field and negatives: correspondence only (outside the property's quantifier)
    extra = list(range(TOP, TOP + 5000)) + list(range(-3000, 0)) + [ctx.rng.randrange(TOP, 10 ** 10) for _ in range(3000)]
    ans = ctx.driver.ask([f"hash v {c}" for c in extra])
    for c, b in zip(extra, ans):
        a = f"ok {m.server_verification_hash(c)}"
        if a != b:
            ctx.violation("model-impl-disagree", f"server_verification_hash({c}): impl {a}, model {b} (outside the "
                          "three-byte field; property holds on the whole field)", {"input": {"challenge": c}, "impl": a, "model": b,
                          "correspondence": "Hash.hash vs server_verification_hash (out-of-field band)"}, found_input=False)
            return
    ctx.part("band above 253^3, negative challenges", len(extra), False, "outside the property's quantifier; correspondence only")
    for c in (0, 5, 11092003, 11092004, 11092110, 11092111, 11092479, TOP - 1):
        ctx.sample({"challenge": c, "hash": m.server_verification_hash(c), "client": c_formula(c)})


def replay(ctx: Ctx, doc: dict) -> int:
    m = mods()
    c = int(doc["input"]["challenge"])
    r = oracle(m, c)
    a, b = f"ok {m.server_verification_hash(c)}", ctx.driver.ask1(f"hash v {c}")
    print(f"challenge={c} impl={a} model={b} client_formula={c_formula(c)} property: {r or 'holds'}")
    return 1 if (r or a != b) else 0
