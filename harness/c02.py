"""C02 — generated serializers emit exactly the wire format the XML prescribes."""
from . import gencheck, genprops

FILES = gencheck.GEN_FILES
RULE = ("hand-written catalogue specifications, then seeded random specifications (grammar-directed; structs, packets, enums with "
        "and without underlying overrides, nested switches and chunked sections, multi-file); per class several constructible "
        "objects (boundary integers, strings with unencodable / 0xFF characters, unrecognised enum ordinals) serialised in both "
        "entry modes; three-way comparison: real generated code, model execSer∘compile, and the declarative XML reading (wire); "
        "family()/action() of packets; twin specification with the boolean attribute defaults spelled out must generate identical "
        "files. distinct = (class hash bucket, mode, outcome class, size bucket)")
ASSUMPTIONS = ["values are typed-or-None Python values of the declared field types", "text content free of '&', quotes, backslashes, non-ASCII (NonDegenerate)"]
run = genprops.run_c02
replay = genprops.replay_shown_then_rerun(genprops.run_c02)


def oracle_sweep(ctx):
    n0 = len(ctx.violations)
    run(ctx)
    return any(v["kind"] == "property-fails" for v in ctx.violations[n0:])
