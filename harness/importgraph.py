"""Translator from Python package sources to the import-statement graph of the Lean model
(EoVerif/Model/Imports.lean): every module under <src>/eolib becomes a list of statements
star / from-import / import / define / __all__ / rebind (name = sys.modules[...]).
Anything outside this subset makes the module `opaque` (reported, never silently ignored)."""
from __future__ import annotations

import ast
import os


def module_name(root: str, path: str) -> tuple[str, bool]:
    rel = os.path.relpath(path, root)[:-3].replace(os.sep, ".")
    if rel.endswith(".__init__"):
        return rel[: -len(".__init__")], True
    return rel, False


def resolve(mod: str, is_pkg: bool, level: int, target: str | None) -> str:
    if level == 0:
        return target or ""
    base = mod.split(".") if is_pkg else mod.split(".")[:-1]
    if level > 1:
        base = base[: len(base) - (level - 1)]
    return ".".join(base + ([target] if target else []))


def _sysmodules_target(node, mod: str):
    """recognise `sys.modules[__name__ + ".x"]` / `sys.modules["a.b"]` (any alias of sys)"""
    if isinstance(node, ast.Subscript) and isinstance(node.value, ast.Attribute) and node.value.attr == "modules":
        k = node.slice
        if isinstance(k, ast.Constant) and isinstance(k.value, str):
            return k.value
        if isinstance(k, ast.BinOp) and isinstance(k.op, ast.Add) and isinstance(k.left, ast.Name) and k.left.id == "__name__" \
                and isinstance(k.right, ast.Constant) and isinstance(k.right.value, str):
            return mod + k.right.value
    if isinstance(node, ast.Call) and isinstance(node.func, ast.Attribute) and node.func.attr == "import_module" and node.args:
        a = node.args[0]
        if isinstance(a, ast.Constant) and isinstance(a.value, str):
            if a.value.startswith(".") and len(node.args) > 1:
                return mod + a.value
            return a.value
    return None


def extract_module(mod: str, is_pkg: bool, text: str):
    """-> (statements, opaque reasons)"""
    tree = ast.parse(text)
    out, opaque = [], []
    for node in tree.body:
        if isinstance(node, ast.Expr) and isinstance(node.value, ast.Constant):
            continue  # docstring
        if isinstance(node, ast.ImportFrom):
            target = resolve(mod, is_pkg, node.level, node.module)
            if any(a.name == "*" for a in node.names):
                out.append(("star", target))
            else:
                out.append(("from", target, [(a.name, a.asname or a.name) for a in node.names]))
        elif isinstance(node, ast.Import):
            for a in node.names:
                out.append(("import", a.name, a.asname))
        elif isinstance(node, (ast.ClassDef, ast.FunctionDef, ast.AsyncFunctionDef)):
            out.append(("define", node.name))
        elif isinstance(node, (ast.Assign, ast.AnnAssign)):
            targets = node.targets if isinstance(node, ast.Assign) else [node.target]
            value = node.value
            for t in targets:
                if not isinstance(t, ast.Name):
                    opaque.append(f"assignment to {ast.dump(t)[:40]}")
                    continue
                if t.id == "__all__":
                    if isinstance(value, (ast.List, ast.Tuple)) and all(isinstance(e, ast.Constant) for e in value.elts):
                        out.append(("all", [e.value for e in value.elts]))
                    else:
                        opaque.append("computed __all__")
                    continue
                sm = _sysmodules_target(value, mod) if value is not None else None
                if sm is not None:
                    out.append(("rebind", t.id, sm))
                elif value is not None:
                    out.append(("define", t.id))
        elif isinstance(node, ast.Delete):
            opaque.append("del statement")
        elif isinstance(node, (ast.If, ast.Try, ast.With, ast.For, ast.While)):
            opaque.append(type(node).__name__ + " at module level")
        elif isinstance(node, ast.Pass):
            continue
        else:
            opaque.append(type(node).__name__)
    return out, opaque


def extract_tree(src: str):
    """src = directory containing the `eolib` package. -> {module: (is_pkg, statements)}, opaque report"""
    graph, report = {}, {}
    root = src
    for r, dirs, files in os.walk(os.path.join(src, "eolib")):
        dirs[:] = sorted(d for d in dirs if d != "__pycache__")
        for fn in sorted(files):
            if not fn.endswith(".py"):
                continue
            path = os.path.join(r, fn)
            mod, is_pkg = module_name(root, path)
            with open(path, encoding="utf-8") as f:
                stmts, opaque = extract_module(mod, is_pkg, f.read())
            graph[mod] = (is_pkg, stmts)
            if opaque:
                report[mod] = opaque
    return graph, report


def _tok(s: str) -> str:
    return s if s else "-"


def graph_tokens(graph) -> str:
    """one-line encoding for the driver: <n> (M name nstmts stmt*)*"""
    out = [str(len(graph))]
    for mod in sorted(graph):
        _, stmts = graph[mod]
        out += ["M", mod, str(len(stmts))]
        for s in stmts:
            if s[0] == "star":
                out += ["S", s[1]]
            elif s[0] == "from":
                out += ["F", s[1], str(len(s[2]))] + [x for a, b in s[2] for x in (a, b)]
            elif s[0] == "import":
                out += ["I", s[1], _tok(s[2])]
            elif s[0] == "define":
                out += ["D", s[1]]
            elif s[0] == "all":
                out += ["A", str(len(s[1]))] + list(s[1])
            elif s[0] == "rebind":
                out += ["R", s[1], s[2]]
    return " ".join(out)


def lean_term(graph) -> str:
    """Lean source of the static graph (EoVerif/Generated/ImportGraph.lean)"""
    def q(x):
        return '"' + x.replace("\\", "\\\\").replace('"', '\\"') + '"'

    def mn(x):
        return "[" + ", ".join(q(seg) for seg in x.split(".")) + "]"
    lines = ["import EoVerif.Model.Imports", "/-! GENERATED by harness/importgraph.py from <repo>/src/eolib — do not edit.",
             "    Regenerated on every run of the C20 check; the theorems of Props/C20.lean are re-checked against it. -/",
             "namespace EoVerif.Imp", "", "def staticGraph : Graph := ["]
    mods = []
    for mod in sorted(graph):
        _, stmts = graph[mod]
        ss = []
        for st in stmts:
            if st[0] == "star":
                ss.append(f".star {mn(st[1])}")
            elif st[0] == "from":
                ss.append(f".fromImp {mn(st[1])} [" + ", ".join(f"({q(a)}, {q(b)})" for a, b in st[2]) + "]")
            elif st[0] == "import":
                ss.append(f".imp {mn(st[1])} " + ("none" if st[2] is None else f"(some {q(st[2])})"))
            elif st[0] == "define":
                ss.append(f".define {q(st[1])}")
            elif st[0] == "all":
                ss.append(".setAll [" + ", ".join(q(x) for x in st[1]) + "]")
            elif st[0] == "rebind":
                ss.append(f".rebind {q(st[1])} {mn(st[2])}")
        mods.append(f"  ⟨{mn(mod)}, [" + ", ".join(ss) + "]⟩")
    lines.append(",\n".join(mods))
    lines += ["]", "", "end EoVerif.Imp", ""]
    return "\n".join(lines)


def regenerate(repo: str, lean_dir: str) -> tuple[bool, dict]:
    """(re)write EoVerif/Generated/ImportGraph.lean from <repo>/src; returns (changed, opaque report)"""
    g, rep = extract_tree(os.path.join(repo, "src"))
    text = lean_term(g)
    path = os.path.join(lean_dir, "EoVerif", "Generated", "ImportGraph.lean")
    os.makedirs(os.path.dirname(path), exist_ok=True)
    old = open(path, encoding="utf-8").read() if os.path.exists(path) else None
    if old != text:
        with open(path, "w", encoding="utf-8") as f:
            f.write(text)
    return old != text, rep


if __name__ == "__main__":
    import sys
    if sys.argv[1:2] == ["--regenerate"]:
        # python3 harness/importgraph.py --regenerate [<repo> [<lean dir>]]   (used by MANIFEST.setup_cmd and the seeded tools)
        here = os.path.dirname(os.path.dirname(os.path.abspath(__file__)))
        repo = sys.argv[2] if len(sys.argv) > 2 else os.environ.get("VERIF_REPO", "/repo")
        changed, rep = regenerate(repo, sys.argv[3] if len(sys.argv) > 3 else os.path.join(here, "lean"))
        print("import graph", "regenerated" if changed else "unchanged", "opaque:", rep)
    else:
        g, rep = extract_tree(sys.argv[1])
        print(lean_term(g))
        print("-- opaque:", rep, file=sys.stderr)
