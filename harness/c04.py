"""C04 — writer output read back by the reader: real EoWriter + EoReader, the oracle (values written,
strings as their cp1252 image, output consumed exactly) and the model driver on the same op lists."""
from __future__ import annotations

from . import common, rwlib
from .common import Ctx, tohex
from .rwlib import LIMITS, cp1252

FILES = ["src/eolib/data/eo_writer.py", "src/eolib/data/eo_reader.py", "src/eolib/data/number_encoding_utils.py",
         "src/eolib/data/string_encoding_utils.py"]
RULE = ("seeded random lists of 1..15 typed items (raw byte/bytes, char/short/three/int in range with boundary bias, "
        "fixed/padded/encoded/trailing strings over an alphabet with non-cp1252 characters, perfect-fit and empty paddings), "
        "an unbounded string only last; written by the real EoWriter, read back by the real EoReader with the matching calls; "
        "every value, the final position and remaining are judged against the statement and compared with the model. A "
        "second stream contains the excluded characters (0xFF in padded, '~' in encoded strings): correspondence only. "
        "distinct = (item kind, padded, fit class, string classes, position in list)")
ASSUMPTIONS = []

SAFE = [c for c in rwlib.ALPHA if c not in ("\xff", "~")]


def gen_item(rng, last: bool, lossy: bool):
    kinds = ["byte", "bytes", "char", "short", "three", "int", "fstr", "festr", "fstr", "festr"]
    if last:
        kinds += ["str", "estr", "str", "estr"]
    k = rng.choice(kinds)
    alpha = rwlib.ALPHA if lossy else SAFE
    if k == "byte":
        return (k, rng.choice([0, 1, 0xFE, 0xFF, rng.randrange(256)]))
    if k == "bytes":
        return (k, bytes(rng.choice([0, 1, 0xFE, 0xFF, rng.randrange(256)]) for _ in range(rng.randrange(0, 6))))
    if k in LIMITS:
        return (k, rwlib.rand_int(rng, k, in_range=True))
    if k in ("str", "estr"):
        a = alpha if (k == "str" or lossy) else SAFE
        return (k, rwlib.rand_string(rng, alpha=a if k == "estr" else (alpha + ["~", "\xff"])))
    padded = rng.random() < 0.5
    if k == "fstr":
        a = alpha + (["~"] if True else []) + ([] if padded and not lossy else ["\xff"])
    else:
        a = alpha + ([] if padded and not lossy else ["\xff"])
        if lossy:
            a = a + ["~"]
    s = rwlib.rand_string(rng, alpha=a)
    n = len(s) + (rng.choice([0, 0, 1, 3]) if padded else 0)
    if padded:
        b = rwlib.big_size(rng)   # paddings longer than any filler an implementation may have prepared
        if b is not None:
            n = len(s) + b
    return (k, s, n, padded)


def read_op(item):
    k = item[0]
    if k == "bytes":
        return ("bytes", len(item[1]))
    if k in ("fstr", "festr"):
        return (k, item[2], item[3])
    return (k,)


def expect(item):
    k = item[0]
    if k in ("byte", "char", "short", "three", "int"):
        return item[1]
    if k == "bytes":
        return bytearray(item[1])
    return cp1252(item[1]).decode("windows-1252", "replace")


def one_list(ctx, W, R, items, judged: bool):
    """returns (why, impl lines, driver lines)"""
    w = W.EoWriter()
    lines, impl = ["w new"], ["ok"]
    for it in items:
        try:
            impl.append(rwlib.wop_run(w, it))
        except Exception as ex:  # noqa: BLE001
            return f"write {it!r} failed: {ex}", impl, lines
        lines.append(rwlib.wop_line(it))
        if judged and not impl[-1].startswith("ok"):
            return f"well-formed write {it!r} was rejected ({impl[-1][:40]})", impl, lines
    data = bytes(w.to_bytearray())
    r = R.EoReader(data)
    lines.append(f"r new 0 {tohex(data)}")
    impl.append("ok")
    for i, it in enumerate(items):
        op = read_op(it)
        out = rwlib.rop_run(r, op)
        impl.append(out)
        lines.append(rwlib.rop_line(0, op))
        if judged:
            want = "ok " + rwlib.val_str(expect(it))
            if not out.startswith(want + " pos "):
                return f"items {items!r}: item {i} {it!r} read back as `{out}`, expected `{want}`", impl, lines
    if judged and (r.position != len(data) or r.remaining != 0):
        return f"items {items!r}: output of {len(data)} bytes not consumed exactly (position {r.position}, remaining {r.remaining})", impl, lines
    return None, impl, lines


def gen_lists(ctx):
    rng = ctx.rng
    n = 200_000 if ctx.thorough else 15_000
    for i in range(n):
        lossy = i % 5 == 4
        L = rng.randrange(1, 16)
        yield [gen_item(rng, j == L - 1, lossy) for j in range(L)], not lossy


def run(ctx: Ctx):
    W, R = rwlib.mods()
    if not rwlib.validate_cp1252(ctx):
        return
    lines, impl, owner = [], [], []
    lists = []
    n_items = 0

    def flush():
        nonlocal lines, impl, owner
        ans = ctx.driver.ask(lines)
        for a, b, o in zip(impl, ans, owner):
            if a != b:
                ctx.violation("model-impl-disagree", f"items {lists[o]!r}: impl `{a[:120]}`, model `{b[:120]}`; the round trip itself holds",
                              {"input": {"items": [list(map(js, it)) for it in lists[o]]}, "impl": a, "model": b,
                               "correspondence": "Writer.step + Reader.step vs EoWriter + EoReader",
                               "theorems_no_longer_tied": common.load_registry()["C04"]["theorems"]}, found_input=False)
                return False
        lines, impl, owner = [], [], []
        return True

    for items, judged in gen_lists(ctx):
        lists.append(items)
        why, im, ln = one_list(ctx, W, R, items, judged)
        if why:
            ctx.violation("property-fails", why, {"input": {"items": [list(map(js, it)) for it in items]}})
            return
        lines += ln
        impl += im
        owner += [len(lists) - 1] * len(ln)
        n_items += len(items)
        for j, it in enumerate(items):
            sg = (it[0], judged, min(j, 2), j == len(items) - 1)
            if it[0] in ("fstr", "festr"):
                sg += (it[3], min(it[2] - len(it[1]), 2), frozenset(min(ord(c), 0x100) >> 5 for c in it[1]))
            elif it[0] in ("str", "estr"):
                sg += (frozenset(min(ord(c), 0x100) >> 5 for c in it[1]),)
            elif it[0] in LIMITS:
                sg += (it[1] in (0, LIMITS[it[0]] - 1),)
            ctx.sig(sg)
            ctx.count("item." + it[0])
        if len(lines) > 60_000 and not flush():
            return
    if not flush():
        return
    ctx.part("random item lists (write, read back, judge, compare with the model)", n_items, False, f"{len(lists)} lists")
    ctx.sample({"items": [list(map(js, it)) for it in lists[0]]})


def js(x):
    if isinstance(x, bytes):
        return {"hex": x.hex()}
    if isinstance(x, str):
        return {"cps": [ord(c) for c in x]}
    return x


def unjs(x):
    if isinstance(x, dict) and "hex" in x:
        return bytes.fromhex(x["hex"])
    if isinstance(x, dict) and "cps" in x:
        return "".join(chr(c) for c in x["cps"])
    return x


def oracle_sweep(ctx: Ctx) -> bool:
    W, R = rwlib.mods()
    for items, judged in gen_lists(ctx):
        why, _, _ = one_list(ctx, W, R, items, judged)
        if why:
            ctx.violation("property-fails", why, {"input": {"items": [list(map(js, it)) for it in items]}})
            return True
    return False


def replay(ctx: Ctx, doc: dict) -> int:
    W, R = rwlib.mods()
    items = [tuple(unjs(x) for x in it) for it in doc["input"]["items"]]
    why, im, ln = one_list(ctx, W, R, items, True)
    ans = ctx.driver.ask(ln)
    for l, a, b in zip(ln, im, ans):
        print(f"{l[:50]:50s} impl={a[:60]} model={b[:60]}")
    print("property:", why or "holds")
    return 1 if (why or im != ans) else 0
