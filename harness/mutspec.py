"""Catalogue of single rule-violating edits of a valid specification (C17).

Each rule builds a small self-contained fragment (fresh names) and inserts it at the start of a
body chosen by placement class: top level of a struct/packet, inside <chunked>, inside a switch
case, inside a case that sits in a chunked section, and in any file of the tree.  Inserting at
the start of a body keeps the rest of the specification as it was, so the edited specification
breaks (at least) the named rule."""
from __future__ import annotations

from .genlib import Xml

X = Xml


def f(name=None, type_="char", text=None, **attrs):
    a = ([("name", name)] if name is not None else []) + [("type", type_)] + [(k.replace("_", "-"), v) for k, v in attrs.items()]
    return X("field", a, text)


def arr(name, type_, **attrs):
    return X("array", [("name", name), ("type", type_)] + [(k.replace("_", "-"), v) for k, v in attrs.items()])


def length(name, type_="char", **attrs):
    return X("length", [("name", name), ("type", type_)] + list(attrs.items()))


def switch(field, *cases):
    return X("switch", [("field", field)], None, None, cases)


def case(value=None, default=False, body=()):
    a = [("default", "true")] if default else [("value", value)]
    return X("case", a, None, None, body)


# ---- bodies ----------------------------------------------------------------------------------

class Body:
    """a place where instructions live: (file index, path of child indices from the root, element)"""

    def __init__(self, fi, path, elem, chunked, in_case, top_tag):
        self.fi, self.path, self.elem, self.chunked, self.in_case, self.top_tag = fi, path, elem, chunked, in_case, top_tag

    @property
    def placement(self):
        return self.top_tag + ("-case" if self.in_case else "-top") + ("-in-chunked" if self.chunked else "") + f"-file{min(self.fi, 1)}"


def bodies(files) -> list[Body]:
    out = []

    def walk(fi, path, e, chunked, in_case, top_tag, is_body):
        if is_body:
            out.append(Body(fi, path, e, chunked, in_case, top_tag))
        for i, c in enumerate(e.children):
            if c.tag == "chunked":
                walk(fi, path + [i], c, True, in_case, top_tag, True)
            elif c.tag == "switch":
                for j, cc in enumerate(c.children):
                    if cc.tag == "case":
                        walk(fi, path + [i, j], cc, chunked, True, top_tag, True)

    for fi, (_, root) in enumerate(files):
        for i, t in enumerate(root.children):
            if t.tag in ("struct", "packet"):
                walk(fi, [i], t, False, False, t.tag, True)
    return out


def replace_path(root: Xml, path, fn) -> Xml:
    if not path:
        return fn(root)
    i = path[0]
    kids = list(root.children)
    kids[i] = replace_path(kids[i], path[1:], fn)
    return root.replace(children=kids)


def insert_front(files, body: Body, frag: list[Xml]):
    d, root = files[body.fi]
    new_root = replace_path(root, body.path, lambda e: e.replace(children=list(frag) + list(e.children)))
    return files[:body.fi] + [(d, new_root)] + files[body.fi + 1:]


def add_toplevel(files, fi, elems):
    d, root = files[fi]
    return files[:fi] + [(d, root.replace(children=list(root.children) + list(elems)))] + files[fi + 1:]


# ---- the catalogue ---------------------------------------------------------------------------
# body rules: name -> (needs_chunked: True/False/None, fragment builder(ctx) -> list[Xml])
# ctx gives the name of some existing struct / enum to refer to.

def body_rules(ctx):
    S, E, EM = ctx["struct"], ctx["enum"], ctx["enum_member"]
    r = {
        "unknown_type": (None, [f("zq1", "NoSuchTypeZq")]),
        "redefined_field": (None, [f("zq1"), f("zq1", "short")]),
        "bad_length_ref": (None, [f("zq1", "string", length="zqnolen")]),
        "length_ref_field_not_length": (None, [f("zq0"), f("zq1", "string", length="zq0")]),
        "length_ref_twice": (None, [length("zq0"), f("zq1", "string", length="zq0"), f("zq2", "string", length="zq0")]),
        "length_ref_twice_array": (None, [length("zq0"), arr("zq1", "char", length="zq0"), arr("zq2", "char", length="zq0")]),
        "delimited_outside_chunked": (False, [arr("zq1", "char", length="2", delimited="true")]),
        "break_outside_chunked": (False, [X("break")]),
        "required_after_optional": (None, [f("zq1", optional="true"), f("zq2")]),
        "required_array_after_optional": (None, [f("zq1", optional="true"), arr("zq2", "char", length="1")]),
        "required_length_after_optional": (None, [f("zq1", optional="true"), length("zq2"), f("zq3", "string", length="zq2", optional="true")]),
        # the optional item that comes first may be a length field or an array, too
        "required_after_optional_length": (None, [length("zq0", optional="true"), f("zq2"), f("zq1", "string", length="zq0", optional="true")]),
        "required_array_after_optional_length": (None, [length("zq0", optional="true"), arr("zq2", "char", length="1"),
                                                        f("zq1", "string", length="zq0", optional="true")]),
        "required_length_after_optional_length": (None, [length("zq0", optional="true"), length("zq2"),
                                                         f("zq1", "string", length="zq0", optional="true"),
                                                         f("zq3", "string", length="zq2", optional="true")]),
        "required_after_optional_array": (None, [arr("zq1", "char", length="1", optional="true"), f("zq2")]),
        "required_array_after_optional_array": (None, [arr("zq1", "char", length="1", optional="true"), arr("zq2", "char", length="1")]),
        "required_length_after_optional_array": (None, [arr("zq1", "char", length="1", optional="true"), length("zq2"),
                                                        f("zq3", "string", length="zq2", optional="true")]),
        "after_dummy": (None, [X("dummy", [("type", "char")], "1"), f("zq2")]),
        "unnamed_no_value": (None, [f(None, "char")]),
        "unnamed_optional": (None, [f(None, "char", "1", optional="true")]),
        "array_no_name": (None, [X("array", [("type", "char"), ("length", "2")])]),
        "length_no_name": (None, [X("length", [("type", "char")])]),
        "field_no_type": (None, [X("field", [("name", "zq1")])]),
        "hardcoded_struct": (None, [f(None, S, "abc")] if S else None),
        "hardcoded_enum": (None, [f(None, E, "1")] if E else None),
        "hardcoded_blob": (None, [f(None, "blob", "abc")]),
        "hardcoded_int_nonnumeric": (None, [f(None, "char", "abc")]),
        "hardcoded_bool_nonbool": (None, [f(None, "bool", "yes")]),
        "hardcoded_string_wrong_length": (None, [f(None, "string", "ab", length="3")]),
        "dummy_nonnumeric": (None, [X("dummy", [("type", "short")], "abc")]),
        "dummy_no_value": (None, [X("dummy", [("type", "short")])]),
        "length_on_nonstring": (None, [f("zq1", "char", length="2")]),
        "length_on_struct": (None, [f("zq1", S, length="2")] if S else None),
        "length_field_nonint": (None, [length("zq0", "string"), f("zq1", "string", length="zq0")]),
        "length_field_bool": (None, [length("zq0", "bool"), f("zq1", "string", length="zq0")]),
        "unbounded_string_array": (None, [arr("zq1", "string", length="2")]),
        "unbounded_blob_array": (None, [arr("zq1", "blob", length="2")]),
        "underlying_on_int": (None, [f("zq1", "char:short")]),
        "underlying_on_struct": (None, [f("zq1", S + ":char")] if S else None),
        "underlying_self": (None, [f("zq1", "bool:bool")]),
        "underlying_two_colons": (None, [f("zq1", "bool:char:short")]),
        "underlying_nonint": (None, [f("zq1", "bool:string")]),
        "switch_undeclared_field": (None, [switch("zqnofield", case("1", body=[f("zq2")]))]),
        "switch_on_array": (None, [arr("zq1", "char", length="2"), switch("zq1", case("1", body=[f("zq2")]))]),
        "switch_on_string": (None, [f("zq1", "string", length="2"), switch("zq1", case("1", body=[f("zq2")]))]),
        "switch_on_bool": (None, [f("zq1", "bool"), switch("zq1", case("1", body=[f("zq2")]))]),
        "case_value_nonnumeric": (None, [f("zq1"), switch("zq1", case("abc", body=[f("zq2")]))]),
        "case_value_negative": (None, [f("zq1"), switch("zq1", case("-1", body=[f("zq2")]))]),
        "case_value_missing": (None, [f("zq1"), switch("zq1", X("case", [], None, None, [f("zq2")]))]),
        "case_enum_not_member": (None, [f("zq1", E), switch("zq1", case("NoSuchMemberZq", body=[f("zq2")]))] if E else None),
        "case_enum_numeral_names_member": (None, [f("zq1", E), switch("zq1", case(str(EM[1]), body=[f("zq2")]))] if E else None),
        "lone_default": (None, [f("zq1"), switch("zq1", case(default=True, body=[f("zq2")]))]),
        "default_first": (None, [f("zq1"), switch("zq1", case(default=True, body=[f("zq2")]), case("1", body=[f("zq3")]))]),
        "switch_no_field_attr": (None, [f("zq1"), X("switch", [], None, None, [case("1", body=[f("zq2")])])]),
        "outer_field_in_case_length": (None, [length("zq0"), f("zq1"), switch("zq1", case("1", body=[f("zq2", "string", length="zq0")])),
                                              f("zq3", "string", length="zq0")]),
        "nested_case_required_after_optional": (None, [f("zq1"), switch("zq1", case("1", body=[f("zq2", optional="true"), f("zq3")]))]),
        "nested_case_break_outside_chunked": (False, [f("zq1"), switch("zq1", case("1", body=[X("break")]))]),
        "nested_case_delimited_outside_chunked": (False, [f("zq1"), switch("zq1", case("1", body=[arr("zq2", "char", delimited="true")]))]),
        "nested_case_after_dummy": (None, [f("zq1"), switch("zq1", case("1", body=[X("dummy", [("type", "char")], "1"), f("zq3")]))]),
        "nested_case_redefined_field": (None, [f("zq1"), switch("zq1", case("1", body=[f("zq2"), f("zq2")]))]),
        "after_switch_required_after_case_optional": (None, [f("zq1"), switch("zq1", case("1", body=[f("zq2", optional="true")])), f("zq3")]),
        "after_switch_anything_after_case_dummy": (None, [f("zq1"), switch("zq1", case("1", body=[X("dummy", [("type", "char")], "1")])), f("zq3", optional="true")]),
        "after_switch_required_after_first_case_optional": (None, [f("zq1"), switch("zq1", case("1", body=[f("zq2", optional="true")]),
                                                                                            case("2", body=[f("zq4")])), f("zq3")]),
        "after_switch_anything_after_first_case_dummy": (None, [f("zq1"), switch("zq1", case("1", body=[X("dummy", [("type", "char")], "1")]),
                                                                                       case("2", body=[f("zq4")]), case("3")), f("zq3", optional="true")]),
        "after_switch_required_after_middle_case_optional": (None, [f("zq1"), switch("zq1", case("1"), case("2", body=[f("zq2", optional="true")]),
                                                                                        case(default=True, body=[f("zq4")])), f("zq3")]),
        "length_ref_on_nonstring": (None, [length("zq0"), f("zq1", "char", length="zq0")]),
        "length_ref_on_int": (None, [length("zq0"), f("zq1", "int", length="zq0")]),
        "length_ref_on_struct": (None, [length("zq0"), f("zq1", S, length="zq0")] if S else None),
        "length_ref_on_enum": (None, [length("zq0"), f("zq1", E, length="zq0")] if E else None),
        "length_ref_on_blob": (None, [length("zq0"), f("zq1", "blob", length="zq0")]),
        "chunked_comment_after_dummy": (None, [X("chunked", [], None, None, [X("dummy", [("type", "char")], "1"), f("zq3")])]),
        "nested_chunked_break_ok_then_outside": (False, [X("chunked", [], None, None, [X("chunked", [], None, None, [f("zq1")]), X("break")]), X("break")]),
        "named_hardcoded_int_nonnumeric": (None, [f("zq1", "char", "abc")]),
        # numerals that Python's int() accepts but the grammar does not (sign, PEP 515 underscore, exponent, radix prefix, fraction)
        "named_hardcoded_int_minus": (None, [f("zq1", "char", "-1")]),
        "named_hardcoded_int_plus": (None, [f("zq1", "short", "+7")]),
        "named_hardcoded_int_underscore": (None, [f("zq1", "short", "1_0")]),
        "named_hardcoded_int_hex": (None, [f("zq1", "short", "0x1")]),
        "named_hardcoded_int_fraction": (None, [f("zq1", "short", "1.5")]),
        "hardcoded_int_minus": (None, [f(None, "char", "-1")]),
        "hardcoded_int_plus": (None, [f(None, "short", "+7")]),
        "hardcoded_int_underscore": (None, [f(None, "short", "1_0")]),
        "dummy_minus": (None, [X("dummy", [("type", "short")], "-1")]),
        "dummy_plus": (None, [X("dummy", [("type", "short")], "+7")]),
        "dummy_underscore": (None, [X("dummy", [("type", "short")], "1_0")]),
        "length_plus": (None, [f("zq1", "string", length="+2")]),
        "length_underscore": (None, [f("zq1", "string", length="1_0")]),
        "array_length_plus": (None, [arr("zq1", "char", length="+2")]),
        "array_length_underscore": (None, [arr("zq1", "char", length="1_0")]),
        "case_value_plus": (None, [f("zq1"), switch("zq1", case("+1", body=[f("zq2")]))]),
        "case_value_underscore": (None, [f("zq1"), switch("zq1", case("1_0", body=[f("zq2")]))]),
        "named_hardcoded_bool_numeral": (None, [f("zq1", "bool", "1")]),
        "named_hardcoded_bool_capital": (None, [f("zq1", "bool", "yes")]),
    }
    return {k: v for k, v in r.items() if v[1] is not None}


def file_rules(files, ctx):
    """rules edited at file level: name -> new files (or None when not applicable)"""
    out = {}
    S, E = ctx["struct"], ctx["enum"]
    nfiles = len(files)
    last = nfiles - 1
    if S:
        out["redefined_struct"] = add_toplevel(files, last, [X("struct", [("name", S)], None, None, [f("zq1")])])
        out["struct_redefines_enum_name"] = add_toplevel(files, last, [X("struct", [("name", E)], None, None, [f("zq1")])]) if E else None
    if E:
        out["redefined_enum"] = add_toplevel(files, 0, [X("enum", [("name", E), ("type", "char")], None, None, [X("value", [("name", "A")], "1")])])
    ev = lambda n, t: X("value", [("name", n)], t)
    out["enum_bad_ordinal"] = add_toplevel(files, last, [X("enum", [("name", "ZqEnumA"), ("type", "char")], None, None, [ev("A", "abc")])])
    out["enum_missing_ordinal"] = add_toplevel(files, last, [X("enum", [("name", "ZqEnumA"), ("type", "char")], None, None, [X("value", [("name", "A")])])])
    out["enum_duplicate_ordinal"] = add_toplevel(files, last, [X("enum", [("name", "ZqEnumA"), ("type", "char")], None, None, [ev("A", "1"), ev("B", "1")])])
    out["enum_duplicate_name"] = add_toplevel(files, last, [X("enum", [("name", "ZqEnumA"), ("type", "char")], None, None, [ev("A", "1"), ev("A", "2")])])
    out["enum_value_no_name"] = add_toplevel(files, last, [X("enum", [("name", "ZqEnumA"), ("type", "char")], None, None, [X("value", [], "1")])])
    out["enum_underlying_string"] = add_toplevel(files, last, [X("enum", [("name", "ZqEnumA"), ("type", "string")], None, None, [ev("A", "1")])])
    out["enum_underlying_unknown"] = add_toplevel(files, last, [X("enum", [("name", "ZqEnumA"), ("type", "NoSuchZq")], None, None, [ev("A", "1")])])
    out["enum_underlying_self"] = add_toplevel(files, last, [X("enum", [("name", "ZqEnumA"), ("type", "ZqEnumA")], None, None, [ev("A", "1")])])
    out["enum_no_type"] = add_toplevel(files, last, [X("enum", [("name", "ZqEnumA")], None, None, [ev("A", "1")])])
    out["enum_underlying_struct"] = add_toplevel(files, last, [X("enum", [("name", "ZqEnumA"), ("type", S)], None, None, [ev("A", "1")])]) if S else None
    out["struct_no_name"] = add_toplevel(files, last, [X("struct", [], None, None, [f("zq1")])])
    out["cyclic_structs"] = add_toplevel(files, last, [X("struct", [("name", "ZqCycA")], None, None, [f("zq1", "ZqCycB")]),
                                                        X("struct", [("name", "ZqCycB")], None, None, [f("zq1", "ZqCycA")])])
    out["self_referential_struct"] = add_toplevel(files, last, [X("struct", [("name", "ZqCycA")], None, None, [arr("zq1", "ZqCycA", length="2")])])
    out["root_not_protocol"] = [(d, r.replace(tag="proto") if i == last else r) for i, (d, r) in enumerate(files)]
    # packets
    dirs = [d for d, _ in files]
    fams = ctx.get("families")
    if fams:
        fam, act, pdir = fams
        pi = dirs.index(pdir)
        pk = lambda fa, ac: X("packet", [("family", fa), ("action", ac)], None, None, [f("zq1")])
        out["unknown_packet_family"] = add_toplevel(files, pi, [pk("NoSuchFamilyZq", act)])
        out["unknown_packet_action"] = add_toplevel(files, pi, [pk(fam, "NoSuchActionZq")])
        out["duplicate_packet"] = add_toplevel(files, pi, [pk(fam, act + ""), ]) if ctx.get("has_packet") else None
        out["packet_no_family"] = add_toplevel(files, pi, [X("packet", [("action", act)], None, None, [f("zq1")])])
        wrong = [i for i, d in enumerate(dirs) if d not in ("net/client", "net/server")]
        if wrong:
            out["packet_outside_net"] = add_toplevel(files, wrong[0], [pk(fam, act)])
    else:
        out["packet_without_family_enum"] = add_toplevel(files, last, [X("packet", [("family", "A"), ("action", "B")], None, None, [f("zq1")])]) \
            if dirs[last] in ("net/client", "net/server") else None
    return {k: v for k, v in out.items() if v is not None}


def _text(x):
    t = (x.text or "").strip()
    for c in x.children:
        if (c.tail or "").strip():
            t = t or c.tail.strip()
    return t


def context_of(files):
    structs, enums, member = [], [], None
    fams = None
    has_packet = None
    for d, root in files:
        for t in root.children:
            if t.tag == "struct" and t.get("name"):
                structs.append(t.get("name"))
            if t.tag == "enum" and t.get("name") not in (None, "PacketFamily", "PacketAction"):
                vals = [(v.get("name"), int(_text(v))) for v in t.children if v.tag == "value"]
                if vals and member is None:
                    enums.append(t.get("name"))
                    member = vals[0]
            if t.tag == "packet":
                has_packet = (t.get("family"), t.get("action"), d)
    pf = pa = None
    for d, root in files:
        for t in root.children:
            if t.tag == "enum" and t.get("name") == "PacketFamily":
                pf = [v.get("name") for v in t.children if v.tag == "value"]
            if t.tag == "enum" and t.get("name") == "PacketAction":
                pa = [v.get("name") for v in t.children if v.tag == "value"]
    pdirs = [d for d, _ in files if d in ("net/client", "net/server")]
    if has_packet:
        fams = has_packet
    elif pf and pa and pdirs:
        fams = (pf[0], pa[0], pdirs[0])
    return {"struct": structs[0] if structs else None, "enum": enums[0] if enums else None, "enum_member": member,
            "families": fams, "has_packet": has_packet}


def all_edits(files, rng, per_rule_placements=2):
    """yield (rule, placement, edited files)"""
    ctx = context_of(files)
    bs = bodies(files)
    for rule, (needs_chunked, frag) in body_rules(ctx).items():
        elig = [b for b in bs if needs_chunked is None or b.chunked == needs_chunked]
        if not elig:
            continue
        # one per placement class, sampled
        by_place = {}
        for b in elig:
            by_place.setdefault(b.placement, []).append(b)
        places = list(by_place)
        rng.shuffle(places)
        for p in places[:per_rule_placements]:
            b = rng.choice(by_place[p])
            yield rule, p, insert_front(files, b, frag)
    for rule, new_files in file_rules(files, ctx).items():
        yield rule, "file", new_files


# ---- generic structural edits (no expectation attached: the declarative checkers are the oracle) ------------
_BUILTINS = ["byte", "char", "short", "three", "int", "bool", "string", "encoded_string", "blob"]
_INSTR = ("field", "array", "length", "dummy", "switch", "chunked", "break")


def _all_elements(files):
    """[(file index, path, element)] for every element below the roots"""
    out = []

    def walk(fi, path, e):
        for i, c in enumerate(e.children):
            out.append((fi, path + [i], c))
            walk(fi, path + [i], c)
    for fi, (_, root) in enumerate(files):
        walk(fi, [], root)
    return out


def _set_attr(e: Xml, k, v):
    attrs = [(a, b) for a, b in e.attrs if a != k]
    if v is not None:
        attrs.append((k, v))
    return e.replace(attrs=attrs)


def generic_edit(files, rng):
    """one random small structural change of a specification -> (description, files) or None.
    The result may be well-formed or not; nobody says which — that is for the checkers and the generator."""
    files = list(files)
    elems = _all_elements(files)
    instrs = [(fi, p, e) for fi, p, e in elems if e.tag in _INSTR]
    if not instrs:
        return None
    type_names = [e.get("name") for _, _, e in elems if e.tag in ("enum", "struct") and e.get("name")]
    field_names = [e.get("name") for _, _, e in instrs if e.get("name")]
    kind = rng.choice(["toggle_optional", "swap_adjacent", "delete", "duplicate", "move", "retype", "relength", "toggle_flag",
                       "case_value", "hardcode", "rename", "switch_field", "toggle_optional", "swap_adjacent", "move", "relength"])

    def upd(fi, path, fn):
        d, root = files[fi]
        return files[:fi] + [(d, replace_path(root, path, fn))] + files[fi + 1:]

    def parent_update(fi, path, fn):
        """fn(list of children of the parent, index) -> new list"""
        return upd(fi, path[:-1], lambda par: par.replace(children=fn(list(par.children), path[-1])))

    fi, path, e = rng.choice(instrs)
    if kind == "toggle_optional":
        cands = [(a, b, c) for a, b, c in instrs if c.tag in ("field", "array", "length")]
        if not cands:
            return None
        fi, path, e = rng.choice(cands)
        v = None if e.get("optional") == "true" else "true"
        return f"{kind} {e.tag} {e.get('name')}", upd(fi, path, lambda x: _set_attr(x, "optional", v))
    if kind == "swap_adjacent":
        if path[-1] == 0:
            return None
        def sw(k, i):
            k[i - 1], k[i] = k[i], k[i - 1]
            return k
        return f"{kind} {e.tag} {e.get('name')}", parent_update(fi, path, sw)
    if kind == "delete":
        return f"{kind} {e.tag} {e.get('name')}", parent_update(fi, path, lambda k, i: k[:i] + k[i + 1:])
    if kind == "duplicate":
        return f"{kind} {e.tag} {e.get('name')}", parent_update(fi, path, lambda k, i: k[:i + 1] + [k[i]] + k[i + 1:])
    if kind == "move":
        # take the instruction out and put it at a random position of a random body of the same file
        without = parent_update(fi, path, lambda k, i: k[:i] + k[i + 1:])
        bs = [b for b in bodies(without) if b.fi == fi]
        if not bs:
            return None
        b = rng.choice(bs)
        pos = rng.randrange(len(b.elem.children) + 1)
        d, root = without[fi]
        new_root = replace_path(root, b.path, lambda x: x.replace(children=list(x.children[:pos]) + [e] + list(x.children[pos:])))
        return f"{kind} {e.tag} {e.get('name')} -> {b.placement}@{pos}", without[:fi] + [(d, new_root)] + without[fi + 1:]
    if kind == "retype":
        if e.get("type") is None:
            return None
        t = rng.choice(_BUILTINS + type_names + ["NoSuchType", "bool:char", "char:bool", (rng.choice(type_names) + ":short") if type_names else "int"])
        return f"{kind} {e.tag} {e.get('name')} {e.get('type')}->{t}", upd(fi, path, lambda x: _set_attr(x, "type", t))
    if kind == "relength":
        if e.tag not in ("field", "array"):
            return None
        lens = [x.get("name") for _, _, x in instrs if x.tag == "length" and x.get("name")]
        v = rng.choice([None, "0", "3", "x3", "-1", "+2", "1_0", " 2"] + lens + field_names[:3])
        return f"{kind} {e.tag} {e.get('name')} {e.get('length')}->{v}", upd(fi, path, lambda x: _set_attr(x, "length", v))
    if kind == "toggle_flag":
        k = rng.choice(["delimited", "padded", "trailing-delimiter"])
        v = None if e.get(k) == "true" else "true"
        return f"{kind} {k} {e.tag} {e.get('name')}", upd(fi, path, lambda x: _set_attr(x, k, v))
    if kind == "case_value":
        cases = [(a, b, c) for a, b, c in elems if c.tag == "case"]
        if not cases:
            return None
        fi, path, e = rng.choice(cases)
        if rng.random() < 0.3:
            v = None if e.get("default") == "true" else "true"
            return f"{kind} default={v}", upd(fi, path, lambda x: _set_attr(x, "default", v))
        v = rng.choice([None, "0", "1", "7", "abc", "Unknown", "+1", "1_0", "-1", " 1"] + ([rng.choice(type_names)] if type_names else []))
        return f"{kind} value {e.get('value')}->{v}", upd(fi, path, lambda x: _set_attr(x, "value", v))
    if kind == "hardcode":
        if e.tag not in ("field", "dummy"):
            return None
        v = rng.choice([None, "1", "abc", "true", "12x", "", "-1", "+7", "1_0", " 7 ", "0x1", "1.5", "True", "false"])
        return f"{kind} {e.tag} {e.get('name')} text->{v!r}", upd(fi, path, lambda x: x.replace(text=v))
    if kind == "rename":
        if e.tag not in ("field", "array", "length"):
            return None
        v = rng.choice([None] + field_names)
        return f"{kind} {e.tag} {e.get('name')}->{v}", upd(fi, path, lambda x: _set_attr(x, "name", v))
    if kind == "switch_field":
        sws = [(a, b, c) for a, b, c in instrs if c.tag == "switch"]
        if not sws:
            return None
        fi, path, e = rng.choice(sws)
        v = rng.choice([None, "nosuch"] + field_names)
        return f"{kind} {e.get('field')}->{v}", upd(fi, path, lambda x: _set_attr(x, "field", v))
    return None
