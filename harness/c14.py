"""C14 — protocol enums: Enum.construct vs IntEnum classes using ProtocolEnumMeta (hand-written and
as the generator emits them), plus the direct oracle of the property on CPython."""
from __future__ import annotations

import enum
import types

from . import common
from .common import Ctx

FILES = ["src/eolib/protocol/protocol_enum_meta.py", "protocol_code_generator/generate/code_generator.py"]
RULE = ("random enum declarations (0..12 members, ordinals from boundary pools of every underlying type, a member named "
        "None_ as the generator renames it), built exactly as the generator emits them (class E(IntEnum, "
        "metaclass=ProtocolEnumMeta)) and through the functional API; every declared ordinal, its neighbours, 0, 252..256, "
        "64008+-1, 253^k+-1, negatives, 10^12, in random order with repetitions; for each call: identity of members, ==, hash, "
        "int(), .name, .value, type; list(E) and the value map before/after. distinct = (declared?, ordinal class, "
        "number of members, repeat)")
ASSUMPTIONS = ["CPython's enum machinery (EnumMeta.__call__ raising ValueError for unknown values, int.__new__ on an IntEnum "
               "subclass) is observed on the interpreter in use, not proved"]

POOL = [0, 1, 2, 3, 5, 9, 10, 100, 251, 252, 253, 254, 255, 256, 64008, 64009, 16194276, 16194277, 4097152080]
PROBES = [0, 1, -1, -2, 252, 253, 254, 255, 256, 64007, 64008, 64009, 64010, 253 ** 3 - 1, 253 ** 3, 253 ** 3 + 1,
          253 ** 4 - 1, 253 ** 4, 253 ** 4 + 1, 10 ** 12, -10 ** 6]


def mods():
    common.load_eolib()
    return common.imp("eolib.protocol.protocol_enum_meta")


def make_enum(meta, name: str, members: list[tuple[str, int]]):
    src = f"class {name}(IntEnum, metaclass=ProtocolEnumMeta):\n" + \
        ("".join(f"    {n} = {o}\n" for n, o in members) if members else "    pass\n")
    ns = {"IntEnum": enum.IntEnum, "ProtocolEnumMeta": meta.ProtocolEnumMeta}
    exec(src, ns)  # noqa: S102 - this is exactly the text the generator emits
    return ns[name]


def snapshot(E):
    return ([(m.name, m.value, id(m)) for m in E], sorted((k, id(v)) for k, v in E._value2member_map_.items()),
            sorted(E.__members__))


class _IntSub(int):
    pass


_OTHER = None


def _int_kinds(E, n, v):
    global _OTHER
    out = [("instance of the same enum", v), ("int subclass", _IntSub(n))]
    if n in (0, 1):
        out.append(("bool", bool(n)))
    if _OTHER is None:
        _OTHER = make_enum(types.SimpleNamespace(ProtocolEnumMeta=type(E)), "OtherEnumZq", [("A", 1), ("B", 4)])
    try:
        out.append(("value of another protocol enum", _OTHER(n)))
    except Exception:  # noqa: BLE001 - judged on its own enum, not here
        pass
    return out


def oracle_call(E, members, n: int) -> tuple[str | None, str]:
    """C14 on one construction; returns (why-it-fails or None, canonical answer)"""
    declared = {o: nm for nm, o in members}
    try:
        v = E(n)
    except Exception as ex:  # noqa: BLE001
        return f"{E.__name__}({n}) raised {type(ex).__name__}: {ex}", "err"
    if not isinstance(v, E):
        return f"{E.__name__}({n}) is not an instance of the enum type", "?"
    try:
        same = (v == n) and (hash(v) == hash(n)) and int(v) == n and v.value == n
    except Exception as ex:  # noqa: BLE001
        return f"{E.__name__}({n}): comparing/hashing/converting raised {type(ex).__name__}", "?"
    if not same:
        return f"{E.__name__}({n}) does not compare/hash/convert as {n} (int {int(v)}, value {v.value!r})", "?"
    # the same integer handed over as another kind of int: the instance just built (what code normalising a field with
    # `Kind(x)` does when x was read from the wire), an int subclass, a bool, a member/instance of a different enum
    for kind, x in _int_kinds(E, n, v):
        try:
            w = E(x)
            ok = isinstance(w, E) and w == n and hash(w) == hash(n) and int(w) == n and w.value == n and \
                w.name == (declared[n] if n in declared else f"Unrecognized({n})") and (n not in declared or w is getattr(E, declared[n]))
        except Exception as ex:  # noqa: BLE001
            return f"{E.__name__}(<{kind} {n}>) raised {type(ex).__name__}: {ex}", "err"
        if not ok:
            return f"{E.__name__}(<{kind} {n}>) = {w!r} does not behave as {E.__name__}({n})", "?"
    if n in declared:
        m = getattr(E, declared[n])
        if v is not m or E(n) is not v:
            return f"{E.__name__}({n}) is not the declared member {declared[n]} (got {v!r})", "?"
        if v.name != declared[n]:
            return f"{E.__name__}({n}).name = {v.name!r}", "?"
        return None, f"member {v.name} {n} int {int(v)}"
    if v.name != f"Unrecognized({n})":
        return f"{E.__name__}({n}).name = {v.name!r}, expected Unrecognized({n})", "?"
    if v in list(E):
        pass  # equality with a member would mean n is declared
    return None, f"unrecognized {n} {v.name} int {int(v)}"


def gen_decl(rng, i):
    k = rng.choice([1, 1, 2, 3, 5, 8, 12])  # an enum without members is not a valid declaration (the emitted class body would be empty)
    ords = rng.sample(POOL + [rng.randrange(0, 300) for _ in range(6)], k)
    ords = list(dict.fromkeys(ords))
    names = [f"M{j}" for j in range(len(ords))]
    if names and rng.random() < 0.3:
        names[rng.randrange(len(names))] = "None_"
    return f"E{i}", list(zip(names, ords))


def run(ctx: Ctx):
    meta = mods()
    rng = ctx.rng
    d = ctx.driver
    ndecl = 1500 if ctx.thorough else 150
    ncalls = 0
    # phase 0 — the very first unrecognised values this process ever constructs are handed over as *other kinds of int*
    # (bool, int subclass, a value of another enum) and only afterwards as plain ints: anything remembered from the first
    # construction (a name, an instance) must not leak into the later ones, on this enum or on any other
    K0 = make_enum(meta, "K0", [("A", 7)])
    K1 = make_enum(meta, "K1", [("B", 9)])
    for kind, x, n in [("bool", True, 1), ("bool", False, 0), ("int subclass", _IntSub(3), 3), ("int subclass", _IntSub(-2), -2),
                       ("member of another enum", K1.B, 9)]:
        for E_, members_ in ((K0, [("A", 7)]), (K1, [("B", 9)])):
            try:
                w = E_(x)
                ok = isinstance(w, E_) and w == n and int(w) == n and hash(w) == hash(n) and \
                    w.name == (dict((o, nm) for nm, o in members_).get(n) or f"Unrecognized({n})")
                why = None if ok else f"{E_.__name__}(<{kind} {n}>) = {w!r} (name {w.name!r}) does not behave as {E_.__name__}({n})"
            except Exception as ex:  # noqa: BLE001
                why = f"{E_.__name__}(<{kind} {n}>) raised {type(ex).__name__}: {ex}"
            if why is None:
                why, _ = oracle_call(E_, members_, n)     # and now the plain integer
                if why:
                    why += f" (after the same number had been handed over as a {kind})"
            if why:
                ctx.violation("property-fails", why, {"input": {"members": members_, "calls": [f"<{kind} {n}>", n], "failing": n}})
                return
            ncalls += 2
    lines, impl, info = [], [], []
    for i in range(ndecl):
        name, members = gen_decl(rng, i)
        E = make_enum(meta, name, members)
        if rng.random() < 0.2 and members:
            # functional API goes through ProtocolEnumMeta.__call__ with names=...
            F = make_enum(meta, "Base", [])(name + "F", names=members)
            if [(m.name, m.value) for m in F] != members:
                ctx.violation("property-fails", f"functional construction of {name} lost members", {"input": {"members": members}})
                return
        before = snapshot(E)
        probes = [o + dlt for _, o in members for dlt in (-1, 0, 1)] + PROBES + [o for _, o in members]
        rng.shuffle(probes)
        probes += probes[:5]
        lines.append(f"enum new {i} " + (",".join(f"{n}:{o}" for n, o in members) or "-"))
        impl.append("ok")
        info.append((members, None))
        for n in probes:
            why, ans = oracle_call(E, members, n)
            if why:
                ctx.violation("property-fails", why, {"input": {"members": members, "calls": probes, "failing": n}})
                return
            lines.append(f"enum {i} call {n}")
            impl.append(ans)
            info.append((members, n))
            ncalls += 1
            ctx.sig((n in dict((o, 1) for _, o in members), min(len(members), 6), -1 if n < 0 else 0 if n < 253 else 1 if n < 64009 else 2))
        if snapshot(E) != before:
            ctx.violation("property-fails", f"constructing instances of {name} changed its declared members / value map",
                          {"input": {"members": members, "calls": probes}})
            return
    # enums emitted by the real generator (every underlying type, overrides, a member named None)
    from . import genlib, specgen
    gen_specs = [c[2] for c in specgen.catalogue_specs()[:2]] + [specgen.random_spec(rng, size=3) for _ in range(6 if ctx.thorough else 2)]
    ngen = 0
    for files in gen_specs:
        run_ = genlib.GenRun(files)
        try:
            if run_.error is not None:
                continue
            run_.load()
            for cname, E in sorted(run_.classes.items()):
                if not (isinstance(E, type) and issubclass(E, enum.IntEnum)):
                    continue
                members = [(m.name, int(m.value)) for m in E]
                before = snapshot(E)
                probes = [o + dlt for _, o in members for dlt in (-1, 0, 1)] + PROBES
                rng.shuffle(probes)
                i = ndecl + ngen
                ngen += 1
                lines.append(f"enum new {i} " + (",".join(f"{n}:{o}" for n, o in members) or "-"))
                impl.append("ok")
                info.append((members, None))
                for n in probes:
                    why, ans_ = oracle_call(E, members, n)
                    if why:
                        ctx.violation("property-fails", f"generated enum {cname}: " + why, {"input": {"members": members, "calls": probes, "failing": n}})
                        return
                    lines.append(f"enum {i} call {n}")
                    impl.append(ans_)
                    info.append((members, n))
                    ncalls += 1
                    ctx.sig(("generated", n in dict((o, 1) for _, o in members), min(len(members), 6)))
                if snapshot(E) != before:
                    ctx.violation("property-fails", f"constructing instances of generated enum {cname} changed its members",
                                  {"input": {"members": members, "calls": probes}})
                    return
        finally:
            run_.cleanup()
    ctx.count("generated_enum_classes", ngen)
    ans = d.ask(lines)
    for a, b, (members, n) in zip(impl, ans, info):
        if a != b:
            ctx.violation("model-impl-disagree", f"enum {members} call {n}: impl `{a}`, model `{b}`; the property holds on every call",
                          {"input": {"members": members, "failing": n}, "impl": a, "model": b,
                           "correspondence": "Enum.construct vs ProtocolEnumMeta.__call__",
                           "theorems_no_longer_tied": common.load_registry()["C14"]["theorems"]}, found_input=False)
            return
    ctx.part("enum declarations x integer probes (judged and compared)", ncalls, False, f"{ndecl} declarations")
    ctx.sample({"members": [["A", 1], ["None_", 2]], "call": 7, "impl": oracle_call(make_enum(meta, "S", [("A", 1), ("None_", 2)]), [("A", 1), ("None_", 2)], 7)[1]})
    ctx.extra["python_version"] = __import__("sys").version.split()[0]


def oracle_sweep(ctx: Ctx) -> bool:
    n0 = len(ctx.violations)
    run(ctx)
    return any(v["kind"] == "property-fails" for v in ctx.violations[n0:])


def replay(ctx: Ctx, doc: dict) -> int:
    meta = mods()
    members = [tuple(m) for m in doc["input"]["members"]]
    E = make_enum(meta, "R", members)
    bad = 0
    for n in doc["input"].get("calls", [doc["input"].get("failing")]):
        why, ans = oracle_call(E, members, n)
        print(n, ans, why or "")
        bad |= bool(why)
    if not bad:
        # nothing on this enum alone: the recorded failure may depend on what other enum types did before (shared state)
        return common.replay_full_rerun(ctx, run)
    return 1
