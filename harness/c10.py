"""C10 — packet-encryption primitives: Enc.* vs eolib.encrypt.encryption_utils."""
from __future__ import annotations

import itertools

from . import common
from .common import Ctx, tohex

FILES = ["src/eolib/encrypt/encryption_utils.py"]
RULE = ("interleave/deinterleave: every length L <= 1200 (thorough: <= 3000, sampled to 8192; up to 65,536 by the direct oracle only) with two marker runs "
        "(i%256, i//256) that identify the position permutation, plus random data; flip_msb: all 256 byte values at "
        "several positions; swap_multiples: every divisibility pattern up to length 11 (thorough 13) for m in {1,2,3,5} "
        "realised with distinct values, zeros, multiples 0..300 and huge, negative multiples (exception class), random data; "
        "random pipelines of depth <= 8 undone by the inverses in reverse order. distinct = (function, length class / parity "
        "or run layout class, multiple class)")
ASSUMPTIONS = ["bytearray slicing/assignment semantics as modelled"]


def mods():
    common.load_eolib()
    return common.imp("eolib.encrypt.encryption_utils")


def call(fn, bs: bytes, *args):
    b = bytearray(bs)
    try:
        fn(b, *args)
    except Exception as ex:  # noqa: BLE001
        return "err " + common.exc_class(ex)
    return "ok " + tohex(b)


def raw(fn, bs, *args) -> bytes:
    b = bytearray(bs)
    fn(b, *args)
    return bytes(b)


# ---- direct oracles -------------------------------------------------------------------------

def oracle_weave(m, d: bytes) -> str | None:
    try:
        i, dl = raw(m.interleave, d), raw(m.deinterleave, d)
        if len(i) != len(d) or len(dl) != len(d):
            return f"length changed for data of length {len(d)}"
        if raw(m.deinterleave, i) != d:
            return f"deinterleave(interleave(d)) != d for d={d.hex()[:80]} (length {len(d)})"
        if raw(m.interleave, dl) != d:
            return f"interleave(deinterleave(d)) != d for d={d.hex()[:80]} (length {len(d)})"
    except Exception as ex:  # noqa: BLE001
        return f"raised {type(ex).__name__} on data of length {len(d)}"
    return None


def perm_of(fn, n: int) -> list[int] | None:
    """position permutation, identified with two marker runs; None if not a permutation"""
    a = raw(fn, bytes(i % 256 for i in range(n)))
    b = raw(fn, bytes(i // 256 % 256 for i in range(n)))
    p = [a[j] + 256 * b[j] for j in range(n)]
    return p if sorted(p) == list(range(n)) else None


def oracle_perm(m, n: int, rng) -> str | None:
    try:
        return _oracle_perm(m, n, rng)
    except Exception as ex:  # noqa: BLE001 - an exception on in-domain data is a failure of the property (not lossless)
        return f"interleave/deinterleave raised {type(ex).__name__} ({ex}) on data of length {n}"


def _oracle_perm(m, n: int, rng) -> str | None:
    for name, fn in (("interleave", m.interleave), ("deinterleave", m.deinterleave)):
        p = perm_of(fn, n)
        if p is None:
            return f"{name} is not a permutation of positions at length {n}"
        d = bytes(rng.randrange(256) for _ in range(n))
        out = raw(fn, d)
        if any(out[j] != d[p[j]] for j in range(n)):
            return f"{name} at length {n}: the position permutation depends on the data"
    return None


def oracle_flip(m, d: bytes) -> str | None:
    try:
        return _oracle_flip(m, d)
    except Exception as ex:  # noqa: BLE001
        return f"flip_msb raised {type(ex).__name__} ({ex}) on {d.hex()[:80]}"


def _oracle_flip(m, d: bytes) -> str | None:
    f = raw(m.flip_msb, d)
    if len(f) != len(d) or raw(m.flip_msb, f) != d:
        return f"flip_msb is not an involution on {d.hex()[:80]}"
    for x, y in zip(d, f):
        if x in (0, 128) and y != x:
            return f"flip_msb moves {x}"
    return None


def oracle_swap(m, d: bytes, mult: int) -> str | None:
    if mult < 0:
        try:
            raw(m.swap_multiples, d, mult)
        except ValueError:
            return None
        except Exception as ex:  # noqa: BLE001
            return f"swap_multiples(multiple={mult}) raised {type(ex).__name__}, not ValueError"
        return f"swap_multiples accepted the negative multiple {mult}"
    try:
        s = raw(m.swap_multiples, d, mult)
    except Exception as ex:  # noqa: BLE001
        return f"swap_multiples({d.hex()[:60]}, {mult}) raised {type(ex).__name__}"
    if mult == 0:
        return None if s == d else f"swap_multiples(.., 0) changed the data {d.hex()[:60]}"
    if len(s) != len(d) or sorted(s) != sorted(d):
        return f"swap_multiples({d.hex()[:60]}, {mult}) = {s.hex()[:60]} changes length or the multiset of bytes"
    for i, x in enumerate(d):
        if x % mult != 0 and s[i] != x:
            return f"swap_multiples({d.hex()[:60]}, {mult}) moved the non-multiple at position {i}"
    if raw(m.swap_multiples, s, mult) != d:
        return f"swap_multiples is not an involution on {d.hex()[:60]} with multiple {mult}"
    return None


def weave_lengths(ctx: Ctx):
    if ctx.thorough:
        ls = list(range(0, 3001)) + sorted({ctx.rng.randrange(3001, 8192) for _ in range(30)} | {4095, 4096})
    else:
        ls = list(range(0, 1201)) + [2047, 2048, 4095, 4096]
    return ls


def long_lengths(ctx: Ctx):
    """lengths checked with the direct oracle only (the list-based model is quadratic)"""
    if ctx.thorough:
        return sorted({ctx.rng.randrange(8192, 65537) for _ in range(40)} | {65534, 65535, 65536})
    return [65535, 65536]


def swap_cases(ctx: Ctx):
    rng = ctx.rng
    maxlen = 13 if ctx.tier == "thorough" else 11
    for mult in (1, 2, 3, 5):
        for L in range(0, maxlen + 1):
            for pat in itertools.product((0, 1), repeat=L):
                # distinct values: k-th multiple = mult*(k+1) (or 0 now and then), non-multiples = mult*j+1 style
                vals, km, kn = [], 0, 0
                for bit in pat:
                    if bit:
                        km += 1
                        vals.append((mult * km) % 256 if (mult * km) % 256 % mult == 0 else 0)
                    else:
                        kn += 1
                        v = (mult * kn + 1) % 256
                        if mult == 1:
                            v = None
                        vals.append(v)
                if None in vals:
                    if any(b == 0 for b in pat):
                        continue  # multiple 1: every byte is a multiple, only the all-ones pattern is realisable
                yield bytes(vals), mult, ("pattern", mult, L, pat[:1], pat[-1:], "11" in "".join(map(str, pat)))
    for _ in range(30_000 if ctx.thorough else 4_000):
        L = rng.choice([rng.randrange(0, 20), rng.randrange(0, 200), rng.randrange(200, 1500)])
        mult = rng.choice([0, 1, 2, 3, 4, 5, 6, 7, 10, 17, 64, 127, 128, 129, 255, 256, 300, rng.randrange(0, 301), 10 ** 9])
        kind = rng.randrange(3)
        if kind == 0:
            d = bytes(rng.randrange(256) for _ in range(L))
        elif kind == 1 and mult:
            d = bytes(rng.choice([0, mult % 256, (2 * mult) % 256, (mult + 1) % 256, 255]) for _ in range(L))
        else:
            d = bytes(rng.choice([0, 0, 3, 6, 9, 255]) for _ in range(L))
        yield d, mult, ("random", min(mult, 301), L == 0)
    for mult in (-1, -2, -300, -10 ** 9):
        for d in (b"", b"\x00", bytes(range(20))):
            yield d, mult, ("negative", len(d))


def report_disagree(ctx, m, what, inp, a, b, fails):
    if fails:
        ctx.violation("property-fails", fails, {"input": inp})
    else:
        ctx.violation("model-impl-disagree", what, {"input": inp, "impl": a[:200], "model": b[:200],
                      "correspondence": "Enc.* vs encryption_utils", "theorems_no_longer_tied":
                      common.load_registry()["C10"]["theorems"]}, found_input=False)


def full_oracle(ctx, m) -> str | None:
    rng = ctx.rng
    for n in weave_lengths(ctx)[:1300]:
        r = oracle_perm(m, n, rng) or oracle_weave(m, bytes(rng.randrange(256) for _ in range(n)))
        if r:
            return r
    r = oracle_flip(m, bytes(range(256)) * 2)
    if r:
        return r
    for d, mult, _ in swap_cases(ctx):
        r = oracle_swap(m, d, mult)
        if r:
            return r
    return None


def run(ctx: Ctx):
    m = mods()
    d = ctx.driver
    rng = ctx.rng
    # 1. interleave / deinterleave
    lens = weave_lengths(ctx)
    n = 0
    for i in range(0, len(lens), 100):
        lines, items = [], []
        for L in lens[i:i + 100]:
            r = oracle_perm(m, L, rng)
            if r:
                ctx.violation("property-fails", r, {"input": {"length": L}})
                return
            for data in (bytes(j % 256 for j in range(L)), bytes(j // 256 % 256 for j in range(L)),
                         bytes(rng.randrange(256) for _ in range(L))):
                r = oracle_weave(m, data)
                if r:
                    ctx.violation("property-fails", r, {"input": {"fn": "interleave", "data": data.hex()}})
                    return
                h = tohex(data)
                lines += [f"enc ilv {h}", f"enc dlv {h}"]
                items += [("interleave", data), ("deinterleave", data)]
            ctx.sig(("weave", L % 2, min(L, 6)))
        ans = d.ask(lines)
        for (fn, data), b in zip(items, ans):
            a = call(getattr(m, fn), data)
            n += 1
            if a != b:
                report_disagree(ctx, m, f"{fn} on data of length {len(data)}: impl and model differ", {"fn": fn, "data": data.hex()},
                                a, b, full_oracle(ctx, m))
                return
    for L in long_lengths(ctx):
        r = oracle_perm(m, L, rng) or oracle_weave(m, bytes(rng.randrange(256) for _ in range(L)))
        if r:
            ctx.violation("property-fails", r, {"input": {"length": L}})
            return
    ctx.part("interleave/deinterleave at packet-size lengths (direct oracle only)", len(long_lengths(ctx)), False)
    ctx.part("interleave/deinterleave, every length with marker runs", n, True, f"lengths {lens[0]}..{lens[min(len(lens)-1,1200)]} contiguous")
    # 2. flip_msb
    cases = [bytes(range(256)), bytes(reversed(range(256))), bytes([0, 128, 0x7F, 0xFF, 1, 129])] + \
            [bytes([v] * k) for v in (0, 1, 127, 128, 129, 255) for k in (1, 2, 3)] + \
            [bytes(rng.randrange(256) for _ in range(rng.randrange(0, 500))) for _ in range(300)]
    ans = d.ask([f"enc flip {tohex(c)}" for c in cases])
    for c, b in zip(cases, ans):
        r = oracle_flip(m, c)
        if r:
            ctx.violation("property-fails", r, {"input": {"fn": "flip_msb", "data": c.hex()}})
            return
        a = call(m.flip_msb, c)
        if a != b:
            report_disagree(ctx, m, "flip_msb: impl and model differ", {"fn": "flip_msb", "data": c.hex()}, a, b, full_oracle(ctx, m))
            return
    for v in range(256):
        ctx.sig(("flip", v))
    ctx.part("flip_msb", len(cases), True, "all 256 byte values")
    # 3. swap_multiples
    batch = []
    n = 0

    def flush():
        nonlocal batch, n
        ans = d.ask([f"enc swap {mult} {tohex(data)}" for data, mult in batch])
        for (data, mult), b in zip(batch, ans):
            a = call(m.swap_multiples, data, mult)
            n += 1
            if a != b:
                report_disagree(ctx, m, f"swap_multiples(multiple={mult}) on {data.hex()[:60]}: impl {a[:80]}, model {b[:80]}",
                                {"fn": "swap_multiples", "data": data.hex(), "multiple": mult}, a, b, full_oracle(ctx, m))
                return False
        batch = []
        return True

    for data, mult, sg in swap_cases(ctx):
        r = oracle_swap(m, data, mult)
        if r:
            ctx.violation("property-fails", r, {"input": {"fn": "swap_multiples", "data": data.hex(), "multiple": mult}})
            return
        ctx.sig(("swap",) + sg[:5])
        batch.append((data, mult))
        if len(batch) >= 20000 and not flush():
            return
    if not flush():
        return
    ctx.part("swap_multiples patterns/random/negative", n, False, "every divisibility pattern up to the length bound for m in {1,2,3,5}")
    # 4. pipelines
    npipe = 3000 if ctx.thorough else 600
    for _ in range(npipe):
        data = bytes(rng.randrange(256) for _ in range(rng.randrange(0, 120)))
        steps = [rng.choice(["i", "d", "f", ("s", rng.choice([0, 1, 2, 3, 6, 7, 13, 255]))]) for _ in range(rng.randrange(1, 9))]
        cur = data
        for s in steps:
            cur = raw(m.interleave, cur) if s == "i" else raw(m.deinterleave, cur) if s == "d" else raw(m.flip_msb, cur) if s == "f" \
                else raw(m.swap_multiples, cur, s[1])
        back = cur
        for s in reversed(steps):
            back = raw(m.deinterleave, back) if s == "i" else raw(m.interleave, back) if s == "d" else raw(m.flip_msb, back) if s == "f" \
                else raw(m.swap_multiples, back, s[1])
        if back != data:
            ctx.violation("property-fails", f"pipeline {steps} on {data.hex()} is not undone by its inverses in reverse order",
                          {"input": {"fn": "pipeline", "steps": [list(s) if isinstance(s, tuple) else s for s in steps], "data": data.hex()}})
            return
        ctx.sig(("pipe", len(steps)))
    ctx.part("random pipelines", npipe, False)
    ctx.sample({"interleave": "000102030405", "impl": call(m.interleave, bytes(range(6)))})
    ctx.sample({"swap_multiples": "0a151b", "multiple": 3, "impl": call(m.swap_multiples, bytes([10, 21, 27]), 3)})


def oracle_sweep(ctx: Ctx) -> bool:
    m = mods()
    r = full_oracle(ctx, m)
    if r:
        ctx.violation("property-fails", r, {"input": {"sweep": True}})
        return True
    return False


def replay(ctx: Ctx, doc: dict) -> int:
    m = mods()
    inp = doc["input"]
    fn = inp.get("fn")
    if fn in ("interleave", "deinterleave"):
        data = bytes.fromhex(inp["data"])
        r = oracle_weave(m, data)
        a, b = call(getattr(m, fn), data), ctx.driver.ask1(f"enc {'ilv' if fn == 'interleave' else 'dlv'} {tohex(data)}")
    elif fn == "flip_msb":
        data = bytes.fromhex(inp["data"])
        r = oracle_flip(m, data)
        a, b = call(m.flip_msb, data), ctx.driver.ask1(f"enc flip {tohex(data)}")
    elif fn == "swap_multiples":
        data = bytes.fromhex(inp["data"])
        r = oracle_swap(m, data, inp["multiple"])
        a, b = call(m.swap_multiples, data, inp["multiple"]), ctx.driver.ask1(f"enc swap {inp['multiple']} {tohex(data)}")
    elif "length" in inp:
        r = oracle_perm(m, inp["length"], ctx.rng)
        a = b = ""
    else:
        r = full_oracle(ctx, m)
        a = b = ""
    print(f"{fn}: impl={a[:100]} model={b[:100]} property: {r or 'holds'}")
    return 1 if (r or a != b) else 0
