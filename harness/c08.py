"""C08 — EO string encoding: Str.encode/Str.decode vs eolib.data.string_encoding_utils."""
from __future__ import annotations

import itertools

from . import common
from .common import Ctx, tohex

FILES = ["src/eolib/data/string_encoding_utils.py"]
RULE = ("full (byte value x position x length) table for lengths 1..4 (every byte value at every position), every "
        "string of length <= 5 (thorough: <= 6) over the alphabet {21,22,4f,50,7d,7e,7f,00,ff}, seeded random strings up "
        "to 4 KiB; both directions and both compositions. distinct = (length parity, set of byte classes present, direction)")
ASSUMPTIONS = ["bytearray.reverse() and item assignment behave as modelled"]
ALPHA = [0x21, 0x22, 0x4F, 0x50, 0x7D, 0x7E, 0x7F, 0x00, 0xFF]


def mods():
    common.load_eolib()
    return common.imp("eolib.data.string_encoding_utils")


def enc(m, bs: bytes) -> bytes:
    b = bytearray(bs)
    m.encode_string(b)
    return bytes(b)


def dec(m, bs: bytes) -> bytes:
    b = bytearray(bs)
    m.decode_string(b)
    return bytes(b)


def oracle(m, bs: bytes) -> str | None:
    """The statement of C08 on the real code for one byte string."""
    n = len(bs)
    try:
        e, d = enc(m, bs), dec(m, bs)
        de, ed = dec(m, e), enc(m, d)
    except Exception as ex:  # noqa: BLE001
        return f"raised {type(ex).__name__} on {bs.hex()}"
    if len(e) != n or len(d) != n:
        return f"length changed on {bs.hex()}"
    for i in range(n):
        if bs[i] != 0x7E and (de[i] != bs[i] or ed[i] != bs[i]):
            return f"round trip differs at position {i} of {bs.hex()} (decode(encode)={de.hex()}, encode(decode)={ed.hex()})"
        for name, out in (("encode", e), ("decode", d)):
            src = bs[n - 1 - i]
            if 0x22 <= src <= 0x7E:
                if not 0x21 <= out[i] <= 0x7D:
                    return f"{name}({bs.hex()})[{i}] = {out[i]:#x} not in 0x21..0x7D (source byte {src:#x})"
            elif out[i] != src:
                return f"{name}({bs.hex()})[{i}] = {out[i]:#x}, source byte {src:#x} outside 0x22..0x7E must be untouched/reversed"
    return None


def cls(b):
    return 0 if b < 0x22 else 1 if b < 0x50 else 2 if b < 0x7E else 3 if b == 0x7E else 4


def inputs(ctx: Ctx):
    out = []
    for L in range(1, 5):
        for p in range(L):
            for v in range(256):
                s = bytearray([0x41] * L)
                s[p] = v
                out.append(bytes(s))
    n_table = len(out)
    maxlen = 6 if ctx.thorough else 5
    for L in range(0, maxlen + 1):
        out += [bytes(t) for t in itertools.product(ALPHA, repeat=L)]
    n_exh = len(out) - n_table
    rng = ctx.rng
    for _ in range(40_000 if ctx.thorough else 6_000):
        L = rng.choice([rng.randrange(0, 40), rng.randrange(0, 40), rng.randrange(40, 600), rng.randrange(600, 4097)])
        kind = rng.randrange(3)
        if kind == 0:
            out.append(bytes(rng.randrange(256) for _ in range(L)))
        elif kind == 1:
            out.append(bytes(rng.choice(ALPHA) for _ in range(L)))
        else:
            out.append(bytes(rng.randrange(0x20, 0x80) for _ in range(L)))
    return out, n_table, n_exh


def sweep(ctx, m, items):
    for bs in items:
        r = oracle(m, bs)
        if r:
            return {"bytes": bs.hex(), "why": r}
    return None


def oracle_sweep(ctx: Ctx) -> bool:
    m = mods()
    items, _, _ = inputs(ctx)
    f = sweep(ctx, m, items)
    if f:
        ctx.violation("property-fails", f["why"], {"input": f})
        return True
    return False


def run(ctx: Ctx):
    m = mods()
    items, n_table, n_exh = inputs(ctx)
    d = ctx.driver
    for i in range(0, len(items), 50_000):
        chunk = items[i:i + 50_000]
        lines = []
        for bs in chunk:
            h = tohex(bs)
            lines += [f"str enc {h}", f"str dec {h}"]
        ans = d.ask(lines)
        for j, bs in enumerate(chunk):
            r = oracle(m, bs)
            if r:
                ctx.violation("property-fails", r, {"input": {"bytes": bs.hex()}})
                return
            a_e, a_d = "ok " + tohex(enc(m, bs)), "ok " + tohex(dec(m, bs))
            if a_e != ans[2 * j] or a_d != ans[2 * j + 1]:
                f = sweep(ctx, m, items)
                if f:
                    ctx.violation("property-fails", f["why"], {"input": f})
                else:
                    ctx.violation("model-impl-disagree",
                                  f"encode/decode_string({bs.hex()}): impl {a_e}/{a_d}, model {ans[2*j]}/{ans[2*j+1]}",
                                  {"input": {"bytes": bs.hex()}, "impl": [a_e, a_d], "model": ans[2 * j:2 * j + 2],
                                   "correspondence": "Str.encode/Str.decode vs string_encoding_utils",
                                   "theorems_no_longer_tied": common.load_registry()["C08"]["theorems"]},
                                  found_input=False)
                return
            if len(bs) <= 64:
                ctx.sig((len(bs) % 2, min(len(bs), 8), frozenset(cls(b) for b in bs)))
            else:
                ctx.sig((len(bs) % 2, "long", frozenset(cls(b) for b in bs)))
    ctx.part("byte x position x length table", n_table, True, "lengths 1..4, every value at every position")
    ctx.part("short strings over boundary alphabet", n_exh, True)
    ctx.part("random strings", len(items) - n_table - n_exh, False)
    ctx.count("strings", len(items))
    ctx.sample({"bytes": "48656c6c6f", "encode": enc(m, b"Hello").hex(), "decode": dec(m, b"Hello").hex()})
    ctx.sample({"bytes": "7e41", "decode(encode)": dec(m, enc(m, b"\x7eA")).hex()})
    ctx.exhaustive = False


def replay(ctx: Ctx, doc: dict) -> int:
    m = mods()
    bs = bytes.fromhex(doc["input"]["bytes"])
    r = oracle(m, bs)
    a = ["ok " + tohex(enc(m, bs)), "ok " + tohex(dec(m, bs))]
    b = ctx.driver.ask([f"str enc {tohex(bs)}", f"str dec {tohex(bs)}"])
    print(f"bytes={bs.hex()} impl={a} model={b} property: {r or 'holds'}")
    return 1 if (r or a != b) else 0
