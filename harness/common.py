"""Shared plumbing of the verification harness.

* loads the working tree of the repository under test (VERIF_REPO, default /repo) without
  installing anything and without executing eolib/__init__.py (which needs generated code);
* builds the Lean project (theorems are kernel-checked by `lake build`) and audits axioms;
* talks to the compiled model driver over a line protocol;
* evidence / replay / violation / known-finding protocol.
"""
from __future__ import annotations

import ast
import hashlib
import importlib
import json
import os
import random
import re
import subprocess
import sys
import time
import types
import zlib

VERIF = os.path.dirname(os.path.dirname(os.path.abspath(__file__)))
REPO = os.environ.get("VERIF_REPO", "/repo")
LEAN_DIR = os.path.join(VERIF, "lean")
DRIVER_BIN = os.path.join(LEAN_DIR, ".lake", "build", "bin", "driver")
EVIDENCE_DIR = os.path.join(VERIF, "evidence")
REPLAY_DIR = os.path.join(VERIF, "replays")
ALLOWED_AXIOMS = {"propext", "Classical.choice", "Quot.sound"}
FORBIDDEN = re.compile(
    r"\bsorry\b|\badmit\b|^\s*axiom\s|native_decide|bv_decide|implemented_by|\bunsafe\s|maxHeartbeats\s+0\b"
)

TRUSTED_BASE = [
    "Lean 4.33.0 kernel (lake build re-checks every theorem; thorough tier re-checks .olean files with leanchecker)",
    "axioms allowed in property theorems: propext, Classical.choice, Quot.sound (audited with #print axioms on every run)",
    "hand-written Lean models; tied to the working tree only by the correspondence check (differential testing through the compiled driver)",
    "leanc-compiled driver agrees with the kernel's reading of the model definitions",
    "CPython 3.12 runtime semantics (ints, bytes/bytearray/memoryview, cp1252 codec, enum, descriptors, import system) are modelled, not verified",
    "where coverage.source_tie is present: the Python-to-Lean translator harness/py2lean.py and the Python semantics written down in Model/PyOps.lean "
    "(the translated source is proved equal to the hand-written model on every run; not established => correspondence only, at escalated depth)",
]


class CheckAbort(Exception):
    pass


# --------------------------------------------------------------------------------------------
# repository loading
# --------------------------------------------------------------------------------------------

def load_eolib(repo: str | None = None):
    """Make `eolib.data`, `eolib.encrypt`, `eolib.packet`, `eolib.protocol.*` importable from the
    working tree without running eolib/__init__.py or eolib/protocol/__init__.py."""
    repo = repo or REPO
    src = os.path.join(repo, "src")
    for name in [n for n in sys.modules if n == "eolib" or n.startswith("eolib.")]:
        del sys.modules[name]
    pkg = types.ModuleType("eolib")
    pkg.__path__ = [os.path.join(src, "eolib")]
    pkg.__package__ = "eolib"
    sys.modules["eolib"] = pkg
    proto = types.ModuleType("eolib.protocol")
    proto.__path__ = [os.path.join(src, "eolib", "protocol")]
    proto.__package__ = "eolib.protocol"
    sys.modules["eolib.protocol"] = proto
    pkg.protocol = proto
    importlib.invalidate_caches()
    return pkg


def imp(name: str):
    return importlib.import_module(name)


# --------------------------------------------------------------------------------------------
# Lean side
# --------------------------------------------------------------------------------------------

class lake_lock:
    """checks of different properties may be started side by side: lake invocations on the one project directory are
    serialised across processes with an advisory file lock"""

    def __enter__(self):
        import fcntl
        self.f = open(os.path.join(LEAN_DIR, ".lake-verif.lock"), "w")
        fcntl.flock(self.f, fcntl.LOCK_EX)
        return self

    def __exit__(self, *a):
        import fcntl
        fcntl.flock(self.f, fcntl.LOCK_UN)
        self.f.close()


def lake_build(targets=("EoVerif", "driver")) -> tuple[bool, str]:
    t0 = time.time()
    with lake_lock():
        p = subprocess.run(["lake", "build", *targets], cwd=LEAN_DIR, capture_output=True, text=True)
    out = p.stdout + p.stderr
    return p.returncode == 0, out + f"\n[lake build {time.time()-t0:.1f}s]"


def load_registry() -> dict:
    with open(os.path.join(LEAN_DIR, "registry.json")) as f:
        return json.load(f)


def import_closure(modules: list[str]) -> list[str]:
    """files of this project transitively imported by `modules`"""
    seen, todo = set(), list(modules)
    while todo:
        m = todo.pop()
        if m in seen or not (m.startswith("EoVerif") or m.startswith("Driver")):
            continue
        path = os.path.join(LEAN_DIR, *m.split(".")) + ".lean"
        if not os.path.exists(path):
            continue
        seen.add(m)
        for line in open(path, encoding="utf-8"):
            mm = re.match(r"\s*import\s+([\w.]+)", line)
            if mm:
                todo.append(mm.group(1))
    return sorted(os.path.join(LEAN_DIR, *m.split(".")) + ".lean" for m in seen)


def scan_forbidden(modules: list[str] | None = None) -> list[str]:
    """grep the Lean sources (the import closure of `modules`, or every file) for forbidden
    constructs outside comments."""
    hits = []
    if modules is not None:
        paths = import_closure(modules)
    else:
        paths = []
        for root, _, files in os.walk(LEAN_DIR):
            if ".lake" in root:
                continue
            paths += [os.path.join(root, fn) for fn in files if fn.endswith(".lean")]
    for path in paths:
        text = strip_lean_comments(open(path, encoding="utf-8").read())
        for i, line in enumerate(text.split("\n"), 1):
            if FORBIDDEN.search(line):
                hits.append(f"{os.path.relpath(path, LEAN_DIR)}:{i}: {line.strip()[:120]}")
    return hits


def strip_lean_comments(text: str) -> str:
    out = []
    i = 0
    depth = 0
    n = len(text)
    in_str = False
    while i < n:
        if depth == 0 and not in_str and text.startswith("--", i):
            j = text.find("\n", i)
            if j == -1:
                break
            i = j
            continue
        if not in_str and text.startswith("/-", i):
            depth += 1
            i += 2
            continue
        if depth > 0 and text.startswith("-/", i):
            depth -= 1
            i += 2
            continue
        if depth > 0:
            if text[i] == "\n":
                out.append("\n")
            i += 1
            continue
        c = text[i]
        if c == '"':
            in_str = not in_str
        elif in_str and c == "\\":
            out.append(c)
            i += 1
            if i < n:
                out.append(text[i])
                i += 1
            continue
        out.append(c)
        i += 1
    return "".join(out)


def audit_axioms(prop: str, entry: dict | None = None, tag: str = "") -> dict:
    """#print axioms for every theorem registered for `prop` (or of the given registry entry).
    Returns {theorem: [axioms]} and the names that are missing."""
    if entry is None:
        entry = load_registry()[prop]
    mods = entry["modules"]
    names = entry["theorems"]
    src = "".join(f"import {m}\n" for m in mods) + "".join(f"#print axioms {n}\n" for n in names)
    audit_dir = os.path.join(LEAN_DIR, ".lake", "audit")
    os.makedirs(audit_dir, exist_ok=True)
    path = os.path.join(audit_dir, f"Audit_{prop}{tag}.lean")
    with open(path, "w") as f:
        f.write(src)
    with lake_lock():
        p = subprocess.run(["lake", "env", "lean", path], cwd=LEAN_DIR, capture_output=True, text=True)
    out = p.stdout + p.stderr
    result = {}
    for m in re.finditer(r"'([^']+)' depends on axioms: \[([^\]]*)\]", out):
        result[m.group(1)] = [a.strip() for a in m.group(2).replace("\n", " ").split(",") if a.strip()]
    for m in re.finditer(r"'([^']+)' does not depend on any axioms", out):
        result[m.group(1)] = []
    missing = [n for n in names if n not in result]
    return {"axioms": result, "missing": missing, "raw": out if (missing or p.returncode != 0) else ""}


def replay_full_rerun(ctx, run_fn) -> int:
    """for violations that depend on the history of a whole run (shared caches, held results): re-run the property's
    sweep in replay mode; exit 1 iff a violation shows again"""
    ctx.replaying = True
    ctx.replay_hits = []
    ctx.deferred = []
    run_fn(ctx)
    for d in ctx.deferred:
        print(f"  reproduced: {d[0]}: {d[1][:400]}")
    if not (ctx.replay_hits or ctx.deferred):
        print("  not reproduced on this tree: the property's sweep passes")
    return 1 if (ctx.replay_hits or ctx.deferred) else 0


class Driver:
    """The compiled Lean model behind a line protocol (batch request / batch answer)."""

    def __init__(self):
        if not os.path.exists(DRIVER_BIN):
            raise CheckAbort(f"driver binary missing: {DRIVER_BIN}")
        self.p = subprocess.Popen([DRIVER_BIN], stdin=subprocess.PIPE, stdout=subprocess.PIPE,
                                  text=True, bufsize=1 << 20)
        self.lines = 0

    def ask(self, lines: list[str]) -> list[str]:
        if not lines:
            return []
        payload = "\n".join(lines) + "\nflush\n"
        if len(payload) < 30000 and len(lines) < 400:
            self.p.stdin.write(payload)
            self.p.stdin.flush()
            wt = None
        else:
            # large batch: write from a thread so that neither pipe can fill up and deadlock
            import threading

            def _w():
                self.p.stdin.write(payload)
                self.p.stdin.flush()
            wt = threading.Thread(target=_w, daemon=True)
            wt.start()
        out = []
        for _ in lines:
            ans = self.p.stdout.readline()
            if not ans:
                raise CheckAbort("driver died: " + repr(lines[len(out)] if len(out) < len(lines) else ""))
            out.append(ans.rstrip("\n"))
        if wt is not None:
            wt.join()
        self.lines += len(lines)
        return out

    def ask1(self, line: str) -> str:
        return self.ask([line])[0]

    def close(self):
        try:
            self.p.stdin.close()
            self.p.wait(timeout=5)
        except Exception:
            self.p.kill()


def tohex(bs) -> str:
    bs = bytes(bs)
    return bs.hex() if bs else "-"


def cps(s: str) -> str:
    return ",".join(format(ord(c), "x") for c in s) if s else "-"


def from_cps(t: str) -> str:
    return "" if t == "-" else "".join(chr(int(x, 16)) for x in t.split(","))


def exc_class(e: BaseException) -> str:
    for cls in ("SerializationError",):
        if type(e).__name__ == cls:
            return cls
    for cls in (ValueError, RuntimeError, TypeError, UnboundLocalError, NameError, ZeroDivisionError,
                AttributeError):
        if type(e) is cls:
            return cls.__name__
    if isinstance(e, UnboundLocalError):
        return "UnboundLocalError"
    for cls in (ValueError, RuntimeError, TypeError, NameError, ZeroDivisionError, AttributeError):
        if isinstance(e, cls):
            return cls.__name__
    return "Other"


# --------------------------------------------------------------------------------------------
# source fingerprints (escalation only, never an alarm)
# --------------------------------------------------------------------------------------------

def _strip_docstrings(tree: ast.AST) -> ast.AST:
    for node in ast.walk(tree):
        if isinstance(node, (ast.FunctionDef, ast.ClassDef, ast.AsyncFunctionDef, ast.Module)):
            body = node.body
            if body and isinstance(body[0], ast.Expr) and isinstance(getattr(body[0], "value", None), ast.Constant) \
                    and isinstance(body[0].value.value, str):
                node.body = body[1:] or [ast.Pass()]
    return tree


def fingerprint(rel_paths: list[str]) -> str:
    h = hashlib.sha256()
    for rel in sorted(rel_paths):
        path = os.path.join(REPO, rel)
        try:
            tree = _strip_docstrings(ast.parse(open(path, encoding="utf-8").read()))
            h.update(rel.encode())
            h.update(ast.dump(tree, include_attributes=False).encode())
        except Exception as e:  # unparsable file: still a fingerprint
            h.update(f"{rel}:ERR:{type(e).__name__}".encode())
    return h.hexdigest()


def pinned_fingerprint(prop: str) -> str | None:
    try:
        with open(os.path.join(VERIF, "pins", "source_fingerprints.json")) as f:
            return json.load(f).get(prop)
    except Exception:
        return None


# --------------------------------------------------------------------------------------------
# check context: evidence, replays, violations, known findings
# --------------------------------------------------------------------------------------------

class Ctx:
    def __init__(self, prop: str, tier: str, seed: int):
        self.prop = prop
        self.tier = tier
        self.seed = seed
        self.rng = random.Random((seed * 1000003) ^ zlib.crc32(prop.encode()))
        self.t0 = time.time()
        self.evaluations = 0
        self.signatures: set = set()
        self.samples: list = []
        self.hist: dict = {}
        self.notes: list[str] = []
        self.violations: list[dict] = []
        self.known_hits: list[str] = []
        self.exhaustive = False
        self.parts: list[dict] = []
        self.obligations = 0
        self.discharged = 0
        self.axioms: dict = {}
        self.proof_ok = True
        self.escalated = False
        self.extra: dict = {}
        self._replay_n = 0
        self.known = load_known_findings()
        self.deferred: list = []
        self.oracle_only = False
        self.driver: Driver | None = None

    # ---- statistics ----
    def count(self, key: str, n: int = 1):
        self.hist[key] = self.hist.get(key, 0) + n

    def sig(self, s):
        self.signatures.add(s)

    def sample(self, s, cap=8):
        if len(self.samples) < cap:
            self.samples.append(s)

    def part(self, name: str, evaluations: int, exhaustive: bool, note: str = ""):
        self.parts.append({"name": name, "evaluations": evaluations, "exhaustive": exhaustive, "note": note})
        self.evaluations += evaluations

    @property
    def thorough(self) -> bool:
        return self.tier == "thorough" or self.escalated

    # ---- violations ----
    def replay_path(self) -> str:
        os.makedirs(REPLAY_DIR, exist_ok=True)
        self._replay_n += 1
        return os.path.join(REPLAY_DIR, f"{self.prop}-{self.seed}-{self._replay_n}.json")

    def known_match(self, key: str) -> dict | None:
        for k in self.known.get("findings", []):
            if k.get("property") == self.prop and k.get("status") == "open" and k.get("key") == key:
                return k
        return None

    def violation(self, kind: str, what: str, replay: dict, *, key: str | None = None, found_input: bool = True):
        """Report a violation (or a KNOWN-FINDING when `key` matches an open entry)."""
        if key is not None:
            k = self.known_match(key)
            if k is not None:
                msg = f"KNOWN-FINDING: property={self.prop} {k.get('what', what)}"
                if msg not in self.known_hits:
                    self.known_hits.append(msg)
                    print(msg, flush=True)
                return
        if getattr(self, "replaying", False):
            # a replay re-evaluates the recorded input: nothing is written, the caller turns hits into the exit code
            self.replay_hits = getattr(self, "replay_hits", []) + [(kind, what)]
            print(f"  reproduced: {kind}: {what[:400]}", flush=True)
            return
        path = self.replay_path()
        doc = {"property": self.prop, "tier": self.tier, "seed": self.seed, "kind": kind, "what": what,
               "key": key, "replay_cmd": f"./check {self.prop} --replay {os.path.relpath(path, VERIF)}"}
        doc.update(replay)
        with open(path, "w") as f:
            json.dump(doc, f, indent=1, default=str)
        self.violations.append({"kind": kind, "what": what, "replay": path})
        tail = "" if found_input else " no-failing-input-found"
        print(f"VIOLATION property={self.prop} replay={path}{tail}", flush=True)
        print(f"  {kind}: {what}", flush=True)

    # ---- proofs ----
    def check_proofs(self):
        reg = load_registry()[self.prop]
        # only this property's modules (and the driver): a proof obligation of another property that no longer
        # checks must not take this one down with it
        ok, out = lake_build(tuple(reg["modules"]) + ("driver",))
        self.obligations = len(reg["theorems"])
        if not ok:
            self.proof_ok = False
            self.discharged = 0
            self.notes.append("lake build failed")
            self.build_log = out
            return False
        forb = scan_forbidden(reg["modules"])
        aud = audit_axioms(self.prop)
        self.axioms = aud["axioms"]
        bad = {n: a for n, a in aud["axioms"].items() if not set(a) <= ALLOWED_AXIOMS}
        self.discharged = sum(1 for n in reg["theorems"] if n in aud["axioms"] and n not in bad)
        if aud["missing"] or bad or forb:
            self.proof_ok = False
            self.build_log = json.dumps({"missing": aud["missing"], "bad_axioms": bad, "forbidden": forb,
                                         "raw": aud["raw"][-3000:]}, indent=1)
            return False
        return True

    def leanchecker(self):
        reg = load_registry()[self.prop]
        t0 = time.time()
        with lake_lock():
            p = subprocess.run(["lake", "env", "leanchecker", *reg["modules"]], cwd=LEAN_DIR,
                               capture_output=True, text=True)
        self.extra["leanchecker"] = {"rc": p.returncode, "wall_s": round(time.time() - t0, 1),
                                     "modules": reg["modules"], "tail": (p.stdout + p.stderr)[-400:]}
        if p.returncode != 0:
            self.proof_ok = False
            self.build_log = (p.stdout + p.stderr)[-3000:]
        return p.returncode == 0

    # ---- source tie: the part of the model that is regenerated from the sources by harness/py2lean.py ----
    def check_src_tie(self):
        """Translate the modelled core-library sources of this property to Lean (Generated/Src*.lean) and re-check the
        theorems stating that the translated source *is* the hand-written model.  A tie that cannot be established
        (unsupported construct, equivalence proof no longer checks) is never an alarm by itself: the behavioural
        correspondence remains the tie, and is run at escalated depth."""
        entry = load_registry()[self.prop].get("src_tie")
        if not entry:
            return None
        from . import py2lean
        t0 = time.time()
        info = {"modules": entry["modules"], "theorems": entry["theorems"], "established": False}
        try:
            with lake_lock():
                report = py2lean.translate_all(REPO)
            untranslated = {}
            for tag, fns in entry["functions"].items():
                rep = report.get(tag, {})
                if rep.get("error"):
                    untranslated[tag] = rep["error"]
                for fn in fns:
                    st = rep.get("functions", {}).get(fn)
                    if st != "ok":
                        untranslated[f"{tag}.{fn}"] = st or "missing"
            info["translated"] = {tag: sorted(fns) for tag, fns in entry["functions"].items()}
            info["untranslated"] = untranslated
            ok, out = lake_build(tuple(entry["modules"]))
            if not ok:
                info["build_log_tail"] = out[-1500:]
            else:
                aud = audit_axioms(self.prop, entry, tag="_src")
                bad = {n: a for n, a in aud["axioms"].items() if not set(a) <= ALLOWED_AXIOMS}
                forb = scan_forbidden(entry["modules"])
                info["axioms_used"] = sorted({a for v in aud["axioms"].values() for a in v})
                info["discharged"] = sum(1 for n in entry["theorems"] if n in aud["axioms"] and n not in bad)
                if aud["missing"] or bad or forb:
                    info["problems"] = {"missing": aud["missing"], "bad_axioms": bad, "forbidden": forb}
                elif not untranslated:
                    info["established"] = True
        except Exception as ex:  # noqa: BLE001 - a translator problem must not take the check down
            info["error"] = f"{type(ex).__name__}: {ex}"
        info["wall_s"] = round(time.time() - t0, 1)
        self.extra["source_tie"] = info
        self.src_tie_ok = info["established"]
        if not info["established"]:
            self.escalated = True
            try:
                from . import rwlib
                rwlib.SIZE_BOOST = True   # the code no longer reads as the proved model: probe sizes harder (rwlib.big_size)
            except Exception:  # noqa: BLE001
                pass
            self.notes.append("source tie (translated source = model) not established on this tree: the behavioural "
                              "correspondence is run at escalated depth; this alone is never an alarm")
        return info["established"]

    # ---- evidence ----
    def write_evidence(self, rule: str, assumptions: list[str] | None = None, level: str = "proof"):
        os.makedirs(EVIDENCE_DIR, exist_ok=True)
        reg = load_registry()[self.prop]
        cov = {
            "obligations": self.obligations,
            "discharged": self.discharged,
            "checker_cmd": "cd lean && lake build EoVerif driver && lake env lean .lake/audit/Audit_%s.lean  "
                           "(#print axioms of every registered theorem; thorough: lake env leanchecker %s)"
                           % (self.prop, " ".join(reg["modules"])),
            "trusted_base": TRUSTED_BASE + reg.get("trusted_extra", []),
            "theorems": reg["theorems"],
            "axioms_used": sorted({a for v in self.axioms.values() for a in v}),
            "evaluations": self.evaluations,
            "distinct_nontrivial": len(self.signatures),
            "rule": rule,
            "samples": self.samples[:8] if self.samples else ["(none)"],
            "exhaustive": self.exhaustive,
            "parts": self.parts,
            "input_distribution": dict(sorted(self.hist.items())),
            "escalated_by_fingerprint_change": self.escalated,
            "known_findings_hit": self.known_hits,
            "notes": self.notes,
        }
        cov.update(self.extra)
        doc = {
            "property_id": self.prop,
            "tier": self.tier,
            "seed": self.seed,
            "level": level,
            "coverage": cov,
            "assumptions": assumptions or reg.get("assumptions", []),
            "wall_s": round(time.time() - self.t0, 2),
            "violations": len(self.violations),
        }
        with open(os.path.join(EVIDENCE_DIR, f"{self.prop}.json"), "w") as f:
            json.dump(doc, f, indent=1, default=str)


def load_known_findings() -> dict:
    try:
        with open(os.path.join(VERIF, "known_findings.json")) as f:
            return json.load(f)
    except FileNotFoundError:
        return {"findings": []}


def crc_i64(values) -> int:
    import array
    a = array.array("q", values)
    if sys.byteorder != "little":
        a.byteswap()
    return zlib.crc32(a.tobytes())


def ncpu() -> int:
    return min(16, os.cpu_count() or 1)
