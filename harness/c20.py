"""C20 — the public namespace: the import-machine model (EoVerif/Model/Imports.lean, fed with the
statement graph extracted from the sources) vs fresh CPython interpreters, and the direct oracle."""
from __future__ import annotations

import json
import os
import subprocess
import sys

from . import common, gencheck, genlib, genprops, importgraph, specgen
from .common import Ctx

FILES = ["src/eolib/__init__.py", "src/eolib/protocol/__init__.py", "src/eolib/protocol/net/__init__.py",
         "src/eolib/protocol/net/client/__init__.py", "src/eolib/protocol/net/server/__init__.py", "src/eolib/protocol/map/__init__.py",
         "src/eolib/protocol/pub/__init__.py", "src/eolib/protocol/pub/server/__init__.py", "src/eolib/packet/__init__.py",
         "src/eolib/data/__init__.py", "src/eolib/encrypt/__init__.py", "src/eolib/protocol/net/packet.py",
         "protocol_code_generator/generate/code_generator.py"]
RULE = ("complete generated trees (all seven directories; catalogue and random specifications, plus trees whose type names collide with "
        "package / module names: Data, PACKET, Net, Server, Client, Protocol, Map, Pub, Encrypt, ...) x first imports (eolib, "
        "every documented package, leaf modules, generated modules); in a fresh interpreter per (tree, first import): every eolib module's "
        "namespace dumped as name -> origin and compared in full with the import-machine model run on the statement graph extracted from the "
        "same sources; oracle: every documented dotted path resolves by attribute access to sys.modules[path], every public name of every "
        "documented subpackage and every generated class is bound at the top level and in its home subpackage to one object. distinct = "
        "(tree kind, first import, collision name)")
ASSUMPTIONS = ["the import system (parents first, attribute binding after load, star-import copying public names, from-import attribute-"
               "then-submodule lookup) is modelled, not verified; statements outside the extractor's subset make a module opaque (reported)"]

DOC_PACKAGES = ["eolib", "eolib.data", "eolib.encrypt", "eolib.packet", "eolib.protocol", "eolib.protocol.net", "eolib.protocol.net.client",
                "eolib.protocol.net.server", "eolib.protocol.map", "eolib.protocol.pub", "eolib.protocol.pub.server"]
# type names whose *module* names (snake case) collide with documented sub-modules; class names equal to a static
# public class (Packet, EoReader, ...) are outside the property's domain (NamesOK) and are not generated
COLLIDERS = ["Data", "PACKET", "Net", "Server", "Client", "Protocol", "Map", "Pub", "Encrypt", "EoReaderX", "PacketSequencerX",
             "Generated", "DATA", "SerializationERROR", "EoWriterUtils"]


def pre_build(ctx: Ctx):
    """regenerate EoVerif/Generated/ImportGraph.lean from the working tree: `static_safe` (and everything that
    depends on `staticGraph`) is then re-checked by `lake build` against what the __init__ files say now"""
    changed, report = importgraph.regenerate(common.REPO, common.LEAN_DIR)
    ctx.extra["import_graph_regenerated"] = True
    ctx.extra["import_graph_changed_since_last_run"] = changed
    if report:
        ctx.notes.append(f"modules with statements outside the extractor's subset (opaque): {report}")


def documented_paths(graph):
    """documented modules: static packages and their public leaf modules (no underscore segment)"""
    out = []
    for mod in sorted(graph):
        if any(seg.startswith("_") for seg in mod.split(".")):
            continue
        out.append(mod)
    return out


def collision_tree(rng, k):
    """a small valid tree whose type names collide with names of the static package"""
    names = rng.sample(COLLIDERS, k)
    dirs = ["", "net", "net/client", "map", "pub", "pub/server", "net/server"]
    files = {}
    subdirs = {"": {"net", "map", "pub"}, "net": {"client", "server"}, "pub": {"server"}}
    for n in names:
        # NamesOK: a type whose module name equals a sub-directory of its own directory would be shadowed by that
        # package (net.py next to net/): outside the property's domain
        d = rng.choice([x for x in dirs if n.lower() not in subdirs.get(x, set())])
        kind = rng.choice(["struct", "enum"])
        if kind == "struct":
            e = genlib.Xml("struct", [("name", n)], None, None, [genlib.Xml("field", [("name", "a"), ("type", "char")])])
        else:
            e = genlib.Xml("enum", [("name", n), ("type", "char")], None, None, [genlib.Xml("value", [("name", "A")], "1")])
        files.setdefault(d, []).append(e)
    return [(d, genlib.Xml("protocol", [], None, None, es)) for d, es in files.items()], names


def dynamic_colliders():
    """type names whose module name equals a public helper name that a static package `__init__` of the working tree binds itself
    (`import sys`, `from x import y`, a plain assignment): a generated module of that name is star-copied over the helper"""
    out = []
    try:
        graph, _ = importgraph.extract_tree(os.path.join(common.REPO, "src"))
    except Exception:  # noqa: BLE001
        return out
    for mod, (is_pkg, stmts) in graph.items():
        if not is_pkg or "._generated" in mod:
            continue
        for st in stmts:
            names = []
            if st[0] == "import":
                names = [st[2] or st[1].split(".")[0]]
            elif st[0] == "from":
                names = [b for _, b in st[2]]
            elif st[0] in ("define", "rebind"):
                names = [st[1]]
            for n in names:
                if n and not n.startswith("_") and n.isidentifier() and n.lower() == n:
                    # a class name that differs from every static public class (NamesOK) but has this module name:
                    # the last word in capitals (`sys` -> `SYS`, `serialization_error` -> `SerializationERROR`)
                    words = n.split("_")
                    pas = "".join(w.capitalize() for w in words[:-1]) + words[-1].upper()
                    known = {c.lower() for c in COLLIDERS} | {c.lower() for c in out}
                    if specgen.pascal_to_snake(pas) == n and pas.lower() not in known:
                        out.append(pas)
    return out


def systematic_collisions(names=None):
    """every collider name in every directory it may live in (one type per tree)"""
    dirs = ["", "net", "net/client", "net/server", "map", "pub", "pub/server"]
    subdirs = {"": {"net", "map", "pub"}, "net": {"client", "server"}, "pub": {"server"}}
    for n in (COLLIDERS if names is None else names):
        for d in dirs:
            if n.lower() in subdirs.get(d, set()):
                continue
            e = genlib.Xml("struct", [("name", n)], None, None, [genlib.Xml("field", [("name", "a"), ("type", "char")])])
            yield f"collide-{n}-in-{d or 'root'}", [(d, genlib.Xml("protocol", [], None, None, [e]))], [n]


def run(ctx: Ctx, systematic=False, only_tree=None):
    rng = ctx.rng
    here = os.path.dirname(os.path.abspath(__file__))
    trees = []
    if only_tree is not None:
        return _run_trees(ctx, [only_tree], here, all_firsts=True)
    if systematic or ctx.tier == "thorough":
        trees += list(systematic_collisions())
    dyn = dynamic_colliders()
    ctx.extra["dynamic_colliders"] = dyn
    # helper names bound by the static __init__ files themselves: always tried in every directory (the list is short:
    # the documented children are in COLLIDERS already, private helpers are not copied by star-imports)
    trees += list(systematic_collisions(dyn[:6]))
    cat = specgen.catalogue_specs()
    for i in ([0, 3, 5] if not (ctx.tier == "thorough") else range(len(cat))):
        trees.append((f"catalogue-{i}-{cat[i][0][:48]}", cat[i][2], []))
    for i in range(6 if not (ctx.tier == "thorough") else 40):
        files, names = collision_tree(rng, rng.randrange(1, 4))
        trees.append((f"collide-{i}-{'-'.join(names)}", files, names))
    for i in range(2 if not (ctx.tier == "thorough") else 20):
        trees.append((f"random-{i}", specgen.random_spec(rng, size=3), []))
    return _run_trees(ctx, trees, here)


def _run_trees(ctx: Ctx, trees, here, all_firsts=False):
    rng = ctx.rng
    n_cmp = n_tree = 0
    opaque_report = {}
    for tag, files, colliders in trees:
        if gencheck.degenerate_reason(files):
            continue
        case = gencheck.Case(genprops.complete_tree(files), tag, {})
        case.run = genlib.GenRun(case.files)
        try:
            if case.run.error is not None:
                continue
            n_tree += 1
            graph, report = importgraph.extract_tree(case.run.src)
            opaque_report.update(report)
            tokens = importgraph.graph_tokens(graph)
            defines = [[mod, s[1]] for mod, (_, stmts) in graph.items() for s in stmts if s[0] == "define"]
            paths = documented_paths({m: v for m, v in graph.items() if "._generated" not in m and not m.endswith("__about__")})
            gen_mods = [m for m in graph if "._generated." in m and not graph[m][0]]
            firsts = ["-", "eolib.protocol.net.client", "eolib.data.eo_reader", "eolib.packet", "eolib.protocol"]
            if gen_mods:
                firsts.append(rng.choice(gen_mods))
            if not (ctx.tier == "thorough") and not all_firsts:
                firsts = ["-"] + rng.sample(firsts[1:], 2)
            types_ = genprops.declared_types(case.files)
            for first in firsts:
                p = subprocess.run([sys.executable, os.path.join(here, "nsworker.py"), case.run.src, first,
                                    json.dumps({"defines": defines, "paths": paths})], capture_output=True, text=True, timeout=120)
                if p.returncode != 0:
                    raise common.CheckAbort("nsworker failed: " + p.stderr[-400:])
                real = json.loads(p.stdout)
                model = ctx.driver.ask1(f"imp eval {'eolib' if first == '-' else first} {tokens}")
                n_cmp += 1
                ctx.sig((tag.split("-")[0], first if "._generated." not in first else "generated-module", tuple(colliders)))
                detail = {"first_import": first, "colliders": colliders}
                if real["error"]:
                    genprops.fails(ctx, case, f"import fails in a fresh interpreter (first import {first}): {real['error']}", detail,
                                   key="import-error")
                    if not ctx.known_match("import-error"):
                        return
                    continue
                # ---- oracle: the property itself on the real interpreter
                bad_paths = {k: v for k, v in real["paths"].items() if v != "m:" + k}
                if bad_paths:
                    k0 = sorted(bad_paths)[0]
                    genprops.fails(ctx, case, f"after importing {first if first != '-' else 'eolib'}: attribute path {k0} resolves to {bad_paths[k0]} "
                                   f"({len(bad_paths)} documented paths wrong: {sorted(bad_paths)[:6]})", dict(detail, wrong_paths=bad_paths),
                                   key="path:" + k0)
                    if not ctx.known_match("path:" + k0):
                        return
                top = real["ns"].get("eolib", {})
                for mod in paths:
                    if mod in DOC_PACKAGES or mod not in graph:
                        continue
                    home_pkg = mod.rsplit(".", 1)[0]
                    _, stmts = graph[mod]
                    allnames = next((s[1] for s in stmts if s[0] == "all"), None)
                    for s in stmts:
                        if s[0] != "define" or s[1].startswith("_") or (allnames is not None and s[1] not in allnames):
                            continue
                        want = f"d:{mod}:{s[1]}"
                        got_top, got_home = top.get(s[1]), real["ns"].get(home_pkg, {}).get(s[1])
                        if got_top != want or got_home != want:
                            genprops.fails(ctx, case, f"public name {s[1]} of {mod}: top-level package has {got_top}, {home_pkg} has {got_home}",
                                           dict(detail, name=s[1]), key="name:" + s[1])
                            if not ctx.known_match("name:" + s[1]):
                                return
                for n, d, _ in types_:
                    home = "eolib.protocol" + ("." + d.replace("/", ".") if d else "")
                    a, b = top.get(n), real["ns"].get(home, {}).get(n)
                    if a is None or a != b or not a.startswith("d:eolib.protocol._generated"):
                        # only the catalogue tree written to exhibit the recorded finding may match it
                        key = "export:partial-init" if ("KNOWN[C18:export:partial-init]" in case.tag and b is None) else "class:" + n
                        genprops.fails(ctx, case, f"generated class {n}: top-level package has {a}, {home} has {b}", dict(detail, name=n), key=key)
                        if not ctx.known_match(key):
                            return
                # ---- correspondence: the whole namespace, module by module
                mns = {}
                if not (model.startswith("ok") or model.startswith("err")):
                    raise common.CheckAbort("import machine: " + model[:200])
                for ent in model.split(" | ")[1:]:
                    mn, _, body = ent.partition(" ")
                    mns[mn] = dict(x.split("=", 1) for x in body.split(",") if x)
                if model.startswith("err"):
                    if genprops.disagree(ctx, case, f"first import {first}: model reports {model.split(' | ')[0]}, CPython imports fine", detail,
                                         "Imp.eval vs CPython import", "C20"):
                        return
                    continue
                diffs = []
                for mn in sorted(set(mns) | set(real["ns"])):
                    a, b = real["ns"].get(mn), mns.get(mn)
                    if a is None or b is None:
                        diffs.append(f"module {mn}: {'missing in CPython' if a is None else 'missing in model'}")
                        continue
                    for k in sorted(set(a) | set(b)):
                        if a.get(k) != b.get(k):
                            diffs.append(f"{mn}.{k}: CPython {a.get(k)}, model {b.get(k)}")
                if diffs:
                    if genprops.disagree(ctx, case, f"first import {first}: namespaces differ: {diffs[:5]} ({len(diffs)} differences)", detail,
                                         "Imp.eval vs CPython namespaces", "C20"):
                        return
        finally:
            gencheck.close_case(case)
    ctx.part("(tree, first import) pairs: full namespace comparison + oracle", n_cmp, False, f"{n_tree} trees")
    ctx.extra["opaque_modules"] = opaque_report
    ctx.sample({"documented_paths": DOC_PACKAGES})




def replay(ctx: Ctx, doc: dict) -> int:
    """the recorded tree through the same comparison and oracle, with every choice of first import"""
    import random
    files = gencheck.files_from_doc(doc)
    ctx.replaying = True
    ctx.replay_hits = []
    ctx.deferred = []
    ctx.rng = random.Random(int(doc.get("seed", 0) or 0))
    run(ctx, only_tree=(doc.get("tag", "replay"), files, []))
    for d in ctx.deferred:
        print(f"  reproduced: {d[0]}: {d[1][:400]}")
    if not (ctx.replay_hits or ctx.deferred):
        print("  not reproduced on this tree")
    return 1 if (ctx.replay_hits or ctx.deferred) else 0


def oracle_sweep(ctx):
    n0 = len(ctx.violations)
    ctx.oracle_only = True
    run(ctx, systematic=True)
    return any(v["kind"] == "property-fails" for v in ctx.violations[n0:])
