"""C18 — see harness/genprops.py (run_c18), genworker.py, importworker.py and DESIGN.md §3."""
from . import gencheck, genprops

FILES = gencheck.GEN_FILES + ["src/eolib/__init__.py", "src/eolib/protocol/__init__.py", "src/eolib/protocol/net/__init__.py", "protocol.py"]
RULE = genprops.RULES["C18"]
ASSUMPTIONS = ["byte-identical text, hash-seed behaviour, directory enumeration and importability are runtime facts observed on this interpreter / filesystem"]
run = genprops.run_c18
replay = genprops.replay_by_rerun(genprops.run_c18)


def oracle_sweep(ctx):
    n0 = len(ctx.violations)
    run(ctx)
    return any(v["kind"] == "property-fails" for v in ctx.violations[n0:])
