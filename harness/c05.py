"""C05 — EoReader: Reader.step (concrete, cached break) vs eolib.data.eo_reader, and the direct oracle:
an independent Python rendering of the documented chunked-reading model."""
from __future__ import annotations

import copy
import itertools

from . import common, rwlib
from .common import Ctx, tohex

FILES = ["src/eolib/data/eo_reader.py", "src/eolib/data/number_encoding_utils.py", "src/eolib/data/string_encoding_utils.py"]
RULE = ("bounded-exhaustive: every data string of length <= 3 (thorough: <= 4) over {00,01,fe,ff} x every operation "
        "sequence of length <= 3 (thorough: <= 4) over a 16-operation menu (typed reads, over-reads, mode switches, "
        "next_chunk, slices), explored as a tree with shared prefixes; then seeded random data up to 300 bytes with 0xFF "
        "density 0-30%, sequences up to 60 operations over a pool of readers (slices of slices up to depth 4, parents and "
        "slices interleaved). After every operation the returned value, position, remaining and mode are compared with the "
        "model and with the documented chunked-reading model. distinct = (operation, mode, remaining class, "
        "position relative to break, error class)")
ASSUMPTIONS = ["length arguments are non-negative (the property's quantifier); negative fixed-string lengths are included as the documented ValueError"]

MENU = [("byte",), ("bytes", 2), ("char",), ("short",), ("three",), ("int",), ("str",), ("fstr", 2, False),
        ("fstr", 3, True), ("estr",), ("festr", 2, True), ("chunked", True), ("chunked", False), ("next",),
        ("slice", 1, 2), ("slice", None, None)]


class Doc:
    """The documented chunked-reading model (no cache), written from the property statement."""

    def __init__(self, data: bytes):
        self.data, self.pos, self.chunked, self.start = bytes(data), 0, False, 0

    def brk(self):
        i = self.data.find(b"\xff", self.start)
        return len(self.data) if i < 0 else i

    def remaining(self):
        if self.chunked:
            b = self.brk()
            return b - min(self.pos, b)
        return len(self.data) - self.pos

    def read(self, n):
        k = min(n, self.remaining())
        out = self.data[self.pos:self.pos + k]
        self.pos += k
        return out

    def step(self, op, dec_num, dec_str):
        k = op[0]
        if k == "byte":
            b = self.read(1)
            return b[0] if b else 0
        if k == "bytes":
            return bytearray(self.read(op[1]))
        if k in ("char", "short", "three", "int"):
            return dec_num(self.read(rwlib.SIZES[k]))
        if k == "str":
            return self.read(self.remaining()).decode("windows-1252", "replace")
        if k == "estr":
            b = bytearray(self.read(self.remaining()))
            dec_str(b)
            return b.decode("windows-1252", "replace")
        if k in ("fstr", "festr"):
            if op[1] < 0:
                raise ValueError("negative")
            b = bytearray(self.read(op[1]))
            if k == "festr":
                dec_str(b)
            if op[2]:
                i = b.find(b"\xff")
                if i >= 0:
                    b = b[:i]
            return b.decode("windows-1252", "replace")
        if k == "chunked":
            self.chunked = op[1]
            return None
        if k == "next":
            if not self.chunked:
                raise RuntimeError("not chunked")
            b = self.brk()
            self.pos = b + 1 if b < len(self.data) else b
            self.start = self.pos
            return None
        raise ValueError(op)

    def slice(self, index, length):
        if index is None:
            index = self.pos
        if length is None:
            length = max(0, len(self.data) - index)
        if index < 0 or length < 0:
            raise ValueError("negative")
        begin = min(index, len(self.data))
        return Doc(self.data[begin:begin + length])

    def state(self):
        return f"pos {self.pos} rem {self.remaining()} chunked {1 if self.chunked else 0}"

    def clone(self):
        d = Doc(self.data)
        d.pos, d.chunked, d.start = self.pos, self.chunked, self.start
        return d


def doc_run(doc: Doc, op, dn, ds) -> str:
    try:
        v = doc.step(op, dn, ds)
        head = "ok " + rwlib.val_str(v)
    except Exception as ex:  # noqa: BLE001
        head = "err " + common.exc_class(ex)
    return head + " " + doc.state()


def judge(ctx, impl: str, doc: str, data: bytes, hist) -> str | None:
    """C05's statement for one step: equal to the documented model; position inside the data;
    remaining non-negative; only the two documented errors."""
    if not rwlib.same(impl, doc):
        return f"data {data.hex() or '-'} history {hist!r}: reader gives `{impl}`, documented model gives `{doc}`" + \
            (" (no `remaining` queries between the operations)" if " rem * " in impl else "")
    return None


def sig_of(op, before_doc: Doc, out: str):
    rem = before_doc.remaining()
    b = before_doc.brk()
    return (op[0], before_doc.chunked, min(rem, 3), (before_doc.pos > b) - (before_doc.pos < b), out.split()[0] + out.split()[1][:1])


class Side:
    """real reader + documented model + id of the model-driver reader, kept in lockstep"""
    __slots__ = ("real", "doc", "rid", "depth")

    def __init__(self, real, doc, rid, depth=0):
        self.real, self.doc, self.rid, self.depth = real, doc, rid, depth


def run(ctx: Ctx):
    _, R = rwlib.mods()
    dn = common.imp("eolib.data.number_encoding_utils").decode_number
    ds = common.imp("eolib.data.string_encoding_utils").decode_string
    d = ctx.driver
    fail = [None]
    lines, expect, meta = [], [], []
    steps = 0

    def flush():
        nonlocal lines, expect, meta
        if not lines:
            return True
        ans = d.ask(lines)
        for a, b, m in zip(expect, ans, meta):
            if a is not None and not rwlib.same(a, b):
                ctx.violation("model-impl-disagree", f"data {m[0].hex() or '-'} history {m[1]!r}: impl `{a}`, model `{b}`; the reader "
                              "agrees with the documented model on this history", {"input": {"data": m[0].hex(), "history": jsh(m[1])},
                              "impl": a, "model": b, "correspondence": "Reader.step vs EoReader",
                              "theorems_no_longer_tied": common.load_registry()["C05"]["theorems"]}, found_input=False)
                return False
        lines, expect, meta = [], [], []
        return True

    # ---- bounded-exhaustive tree ----
    maxdata = 4 if ctx.tier == "thorough" else 3
    depth = 4 if ctx.tier == "thorough" else 3
    next_id = [1]

    blind_tree = [False]   # every second tree is explored without asking the reader for `remaining` between the operations
    cur_root = [b""]   # the data of the reader the current history started from (replays need it, not the slice's data)

    def explore(real, doc, rid, data, hist, dleft):
        nonlocal steps
        if dleft == 0:
            return True
        for op in MENU:
            nid = next_id[0]
            next_id[0] += 1
            if op[0] == "slice":
                try:
                    r2 = real.slice(op[1], op[2])
                    a = f"ok len {len(bytes(r2._data))}"
                except Exception as ex:  # noqa: BLE001
                    r2, a = None, "err " + common.exc_class(ex)
                try:
                    d2 = doc.slice(op[1], op[2])
                    b = f"ok len {len(d2.data)}"
                except Exception as ex:  # noqa: BLE001
                    d2, b = None, "err " + common.exc_class(ex)
                steps += 1
                if a != b or (r2 is not None and (bytes(r2._data) != d2.data or r2.position != 0 or r2.chunked_reading_mode)):
                    fail[0] = (f"data {data.hex() or '-'} history {hist + [op]!r}: slice gives `{a}` over {bytes(r2._data).hex() if r2 else None}, "
                               f"documented model gives `{b}` over {d2.data.hex() if d2 else None} (root data {cur_root[0].hex() or '-'})", cur_root[0], hist + [op])
                    return False
                lines.append(f"r {rid} slice {'-' if op[1] is None else op[1]} {'-' if op[2] is None else op[2]} {nid}")
                expect.append(a)
                meta.append((cur_root[0], hist + [op]))
                ctx.sig(("slice", op[1] is None, doc.pos > len(doc.data) - 1, a[:3]))
                if r2 is not None and not explore(r2, d2, nid, d2.data, hist + [op], dleft - 1):
                    return False
                continue
            r2, d2 = copy.copy(real), doc.clone()
            lines.append(f"r {rid} copy {nid}")
            expect.append(None)
            meta.append(None)
            ctx.sig(sig_of(op, doc, "x y"))
            a = rwlib.rop_run(r2, op, observe=not blind_tree[0])
            b = doc_run(d2, op, dn, ds)
            steps += 1
            why = judge(ctx, a, b, data, hist + [op])
            if why is None and not 0 <= r2.position <= len(data):
                why = f"data {data.hex()} history {hist + [op]!r}: position {r2.position} outside the data"
            if why:
                fail[0] = (why + f" (history applied to a reader over {cur_root[0].hex() or '-'}; after a slice the operations go to the new reader)", cur_root[0], hist + [op])
                return False
            lines.append(rwlib.rop_line(nid, op))
            expect.append(a)
            meta.append((cur_root[0], hist + [op]))
            if not explore(r2, d2, nid, data, hist + [op], dleft - 1):
                return False
        return True

    n_data = 0
    for L in range(0, maxdata + 1):
        for t in itertools.product([0x00, 0x01, 0xFE, 0xFF], repeat=L):
            data = bytes(t)
            n_data += 1
            rid = next_id[0]
            next_id[0] += 1
            lines.append(f"r new {rid} {tohex(data)}")
            expect.append("ok")
            meta.append((data, []))
            cur_root[0] = data
            if not explore(R.EoReader(data), Doc(data), rid, data, [], depth):
                break
            # the same tree again, blind (the observer does not touch the reader's `remaining` bookkeeping)
            blind_tree[0] = True
            rid = next_id[0]
            next_id[0] += 1
            lines.append(f"r new {rid} {tohex(data)}")
            expect.append("ok")
            meta.append((data, []))
            okb = explore(R.EoReader(data), Doc(data), rid, data, [], depth)
            blind_tree[0] = False
            if not okb:
                break
            if len(lines) > 150_000:
                if not flush():
                    return
                lines.append("r clear")
                expect.append("ok")
                meta.append((b"", []))
        if fail[0]:
            break
    if fail[0]:
        ctx.violation("property-fails", fail[0][0], {"input": {"data": fail[0][1].hex(), "history": jsh(fail[0][2]),
                                                               "blind": "no `remaining` queries" in fail[0][0]}})
        return
    if not flush():
        return
    ctx.part("bounded-exhaustive operation trees", steps, True, f"{n_data} data strings of length <= {maxdata}, depth {depth}, 16-op menu")
    steps_exh = steps

    # ---- random phase over a pool of readers ----
    rng = ctx.rng
    nrand = 40_000 if ctx.tier == "thorough" else (8_000 if ctx.escalated else 2_500)
    for _ in range(nrand):
        dens = rng.choice([0.0, 0.02, 0.1, 0.3])
        L = rng.choice([rng.randrange(0, 12), rng.randrange(0, 60), rng.randrange(0, 301)])
        data = bytes(0xFF if rng.random() < dens else rng.choice([0, 1, 2, 0x7E, 0xFE, 0x80, rng.randrange(256)]) for _ in range(L))
        lines.append("r clear")
        expect.append("ok")
        meta.append((data, []))
        lines.append(f"r new 0 {tohex(data)}")
        expect.append("ok")
        meta.append((data, []))
        pool = [Side(R.EoReader(data), Doc(data), 0)]
        hist = []
        blind = rng.random() < 0.35
        ctx.count("observation." + ("blind" if blind else "full"))
        for _ in range(rng.randrange(1, 61)):
            s = rng.choice(pool)
            k = rng.randrange(20)
            if k == 0 and s.depth < 4 and len(pool) < 8:
                i = rng.choice([None, 0, 1, rng.randrange(0, len(s.doc.data) + 3), -1 if rng.random() < 0.1 else 2])
                l = rng.choice([None, 0, 1, rng.randrange(0, len(s.doc.data) + 3), -1 if rng.random() < 0.1 else 5])
                op = ("slice", i, l)
                hist.append((s.rid, op))
                nid = len(pool)
                try:
                    r2 = s.real.slice(i, l)
                    a = f"ok len {len(bytes(r2._data))}"
                except Exception as ex:  # noqa: BLE001
                    r2, a = None, "err " + common.exc_class(ex)
                try:
                    d2 = s.doc.slice(i, l)
                    b = f"ok len {len(d2.data)}"
                except Exception as ex:  # noqa: BLE001
                    d2, b = None, "err " + common.exc_class(ex)
                steps += 1
                if a != b or (r2 is not None and bytes(r2._data) != d2.data):
                    ctx.violation("property-fails", f"data {data.hex()} history {hist!r}: slice gives `{a}`, documented model `{b}`",
                                  {"input": {"data": data.hex(), "pool_history": jsh(hist)}})
                    return
                lines.append(f"r {s.rid} slice {'-' if i is None else i} {'-' if l is None else l} {nid}")
                expect.append(a)
                meta.append((data, list(hist)))
                ctx.sig(("slice", i is None, l is None, a[:3], s.depth))
                if r2 is not None:
                    pool.append(Side(r2, d2, nid, s.depth + 1))
                continue
            op = rng.choice([("byte",), ("bytes", rng.randrange(0, 6)), ("bytes", rng.randrange(0, 400)), ("char",), ("short",),
                             ("three",), ("int",), ("str",), ("estr",), ("fstr", rng.randrange(0, 8), rng.random() < 0.5),
                             ("festr", rng.randrange(0, 8), rng.random() < 0.5), ("chunked", True), ("chunked", False),
                             ("next",), ("next",), ("fstr", -1, False) if rng.random() < 0.2 else ("char",)])
            hist.append((s.rid, op))
            ctx.sig(sig_of(op, s.doc, "x y") + (s.depth > 0,))
            ctx.count("op." + op[0])
            a = rwlib.rop_run(s.real, op, observe=not blind)
            b = doc_run(s.doc, op, dn, ds)
            steps += 1
            why = judge(ctx, a, b, data, hist)
            if why is None and not 0 <= s.real.position <= len(s.doc.data):
                why = f"position {s.real.position} outside the data"
            if why:
                ctx.violation("property-fails", why, {"input": {"data": data.hex(), "pool_history": jsh(hist), "blind": blind}})
                return
            lines.append(rwlib.rop_line(s.rid, op))
            expect.append(a)
            meta.append((data, list(hist)))
        if len(lines) > 100_000 and not flush():
            return
    if not flush():
        return
    ctx.part("random data/histories over a pool of readers (slices interleaved)", steps - steps_exh, False, f"{nrand} runs")
    ctx.sample({"data": "0102ff0405", "history": ["chunked 1", "int", "next", "str"],
                "impl": [rwlib.rop_run(r0, o) for r0 in [R.EoReader(bytes.fromhex("0102ff0405"))]
                         for o in [("chunked", True), ("int",), ("next",), ("str",)]]})


def jsh(hist):
    return [list(h) if not (isinstance(h, tuple) and len(h) == 2 and isinstance(h[1], tuple)) else [h[0], list(h[1])] for h in hist]


def oracle_sweep(ctx: Ctx) -> bool:
    n0 = len(ctx.violations)
    run(ctx)
    return any(v["kind"] == "property-fails" for v in ctx.violations[n0:])


def replay(ctx: Ctx, doc: dict) -> int:
    _, R = rwlib.mods()
    dn = common.imp("eolib.data.number_encoding_utils").decode_number
    ds = common.imp("eolib.data.string_encoding_utils").decode_string
    data = bytes.fromhex(doc["input"]["data"])
    bad = 0
    if "history" in doc["input"]:
        hist = [(0, tuple(o)) for o in doc["input"]["history"]]
    else:
        hist = [(h[0], tuple(h[1])) for h in doc["input"]["pool_history"]]
    pool = {0: Side(R.EoReader(data), Doc(data), 0)}
    ctx.driver.ask(["r clear", f"r new 0 {tohex(data)}"])
    cur = 0
    for rid, op in hist:
        if "history" in doc["input"]:
            rid = cur
        s = pool[rid]
        if op[0] == "slice":
            nid = max(pool) + 1
            try:
                r2, d2 = s.real.slice(op[1], op[2]), s.doc.slice(op[1], op[2])
                pool[nid] = Side(r2, d2, nid)
                a = f"ok len {len(bytes(r2._data))}"
                cur = nid
            except Exception as ex:  # noqa: BLE001
                a = "err " + common.exc_class(ex)
            m = ctx.driver.ask1(f"r {rid} slice {'-' if op[1] is None else op[1]} {'-' if op[2] is None else op[2]} {nid}")
            print(f"{rid} {op}: impl={a} model={m}")
            bad |= a != m
            continue
        a, b = rwlib.rop_run(s.real, op, observe=not doc["input"].get("blind", False)), doc_run(s.doc, op, dn, ds)
        m = ctx.driver.ask1(rwlib.rop_line(rid, op))
        print(f"{rid} {op}: impl={a} documented={b} model={m}")
        bad |= (not rwlib.same(a, b)) or (not rwlib.same(a, m))
    return 1 if bad else 0
