"""Engine shared by the generator properties (C01, C02, C03, C15, C16, C17, C18, C19):
specification stream (catalogue first, then seeded random), real generator run + import of the
generated classes, the model driver loaded with the same forest, three-way comparison helpers."""
from __future__ import annotations

import re
import os
import traceback

from . import pyir, common, genlib, specgen
from .common import Ctx

GEN_FILES = [
    "protocol_code_generator/generate/code_generator.py", "protocol_code_generator/generate/field_code_generator.py",
    "protocol_code_generator/generate/object_code_generator.py", "protocol_code_generator/generate/switch_code_generator.py",
    "protocol_code_generator/generate/code_block.py", "protocol_code_generator/generate/python_file.py",
    "protocol_code_generator/type/type_factory.py", "protocol_code_generator/type/length.py",
    "protocol_code_generator/util/xml_utils.py", "protocol_code_generator/util/name_utils.py",
    "protocol_code_generator/util/number_utils.py",
    "src/eolib/data/eo_writer.py", "src/eolib/data/eo_reader.py", "src/eolib/protocol/protocol_enum_meta.py",
]


def sweep_stale_scratch(max_age_s=3 * 3600):
    """scratch directories of runs that were killed (time limit) are removed when they are old enough not to belong
    to a run in progress"""
    import shutil
    import time
    for name in os.listdir("/var/tmp"):
        if name.startswith(("genrun-", "c18-")):
            p = os.path.join("/var/tmp", name)
            try:
                if time.time() - os.path.getmtime(p) > max_age_s:
                    shutil.rmtree(p, ignore_errors=True)
            except OSError:
                pass


sweep_stale_scratch()


class Case:
    def __init__(self, files, tag, flags):
        self.files, self.tag, self.flags = files, tag, flags
        self.run: genlib.GenRun | None = None
        self.info: specgen.SpecInfo | None = None
        self.forest = None
        self.model = None

    def xml(self) -> dict:
        return {d or ".": root.to_string() for d, root in self.files}

    def replay_doc(self) -> dict:
        return {"spec": self.xml(), "tag": self.tag, "flags": self.flags}


def spec_stream(ctx: Ctx, n_random: int, *, catalogue=True, safe_ratio=0.5, avoid_known_bugs=True, size=None):
    """yield Case objects: hand-written catalogue first, then seeded random specifications"""
    rng = ctx.rng
    if catalogue:
        for i, (title, safe, files) in enumerate(specgen.catalogue_specs()):
            if safe_ratio >= 1.0 and not safe:
                continue
            yield Case(files, f"catalogue-{i}-{title}", {"roundtrip_safe": safe, "catalogue": True})
    for i in range(n_random):
        safe = rng.random() < safe_ratio
        sz = size or rng.choice([2, 3, 4, 4, 5, 6])
        # every third specification may use the constructs that used to trip generator defects
        # (optional arrays, optional length-prefixed fields, optionals around switch cases)
        akb = avoid_known_bugs and (i % 3 != 2)
        files = specgen.random_spec(rng, size=sz, roundtrip_safe=safe, avoid_known_bugs=akb)
        why = degenerate_reason(files)
        if why:
            ctx.count("spec.skipped_degenerate")
            continue
        yield Case(files, f"random-{i}", {"roundtrip_safe": safe, "size": sz, "avoid_known_bugs": akb})


def degenerate_reason(files) -> str | None:
    """Specifications outside every property's quantifier (DESIGN: NonDegenerate) that the spec generator
    may still produce; they are skipped, not judged."""
    def bodies(e):
        # class bodies: struct / packet / case elements; chunked sections belong to their class body
        out = []
        def collect(x, acc):
            for c in x.children:
                if c.tag == "chunked":
                    collect(c, acc)
                elif c.tag == "switch":
                    acc.append(c)
                    for cc in c.children:
                        if cc.tag == "case" and any(k.tag != "comment" for k in cc.children):
                            out.extend(bodies(cc))
                else:
                    acc.append(c)
        acc = []
        collect(e, acc)
        out.append(acc)
        return out
    for _, root in files:
        for t in root.children:
            if t.tag not in ("struct", "packet"):
                continue
            for body in bodies(t):
                if not [c for c in body if c.tag != "comment"]:
                    # struct / packet / case made of nothing but (nested) empty <chunked/> sections, or of nothing:
                    # the generated `try:` has no statement (real specifications use <dummy>)
                    return "a class body that emits no statement"
                lens = [c.get("name") for c in body if c.tag == "length"]
                refs = [c.get("length") for c in body if c.tag in ("field", "array")]
                for n in lens:
                    if refs.count(n) != 1:
                        return f"length field {n} is not referenced exactly once"
                sw = [c.get("field") for c in body if c.tag == "switch"]
                if len(sw) != len(set(sw)):
                    return "two switches on one field"
    return None


def open_case(ctx: Ctx, case: Case, prop: str, load=True):
    """run the real generator and load the model; returns False (after reporting) when the tie on
    acceptance breaks. Caller must call close_case."""
    case.run = genlib.GenRun(case.files)
    case.forest = case.run.forest if hasattr(case.run, "forest") else genlib.forest_line(case.files)
    case.model = ctx.driver.ask1("gen load " + case.forest)
    real_ok = case.run.error is None
    model_ok = case.model.startswith("ok")
    for k, v in specgen.describe(case.files).items():
        ctx.count("spec." + k, v)
    if real_ok != model_ok:
        what = (f"specification {case.tag}: real generator {'accepts' if real_ok else 'rejects (' + repr(case.run.error) + ')'}, "
                f"model {'accepts' if model_ok else 'rejects (' + case.model + ')'}")
        # a valid specification must be accepted (C18 says so); for the property at hand it is a broken tie
        if getattr(ctx, "oracle_only", False):
            ctx.count("acceptance_disagreements_seen_in_oracle_pass")
            return None if not real_ok else _load(ctx, case, prop)
        ctx.deferred.append(("model-impl-disagree", what, dict(case.replay_doc(), correspondence="compile vs ProtocolCodeGenerator (acceptance)"),
                             f"accept:{case.tag}"))
        return False
    if not real_ok:
        return None
    if prop in ("C02", "C16", "C03", "C01"):
        # how much of what is explored lies inside the domains of the conformance theorems `ser_conforms` / `de_conforms`
        wf = ctx.driver.ask1("gen wf").split()
        d = dict(zip(wf[1::2], wf[2::2]))
        ctx.count("ser_conforms_fragment." + ("inside" if d.get("fragment") == "1" else "outside"))
        ctx.count("de_conforms_fragment." + ("inside" if d.get("fragmentde") == "1" else "outside"))
    return _load(ctx, case, prop) if load else True


def _load(ctx: Ctx, case: Case, prop: str):
    if True:
        try:
            case.run.load()
        except Exception as ex:  # noqa: BLE001
            ctx.violation("property-fails" if prop == "C18" else "model-impl-disagree",
                          f"specification {case.tag}: generated package cannot be imported: {type(ex).__name__}: {ex}",
                          dict(case.replay_doc(), traceback=traceback.format_exc()[-1500:]), found_input=(prop == "C18"))
            return False
        case.info = specgen.SpecInfo(case.files, case.run)
        ir_tie(ctx, case)
    return True


_INT_RE = re.compile(r"-?\d+")


def ir_tie(ctx: Ctx, case: Case):
    """The structural tie (harness/pyir.py): the statement groups of every emitted serialize / deserialize / __init__ against
    the instruction lists of the model's `compile`.  Never an alarm by itself: a specification on which they differ gets a
    five-fold value / byte budget (`ctx.case_boost`) and the integers occurring in the differing instructions as hints for
    the value generator (a changed limit, size or count is then probed on both sides)."""
    ctx.case_boost = 1
    case.ir_differs = []
    classes = case.model.split()[2:]
    if not classes:
        return
    answers = ctx.driver.ask(["gen ir " + cn for cn in classes])
    if not answers[0].startswith("ok"):
        ctx.count("ir_tie.driver_without_ir")
        return
    texts = [t.decode("utf-8") if isinstance(t, bytes) else t for t in case.run.file_tree.values()]

    def text_of(cn):
        head = cn.split(".")[0]
        for t in texts:
            if f"\nclass {head}:" in t or f"\nclass {head}(" in t:
                return t
        return None

    def enum_value(en, mem):
        return int(getattr(case.run.get_class(en), mem))

    hints = set()
    for cn, model in zip(classes, answers):
        try:
            t = text_of(cn)
            real = "ok " + pyir.class_ir(t, cn, enum_value) if t is not None else "unrecognised: no module defines " + cn
        except pyir.Unrecognised as e:
            real = "unrecognised: " + str(e)
        except Exception as e:  # noqa: BLE001 - the emitted text is under test, the recogniser must not take the check down
            real = f"unrecognised: {type(e).__name__}: {e}"
        if real == model:
            ctx.count("ir_tie.classes_equal")
            continue
        ctx.count("ir_tie.classes_unrecognised" if real.startswith("unrecognised") else "ir_tie.classes_differing")
        case.ir_differs.append(cn)
        a, b = model.split(" ;; "), real.split(" ;; ")
        parts = [(x, y) for x, y in zip(a, b) if x != y] if len(a) == len(b) else [(model, real)]
        for x, y in parts:
            xs, ys = x.split(), y.split()
            for tok in set(xs) ^ set(ys):
                for m in _INT_RE.findall(tok):
                    if abs(int(m)) <= 5_000_000_000:
                        hints.add(abs(int(m)))
        samples = ctx.extra.setdefault("ir_tie_differences", [])
        if len(samples) < 4:
            x, y = parts[0]
            samples.append({"spec": case.tag, "class": cn, "model": x[:600], "emitted": y[:600]})
    # enum modules (members in emitted order) and the family() / action() of packets, against `gen enums` / `gen meta`
    try:
        en = ctx.driver.ask1("gen enums")
        for ent in (en[3:].split(" | ") if en.startswith("ok ") and len(en) > 3 else []):
            name, _under, members = (ent.split(" ") + ["", ""])[:3]
            t = text_of(name)
            try:
                real = pyir.enum_ir(t, name) if t is not None else "unrecognised"
            except pyir.Unrecognised as e:
                real = "unrecognised: " + str(e)
            same = real == members
            ctx.count("ir_tie.enums_equal" if same else "ir_tie.enums_differing")
            if not same:
                case.ir_differs.append(name)
        for cn in classes:
            if not cn.endswith("Packet") or "." in cn:
                continue
            meta = ctx.driver.ask1("gen meta " + cn).split(" packet ")[-1]
            if meta == "-" or meta.count(":") != 3:
                continue
            fam, fo, act, ao = meta.split(":")
            try:
                f, a = pyir.packet_ir(text_of(cn), cn).split()
                same = (f.rsplit(".", 1)[0], a.rsplit(".", 1)[0]) == ("PacketFamily", "PacketAction") and \
                    enum_value("PacketFamily", f.rsplit(".", 1)[1]) == int(fo) and enum_value("PacketAction", a.rsplit(".", 1)[1]) == int(ao)
            except Exception:  # noqa: BLE001
                same = False
            ctx.count("ir_tie.packet_ids_equal" if same else "ir_tie.packet_ids_differing")
            if not same:
                case.ir_differs.append(cn)
    except common.CheckAbort:
        raise
    except Exception as e:  # noqa: BLE001
        ctx.count("ir_tie.enum_or_packet_comparison_failed")
    ctx.count("ir_tie.specs_equal" if not case.ir_differs else "ir_tie.specs_differing")
    if case.ir_differs:
        ctx.case_boost = 5
        case.info.hints = sorted(hints)


def close_case(case: Case):
    if case.run is not None:
        case.run.cleanup()
        case.run = None


def kwargs_line(kw: dict) -> str:
    return f"{len(kw)} " + " ".join(f"{k} {genlib.render(v)}" for k, v in kw.items()) if kw else "0"


def classify(ans: str) -> str:
    """ok | refused (SerializationError or the writer's ValueError) | other:<E>"""
    if ans.startswith("ok"):
        return "ok"
    e = ans.split()[1]
    return "refused" if e in ("SerializationError", "ValueError") else "other:" + e


def files_from_doc(doc: dict):
    return [("" if d == "." else d, genlib.Xml.parse(x)) for d, x in doc["spec"].items()]
