#!/usr/bin/env python3
"""harness/py2lean.py — translator from a small subset of Python to Lean 4 (the regenerated part of the model).

Every run translates the *current working tree* of the hand-written core library (number codec, verification hash,
sequence starts, sequencer, string codec, encryption primitives) into `lean/EoVerif/Generated/Src<Tag>.lean`: one Lean
definition per Python function, statement by statement, over the combinators of `EoVerif/Model/PyOps.lean`.
`lean/EoVerif/Props/Src<Tag>.lean` (hand-written, stable) then proves that each translated function *is* the
hand-written model the property theorems are about.  So for these modules the tie between model and code is a theorem
about the translation of the source, re-checked on every run, on top of the behavioural correspondence.

The subset (anything else raises `Unsupported`, the function is skipped, its tie is "not established" and the check falls
back to the behavioural correspondence at escalated depth — never an alarm by itself):
  statements   assignment to a name / `self._x` / `xs[i]` / `xs[:]`, augmented assignment, if/elif/else, `for v in range(e)`
               with `break`, `while <pure test>`, return, `raise E(...)`, `xs.reverse()`, `super().__init__(...)`, pass, docstrings
  expressions  int and bool constants, names, module constants, + - * // % & ^, unary -, not, and/or, comparisons (chained),
               conditional expressions, `len`, `min`, `max`, `int(a / b)`, `bytes([...])`, `bytearray(n)`, `xs[i]`,
               `random.randrange(a, b)` (the drawn value becomes a parameter), calls of translated functions, constructors
               of translated classes (an instance is the tuple of its fields), `obj.value` of a sequence-start object
  types        int, bool, bytes/bytearray (List Int), instances as field tuples
"""
from __future__ import annotations

import ast
import json
import os
import sys

HERE = os.path.dirname(os.path.abspath(__file__))
LEAN_DIR = os.path.join(os.path.dirname(HERE), "lean")
GEN_DIR = os.path.join(LEAN_DIR, "EoVerif", "Generated")


class Unsupported(Exception):
    pass


# ---------------------------------------------------------------------------------------------------------------------
# configuration: which sources, which functions, the few facts the translator cannot read off the source
# ---------------------------------------------------------------------------------------------------------------------
CONFIG = [
    {"tag": "Limits", "file": "src/eolib/data/eo_numeric_limits.py", "functions": [], "classes": {}},
    {"tag": "Num", "file": "src/eolib/data/number_encoding_utils.py", "functions": ["encode_number", "decode_number"], "classes": {}},
    {"tag": "Hash", "file": "src/eolib/encrypt/server_verification_utils.py", "functions": ["_mod", "server_verification_hash"],
     "classes": {}, "untyped_params": "int"},
    {"tag": "SeqStart", "file": "src/eolib/packet/sequence_start.py", "functions": [],
     "classes": {"SimpleSequenceStart": ["__init__", "value"],
                 "AccountReplySequenceStart": ["__init__", "from_value", "generate"],
                 "InitSequenceStart": ["__init__", "seq1", "seq2", "from_init_values", "generate"],
                 "PingSequenceStart": ["__init__", "seq1", "seq2", "from_ping_values", "generate"]}},
    {"tag": "Sequencer", "file": "src/eolib/packet/packet_sequencer.py", "functions": [],
     "classes": {"PacketSequencer": ["__init__", "next_sequence", "set_sequence_start"]},
     # a SequenceStart object is observed through `.value` only: it is represented by that integer
     "param_types": {"start": "valueobj"}},
    {"tag": "Str", "file": "src/eolib/data/string_encoding_utils.py",
     "functions": ["_invert_characters", "encode_string", "decode_string"], "classes": {}},
    {"tag": "Writer", "file": "src/eolib/data/eo_writer.py", "functions": [],
     "classes": {"EoWriter": ["__init__", "add_byte", "add_bytes", "add_char", "add_short", "add_three", "add_int", "add_string",
                              "add_fixed_string", "add_encoded_string", "add_fixed_encoded_string", "string_sanitization_mode",
                              "string_sanitization_mode_setter", "to_bytearray", "__len__", "_add_bytes_with_length",
                              "_sanitize_string", "_check_number_size", "_add_padding", "_check_string_length", "_encode_ansi"]},
     # `self.string_sanitization_mode` is a property whose getter returns this field (the getter is translated as well)
     "properties": {"string_sanitization_mode": "_string_sanitization_mode"}},
    {"tag": "Reader", "file": "src/eolib/data/eo_reader.py", "functions": [], "untyped_params": "int",
     "classes": {"EoReader": ["__init__", "slice", "get_byte", "get_bytes", "get_char", "get_short", "get_three", "get_int", "get_string",
                              "get_fixed_string", "get_encoded_string", "get_fixed_encoded_string", "chunked_reading_mode",
                              "chunked_reading_mode_setter", "remaining", "next_chunk", "position", "_read_byte", "_read_bytes",
                              "_find_next_break_index", "_remove_padding", "_decode_ansi"]},
     "properties": {"position": "_position", "chunked_reading_mode": "_chunked_reading_mode"}},
    {"tag": "Names", "file": "protocol_code_generator/util/name_utils.py", "untyped_params": "str",
     "functions": ["pascal_case_to_snake_case", "snake_case_to_pascal_case"], "classes": {}},
    {"tag": "Enc", "file": "src/eolib/encrypt/encryption_utils.py",
     "functions": ["interleave", "deinterleave", "flip_msb", "swap_multiples"], "classes": {},
     # fuel handed to `while` loops (a Lean term over the parameters); running out is reported as Diverges
     "fuel": "(data.length + 2)"},
]

LEAN_TY = {"int": "Int", "bool": "Bool", "bytes": "(List Int)", "str": "(List Nat)", "char": "Nat", "none": "Unit", "valueobj": "Int", "unit": "Unit"}
EXC = {"ValueError": ".ValueError", "RuntimeError": ".RuntimeError", "TypeError": ".TypeError",
       "ZeroDivisionError": ".ZeroDivisionError"}


def lean_ty(t):
    if isinstance(t, tuple) and t[0] == "opt":
        return f"(Option {lean_ty(t[1])})"
    if isinstance(t, tuple) and t[0] == "obj":
        return lean_ty(t[2])
    if isinstance(t, tuple):      # ("tuple", [t1, t2, ...])
        parts = [lean_ty(x) for x in t[1]]
        if not parts:
            return "Unit"
        if len(parts) == 1:
            return parts[0]
        return "(" + " × ".join(parts) + ")"
    return LEAN_TY[t]


def tup(names):
    if not names:
        return "()"
    if len(names) == 1:
        return names[0]
    return "(" + ", ".join(names) + ")"


def ind(code, n=2):
    pad = " " * n
    return "\n".join(pad + l if l else l for l in code.split("\n"))


def ann_type(a):
    if a is None:
        return None
    if isinstance(a, ast.Name):
        return {"int": "int", "bool": "bool", "bytes": "bytes", "bytearray": "bytes", "str": "str"}.get(a.id)
    if isinstance(a, ast.Subscript) and isinstance(a.value, ast.Name) and a.value.id == "Optional":
        inner = ann_type(a.slice)
        return ("opt", inner) if inner in ("int",) else None
    return None


class Module:
    """one translated source file"""

    def __init__(self, cfg, repo, world):
        self.cfg, self.world = cfg, world
        self.tag = cfg["tag"]
        self.path = os.path.join(repo, cfg["file"])
        self.tree = ast.parse(open(self.path).read())
        self.consts: dict[str, int] = {}
        self.const_defs: list[str] = []
        self.imported: dict[str, tuple[str, str]] = {}     # local name -> (tag, name)
        self.imported_funcs: dict[str, tuple[str, str]] = {}   # local name -> (tag, function) of another translated module
        self.funcs: dict[str, dict] = {}                      # lean name -> signature info
        self.out: list[str] = []
        self.report: dict[str, str] = {}
        self.classes: dict[str, dict] = {}

    # -- module level -------------------------------------------------------------------------------------------------
    def scan(self):
        for st in self.tree.body:
            if isinstance(st, ast.ImportFrom):
                base = (st.module or "").split(".")[-1]
                for m in self.world.values():
                    if os.path.basename(m.path)[:-3] == base:
                        for al in st.names:
                            if al.name in m.consts:
                                self.imported[al.asname or al.name] = (m.tag, al.name)
                            if al.name in m.cfg["functions"]:
                                self.imported_funcs[al.asname or al.name] = (m.tag, al.name)
            elif isinstance(st, ast.Assign) and len(st.targets) == 1 and isinstance(st.targets[0], ast.Name):
                name = st.targets[0].id
                try:
                    v = self.static_int(st.value)
                except Unsupported:
                    continue
                self.consts[name] = v
                txt, _, _ = FnTr(self, None, {}, {}).expr(st.value)
                self.const_defs.append(f"def {name} : Int := {txt}")

    def static_int(self, e):
        if isinstance(e, ast.Constant) and isinstance(e.value, int) and not isinstance(e.value, bool):
            return e.value
        if isinstance(e, ast.Name):
            if e.id in self.consts:
                return self.consts[e.id]
            if e.id in self.imported:
                tag, n = self.imported[e.id]
                return self.world[tag].consts[n]
        if isinstance(e, ast.BinOp) and isinstance(e.op, (ast.Add, ast.Sub, ast.Mult)):
            a, b = self.static_int(e.left), self.static_int(e.right)
            return a + b if isinstance(e.op, ast.Add) else a - b if isinstance(e.op, ast.Sub) else a * b
        if isinstance(e, ast.UnaryOp) and isinstance(e.op, ast.USub):
            return -self.static_int(e.operand)
        raise Unsupported("not a static integer")

    def const_ref(self, name):
        if name in self.consts:
            return name
        if name in self.imported:
            tag, n = self.imported[name]
            if n in self.world[tag].consts:
                return f"Src.{tag}.{n}"
        return None

    # -- classes -------------------------------------------------------------------------------------------------------
    def class_info(self):
        for st in self.tree.body:
            if isinstance(st, ast.ClassDef) and st.name in self.cfg["classes"]:
                bases = [b.id for b in st.bases if isinstance(b, ast.Name)]
                base = next((b for b in bases if b in self.classes), None)
                fields = list(self.classes[base]["fields"]) if base else []
                init = next((x for x in st.body if isinstance(x, ast.FunctionDef) and x.name == "__init__"), None)
                if init is not None:
                    for n in ast.walk(init):
                        if isinstance(n, (ast.Assign, ast.AugAssign)):
                            tgts = n.targets if isinstance(n, ast.Assign) else [n.target]
                            for t in tgts:
                                if isinstance(t, ast.Attribute) and isinstance(t.value, ast.Name) and t.value.id == "self":
                                    if t.attr not in fields:
                                        fields.append(t.attr)
                self.classes[st.name] = {"node": st, "base": base, "fields": fields, "field_types": {}}

    # -- driver ---------------------------------------------------------------------------------------------------------
    def translate(self):
        self.scan()
        self.class_info()
        items = []
        for st in self.tree.body:
            if isinstance(st, ast.FunctionDef) and st.name in self.cfg["functions"]:
                items.append((st.name, None, st))
            if isinstance(st, ast.ClassDef) and st.name in self.cfg["classes"]:
                for x in st.body:
                    if isinstance(x, ast.FunctionDef) and method_name(x) in self.cfg["classes"][st.name]:
                        items.append((f"{st.name}.{method_name(x)}", st.name, x))
        wanted = set(self.cfg["functions"]) | {f"{c}.{m}" for c, ms in self.cfg["classes"].items() for m in ms}
        for w in wanted - {n for n, _, _ in items}:
            self.report[w] = "missing: no such function in the source"
        # definitions before use: iterate until no progress
        pending, progress = items, True
        while pending and progress:
            progress, nxt = False, []
            for name, cls, node in pending:
                try:
                    code = self.function(name, cls, node)
                    self.out.append(code)
                    self.report[name] = "ok"
                    progress = True
                except NeedsLater:
                    nxt.append((name, cls, node))
                except Unsupported as ex:
                    self.report[name] = f"unsupported: {ex}"
                    self.out.append(f"-- {name}: not translated ({ex})")
                    progress = True
            pending = nxt
        for name, _, _ in pending:
            self.report[name] = "unsupported: depends on a function that could not be translated"
            self.out.append(f"-- {name}: not translated (depends on an untranslated function)")

    def function(self, name, cls, node):
        node = rename_keywords(node)
        if node.args.vararg or node.args.kwarg or node.args.kwonlyargs:
            raise Unsupported("parameter kinds")
        deco = [d.id for d in node.decorator_list if isinstance(d, ast.Name)]
        is_method = cls is not None and "staticmethod" not in deco
        params = [a for a in node.args.args]
        env: dict[str, object] = {}
        lean_params = []
        fields = self.classes[cls]["fields"] if cls else []
        is_init = is_method and node.name == "__init__"
        pnames = [a.arg for a in (params[1:] if is_method else params)]
        if is_method:
            if not params or params[0].arg != "self":
                raise Unsupported("method without self")
            params = params[1:]
            if not is_init:
                for f in fields:
                    ft = self.classes[cls]["field_types"].get(f)
                    if ft is None:
                        raise NeedsLater()
                    env["self_" + f] = ft
                    lean_params.append(("self_" + f, ft))
        for a in params:
            t = self.cfg.get("param_types", {}).get(a.arg) or ann_type(a.annotation) or self.cfg.get("untyped_params")
            if t is None:
                raise Unsupported(f"parameter {a.arg} has no usable type")
            env[a.arg] = t
            lean_params.append((a.arg, t))
        tr = FnTr(self, cls, env, {"is_method": is_method, "is_init": is_init, "fields": fields, "name": name})
        # variables whose final value is part of the result
        assigned = mutated_vars(node.body, self, cls)
        if is_init:
            outs = ["self_" + f for f in fields]
        elif is_method:
            outs = ["self_" + f for f in fields if "self_" + f in assigned] + \
                   [a.arg for a in params if env[a.arg] == "bytes" and a.arg in assigned]
        else:
            outs = [a.arg for a in params if env[a.arg] == "bytes" and a.arg in assigned]
        tr.outs = outs
        body = tr.stmts(node.body, 0, dict(env), None)
        if tr.ret_type is None:
            tr.ret_type = "none"
        out_types = [tr.out_types.get(o) or env.get(o) for o in outs]
        if any(t is None for t in out_types):
            raise Unsupported("a result variable is not assigned on every path")
        if tr.ret_type == "none":
            rty = ("tuple", out_types)
        elif outs:
            rty = ("tuple", [("tuple", out_types), tr.ret_type])
        else:
            rty = tr.ret_type
        if is_init:
            for f, t in zip(fields, out_types):
                self.classes[cls]["field_types"][f] = t
        rparams = [(r, "int") for r in tr.rparams]
        sig = " ".join(f"({n} : {lean_ty(t)})" for n, t in lean_params + rparams)
        self.funcs[name] = {"params": [t for _, t in lean_params], "ret": rty, "nrandom": len(rparams), "outs": outs,
                            "is_method": is_method, "is_init": is_init, "pnames": pnames, "ret_type": tr.ret_type,
                            "nfields": len(fields) if (is_method and not is_init) else 0, "cls": cls}
        lname = name
        return "\n\n".join(tr.aux + [f"def {lname} {sig} : Py.M {lean_ty(rty)} :=\n{ind(body)}"])


class NeedsLater(Exception):
    pass


LEAN_KEYWORDS = {"end", "at", "from", "have", "show", "fun", "let", "in", "then", "else", "do", "match", "with", "where", "namespace",
                 "section", "open", "def", "theorem", "instance", "structure", "class", "by", "if", "for", "mut", "deriving", "import",
                 "macro", "syntax", "notation", "universe", "variable", "private", "protected", "example", "axiom", "inductive",
                 "abbrev", "calc", "this", "Type", "Prop", "Sort", "using", "exact", "unless", "return", "try", "catch", "finally"}


def rename_keywords(node):
    """Python identifiers that are Lean keywords get a trailing underscore (`end` -> `end_`)"""
    import copy
    node = copy.deepcopy(node)
    for n in ast.walk(node):
        if isinstance(n, ast.Name) and n.id in LEAN_KEYWORDS:
            n.id += "_"
        if isinstance(n, ast.arg) and n.arg in LEAN_KEYWORDS:
            n.arg += "_"
    return node


def assigned_vars(stmts):
    out = set()
    for st in stmts:
        for n in ast.walk(st):
            tgts = []
            if isinstance(n, ast.Assign):
                tgts = n.targets
            elif isinstance(n, ast.AugAssign):
                tgts = [n.target]
            elif isinstance(n, ast.Call) and isinstance(n.func, ast.Attribute) and n.func.attr == "reverse" and isinstance(n.func.value, ast.Name):
                out.add(n.func.value.id)
            for t in tgts:
                if isinstance(t, ast.Name):
                    out.add(t.id)
                elif isinstance(t, ast.Subscript) and isinstance(t.value, ast.Name):
                    out.add(t.value.id)
                elif isinstance(t, ast.Attribute) and isinstance(t.value, ast.Name) and t.value.id == "self":
                    out.add("self_" + t.attr)
    return out


def method_name(x: ast.FunctionDef) -> str:
    """`name` for ordinary methods and property getters, `name_setter` for `@name.setter`"""
    for d in x.decorator_list:
        if isinstance(d, ast.Attribute) and d.attr == "setter":
            return x.name + "_setter"
    return x.name


def _var_of(e):
    if isinstance(e, ast.Name):
        return e.id
    if isinstance(e, ast.Attribute) and isinstance(e.value, ast.Name) and e.value.id == "self":
        return "self_" + e.attr
    return None


def mutated_vars(stmts, mod, cls):
    """variables assigned or mutated in place (directly, through bytearray methods, or through a translated callee)"""
    out = assigned_vars(stmts)
    for st in stmts:
        for n in ast.walk(st):
            if not isinstance(n, ast.Call):
                continue
            f = n.func
            if isinstance(f, ast.Attribute) and f.attr in ("append", "extend", "reverse") and _var_of(f.value):
                out.add(_var_of(f.value))
                continue
            r = resolve_callee(mod, cls, n)
            if r is None:
                continue
            lname, sig = r
            if sig is None:
                raise NeedsLater()
            if sig.get("is_init"):
                continue          # a constructor call builds a new object, it does not touch this one
            for o in sig["outs"]:
                if o.startswith("self_") and o not in sig["pnames"]:
                    out.add(o)
                elif o in sig["pnames"]:
                    i = sig["pnames"].index(o)
                    if i < len(n.args) and _var_of(n.args[i]):
                        out.add(_var_of(n.args[i]))
    return out


def resolve_callee(mod, cls, call: ast.Call):
    """-> (lean name, signature or None when not translated yet) for calls of translated functions/methods, else None"""
    f = call.func
    wanted = set(mod.cfg["functions"]) | {f"{c}.{x}" for c, ms in mod.cfg["classes"].items() for x in ms}
    name = None
    if isinstance(f, ast.Name):
        if f.id in mod.cfg["functions"]:
            name = f.id
        elif f.id in mod.classes:
            name = f"{f.id}.__init__"
        elif f.id in mod.imported_funcs:
            tag, fn = mod.imported_funcs[f.id]
            other = mod.world[tag]
            return f"Src.{tag}.{fn}", other.funcs.get(fn)
    elif isinstance(f, ast.Attribute) and isinstance(f.value, ast.Name):
        if f.value.id == "self" and cls is not None and f"{cls}.{f.attr}" in wanted:
            name = f"{cls}.{f.attr}"
        elif f.value.id in mod.classes and f"{f.value.id}.{f.attr}" in wanted:
            name = f"{f.value.id}.{f.attr}"
    if name is None:
        return None
    if name in mod.funcs:
        return name, mod.funcs[name]
    if mod.report.get(name) is None:
        return name, None
    raise Unsupported(f"call of {name}, which could not be translated")


def has_ctrl(stmts, in_loop_only_break=True):
    """does the statement list contain a return, or a break that belongs to an enclosing loop?"""
    for st in stmts:
        if isinstance(st, (ast.Return, ast.Break, ast.Raise, ast.Continue)):
            return True
        if isinstance(st, ast.If) and (has_ctrl(st.body) or has_ctrl(st.orelse)):
            return True
        if isinstance(st, (ast.For, ast.While)):
            if any(isinstance(n, ast.Return) for x in st.body for n in ast.walk(x)):
                return True
    return False


class FnTr:
    def __init__(self, mod: Module, cls, env, info):
        self.mod, self.cls, self.info = mod, cls, info
        self.tmp = 0
        self.rparams: list[str] = []
        self.ret_type = None
        self.outs: list[str] = []
        self.out_types: dict[str, object] = {}
        self.loop_stack: list[list[str]] = []
        self.loop_ret_type = None
        self.aux: list[str] = []       # lifted loop bodies / conditions (top-level definitions emitted before the function)
        self.nloops = 0

    def fresh(self, p="t"):
        self.tmp += 1
        return f"{p}{self.tmp}"

    # -- expressions ------------------------------------------------------------------------------------------------
    def pure(self, e, env):
        try:
            _, _, pre = self.expr(e, env, probe=True)
            return not pre
        except Unsupported:
            return False

    def expr(self, e, env=None, probe=False):
        """-> (lean text, type, prelude) ; prelude = list of functions code -> code (continuation-passing wrappers)"""
        env = env if env is not None else {}
        saved = (self.tmp, list(self.rparams))
        r = self._expr(e, env)
        if probe:
            self.tmp, self.rparams = saved[0], saved[1]
        return r

    def _expr(self, e, env):
        m = self.mod
        if isinstance(e, ast.Constant):
            if isinstance(e.value, bool):
                return ("true" if e.value else "false"), "bool", []
            if isinstance(e.value, int):
                return f"({e.value} : Int)", "int", []
            if isinstance(e.value, str):
                return "([" + ", ".join(str(ord(ch)) for ch in e.value) + "] : List Nat)", "str", []
            raise Unsupported(f"constant {e.value!r}")
        if isinstance(e, ast.Name):
            if e.id in env:
                return e.id, env[e.id], []
            c = m.const_ref(e.id)
            if c:
                return c, "int", []
            raise Unsupported(f"unknown name {e.id}")
        if isinstance(e, ast.Attribute):
            if isinstance(e.value, ast.Name) and e.value.id == "self":
                n = "self_" + e.attr
                if n in env:
                    return n, env[n], []
                # a property whose getter returns a field (translator configuration; the getter itself is translated too)
                fld = m.cfg.get("properties", {}).get(e.attr)
                if fld and ("self_" + fld) in env:
                    return "self_" + fld, env["self_" + fld], []
                # a computed property: call its translated getter
                fake = ast.Call(func=e, args=[], keywords=[])
                r = resolve_callee(m, self.cls, fake)
                if r is not None:
                    val, ty, wrapper, _ = self.emit_call(r, fake, env, want_value=True)
                    return val, ty, [wrapper]
                raise Unsupported(f"self.{e.attr} is not a field")
            if e.attr == "value":
                txt, ty, pre = self._expr(e.value, env)
                if ty == "valueobj":
                    return txt, "int", pre
            raise Unsupported("attribute access")
        if isinstance(e, ast.UnaryOp):
            txt, ty, pre = self._expr(e.operand, env)
            if isinstance(e.op, ast.USub) and ty == "int":
                return f"(-{txt})", "int", pre
            if isinstance(e.op, ast.Not):
                return f"(!{self.as_bool(txt, ty)})", "bool", pre
            raise Unsupported("unary operator")
        if isinstance(e, ast.BinOp):
            a, ta, pa = self._expr(e.left, env)
            b, tb, pb = self._expr(e.right, env)
            if isinstance(e.op, ast.Add) and ta == "str" and tb in ("str", "char"):
                return (f"({a} ++ {b})" if tb == "str" else f"({a} ++ [{b}])"), "str", pa + pb
            if ta != "int" or tb != "int":
                raise Unsupported("arithmetic on non-integers")
            pre = pa + pb
            if isinstance(e.op, (ast.Add, ast.Sub, ast.Mult)):
                op = {ast.Add: "+", ast.Sub: "-", ast.Mult: "*"}[type(e.op)]
                return f"({a} {op} {b})", "int", pre
            if isinstance(e.op, (ast.FloorDiv, ast.Mod)):
                fn = "fdiv" if isinstance(e.op, ast.FloorDiv) else "fmod"
                try:
                    nz = m.static_int(e.right) != 0
                except Unsupported:
                    nz = False
                if nz:
                    return f"(Int.{fn} {a} {b})", "int", pre
                t = self.fresh()
                comb = "Py.floorDiv" if fn == "fdiv" else "Py.floorMod"
                pre = pre + [lambda code, a=a, b=b, t=t, comb=comb: f"{comb} {a} {b} fun {t} =>\n{code}"]
                return t, "int", pre
            if isinstance(e.op, (ast.BitAnd, ast.BitXor)):
                t = self.fresh()
                comb = "Py.bitAnd" if isinstance(e.op, ast.BitAnd) else "Py.bitXor"
                pre = pre + [lambda code, a=a, b=b, t=t, comb=comb: f"{comb} {a} {b} fun {t} =>\n{code}"]
                return t, "int", pre
            raise Unsupported(f"operator {type(e.op).__name__}")
        if isinstance(e, ast.Compare) and len(e.ops) == 1 and isinstance(e.ops[0], (ast.Is, ast.IsNot)) \
                and isinstance(e.comparators[0], ast.Constant) and e.comparators[0].value is None:
            x, tx, px = self._expr(e.left, env)
            if not (isinstance(tx, tuple) and tx[0] == "opt"):
                raise Unsupported("`is None` on a value that cannot be None")
            return f"({x}.isNone)" if isinstance(e.ops[0], ast.Is) else f"({x}.isSome)", "bool", px
        if isinstance(e, ast.Compare):
            parts, pre = [], []
            left, tl, pl = self._expr(e.left, env)
            pre += pl
            for op, right in zip(e.ops, e.comparators):
                r, tr_, pr = self._expr(right, env)
                if pr and parts:
                    raise Unsupported("chained comparison with an operation that can raise")
                pre += pr
                if tl == "char" and isinstance(right, ast.Constant) and isinstance(right.value, str) and len(right.value) == 1 \
                        and isinstance(op, (ast.Eq, ast.NotEq)):
                    parts.append(f"decide ({left} {'=' if isinstance(op, ast.Eq) else '≠'} {ord(right.value)})")
                    left, tl = r, tr_
                    continue
                if tl != tr_ and not ({tl, tr_} <= {"int"}):
                    raise Unsupported("comparison of different types")
                sym = {ast.Lt: "<", ast.LtE: "≤", ast.Gt: ">", ast.GtE: "≥", ast.Eq: "=", ast.NotEq: "≠"}.get(type(op))
                if sym is None or tl not in ("int", "bool"):
                    raise Unsupported("comparison operator")
                if tl == "bool" and sym not in ("=", "≠"):
                    raise Unsupported("ordering of booleans")
                parts.append(f"decide ({left} {sym} {r})")
                left, tl = r, tr_
            return ("(" + " && ".join(parts) + ")") if len(parts) > 1 else parts[0].join("()"), "bool", pre
        if isinstance(e, ast.BoolOp):
            vals = [self._expr(v, env) for v in e.values]
            if any(p for _, _, p in vals[1:]):
                raise Unsupported("short-circuit operand that can raise (outside an if test)")
            op = " && " if isinstance(e.op, ast.And) else " || "
            return "(" + op.join(self.as_bool(t, ty) for t, ty, _ in vals) + ")", "bool", vals[0][2]
        if isinstance(e, ast.IfExp):
            c, tc, pc = self._expr(e.test, env)
            a, ta, pa = self._expr(e.body, env)
            b, tb, pb = self._expr(e.orelse, env)
            if pa or pb or ta != tb:
                raise Unsupported("conditional expression")
            return f"(if {self.as_bool(c, tc)} then {a} else {b})", ta, pc
        if isinstance(e, ast.Subscript):
            if isinstance(e.slice, ast.Slice):
                sl = e.slice
                xs, tx, px = self._expr(e.value, env)
                if tx == "bytes" and sl.step is None and sl.lower is not None and sl.upper is not None:
                    a, ta, pa = self._expr(sl.lower, env)
                    b, tb, pb = self._expr(sl.upper, env)
                    if ta != "int" or tb != "int":
                        raise Unsupported("slice bound")
                    return f"(Py.slice {xs} {a} {b})", "bytes", px + pa + pb
                if tx != "bytes" or sl.step is not None or (sl.lower is None) == (sl.upper is None):
                    raise Unsupported("slice")
                k, tk, pk = self._expr(sl.upper if sl.lower is None else sl.lower, env)
                if tk != "int":
                    raise Unsupported("slice bound")
                fn = "Py.slicePrefix" if sl.lower is None else "Py.sliceSuffix"
                return f"({fn} {xs} {k})", "bytes", px + pk
            xs, tx, px = self._expr(e.value, env)
            i, ti, pi = self._expr(e.slice, env)
            if tx == "str" and ti == "int":
                t = self.fresh()
                return t, "char", px + pi + [lambda code, xs=xs, i=i, t=t: f"Py.getChar {xs} {i} fun {t} =>\n{code}"]
            if tx != "bytes" or ti != "int":
                raise Unsupported("subscript")
            t = self.fresh()
            return t, "int", px + pi + [lambda code, xs=xs, i=i, t=t: f"Py.getItem {xs} {i} fun {t} =>\n{code}"]
        if isinstance(e, ast.Call):
            return self.call(e, env)
        raise Unsupported(type(e).__name__)

    def as_bool(self, txt, ty):
        if ty == "bool":
            return txt
        if ty == "int":
            return f"decide ({txt} ≠ 0)"
        raise Unsupported("truth value of a non-scalar")

    def call(self, e, env):
        m = self.mod
        f = e.func
        if e.keywords:
            raise Unsupported("keyword arguments")
        if isinstance(f, ast.Name):
            if f.id == "len" and len(e.args) == 1:
                a, ta, pa = self._expr(e.args[0], env)
                if ta == "bytes":
                    return f"(Py.len {a})", "int", pa
                if ta == "str":
                    return f"(Py.lenS {a})", "int", pa
                raise Unsupported("len of this type")
            if f.id in ("min", "max") and len(e.args) == 2:
                args = [self._expr(a, env) for a in e.args]
                if args[0][1] == args[1][1] == "int":
                    return f"({f.id} {args[0][0]} {args[1][0]})", "int", args[0][2] + args[1][2]
            if f.id == "int" and len(e.args) == 1 and isinstance(e.args[0], ast.BinOp) and isinstance(e.args[0].op, ast.Div):
                a, ta, pa = self._expr(e.args[0].left, env)
                b, tb, pb = self._expr(e.args[0].right, env)
                if ta != "int" or tb != "int":
                    raise Unsupported("int(a / b) on non-integers")
                t = self.fresh()
                return t, "int", pa + pb + [lambda code, a=a, b=b, t=t: f"Py.truncDiv {a} {b} fun {t} =>\n{code}"]
            if f.id in ("bytes", "bytearray", "memoryview") and len(e.args) == 1 and not isinstance(e.args[0], (ast.List, ast.BinOp)):
                try:
                    a, ta, pa = self._expr(e.args[0], env)
                except Unsupported:
                    ta = None
                if ta == "bytes":
                    return a, "bytes", pa      # a copy / a view of the same bytes: values, not identities, are modelled
            if f.id in ("bytes", "bytearray"):
                if not e.args and f.id == "bytearray":
                    return "([] : List Int)", "bytes", []
                if len(e.args) == 3 and f.id == "bytearray" and all(isinstance(x, ast.Constant) for x in e.args[1:]) \
                        and [x.value for x in e.args[1:]] == ["windows-1252", "replace"]:
                    a, ta, pa = self._expr(e.args[0], env)
                    if ta != "str":
                        raise Unsupported("bytearray(x, codec, errors) of a non-string")
                    return f"(Py.encodeAnsi {a})", "bytes", pa
                if len(e.args) != 1:
                    raise Unsupported(f"{f.id}(...)")
                a0 = e.args[0]
                if isinstance(a0, ast.List):
                    els = [self._expr(x, env) for x in a0.elts]
                    if any(t != "int" for _, t, _ in els):
                        raise Unsupported("bytes([...]) of non-integers")
                    t = self.fresh()
                    lst = "[" + ", ".join(x for x, _, _ in els) + "]"
                    pre = [p for _, _, ps in els for p in ps]
                    return t, "bytes", pre + [lambda code, lst=lst, t=t: f"Py.mkBytes {lst} fun {t} =>\n{code}"]
                if isinstance(a0, ast.BinOp) and isinstance(a0.op, ast.Mult) and isinstance(a0.left, ast.List) and len(a0.left.elts) == 1:
                    # bytearray([c] * n)
                    c, tc, pc = self._expr(a0.left.elts[0], env)
                    n, tn, pn = self._expr(a0.right, env)
                    if tc != "int" or tn != "int":
                        raise Unsupported("list repetition")
                    t = self.fresh()
                    return t, "bytes", pc + pn + [lambda code, c=c, n=n, t=t: f"Py.mkBytes (List.replicate (Int.toNat {n}) {c}) fun {t} =>\n{code}"]
                a, ta, pa = self._expr(a0, env)
                if f.id == "bytearray" and ta == "int":
                    t = self.fresh()
                    return t, "bytes", pa + [lambda code, a=a, t=t: f"Py.zeros {a} fun {t} =>\n{code}"]
                raise Unsupported(f"{f.id}(...)")
        if isinstance(f, ast.Attribute):
            if isinstance(f.value, ast.Name) and f.value.id == "random" and f.attr == "randrange" and len(e.args) == 2:
                args = [self._expr(a, env) for a in e.args]
                r = f"r{len(self.rparams) + 1}"
                self.rparams.append(r)
                t = self.fresh()
                pre = args[0][2] + args[1][2]
                a, b = args[0][0], args[1][0]
                return t, "int", pre + [lambda code, a=a, b=b, r=r, t=t: f"Py.randrange {a} {b} {r} fun {t} =>\n{code}"]
            if f.attr in ("isupper", "islower", "lower", "upper") and not e.args:
                a, ta, pa = self._expr(f.value, env)
                if ta == "char":
                    fn = {"isupper": "Py.chrIsUpper", "islower": "Py.chrIsLower", "lower": "Py.chrLower", "upper": "Py.chrUpper"}[f.attr]
                    return f"({fn} {a})", ("bool" if f.attr.startswith("is") else "char"), pa
            if f.attr == "copy" and not e.args:
                a, ta, pa = self._expr(f.value, env)
                if ta == "bytes":
                    return a, "bytes", pa
            if f.attr == "decode" and len(e.args) == 2 and all(isinstance(x, ast.Constant) for x in e.args) \
                    and [x.value for x in e.args] == ["windows-1252", "replace"]:
                a, ta, pa = self._expr(f.value, env)
                if ta == "bytes":
                    return f"(Py.decodeAnsi {a})", "str", pa
            if f.attr == "find" and len(e.args) == 1 and isinstance(e.args[0], ast.Call) and isinstance(e.args[0].func, ast.Name) \
                    and e.args[0].func.id == "bytes" and len(e.args[0].args) == 1 and isinstance(e.args[0].args[0], ast.List) \
                    and len(e.args[0].args[0].elts) == 1:
                a, ta, pa = self._expr(f.value, env)
                c, tc, pc = self._expr(e.args[0].args[0].elts[0], env)
                if ta == "bytes" and tc == "int":
                    return f"(Py.findByte {a} {c})", "int", pa + pc
        r = resolve_callee(m, self.cls, e)
        if r is None:
            raise Unsupported("call")
        val, ty, wrapper, env2 = self.emit_call(r, e, env, want_value=True)
        if env2 is not env and env2 != env:
            raise Unsupported("a call used as a value that also mutates its arguments")
        return val, ty, [wrapper]

    def emit_call(self, r, e: ast.Call, env, want_value: bool):
        """call of a translated function / method: -> (value text, value type, wrapper code -> code, environment after)"""
        lname, sig = r
        if sig is None:
            raise NeedsLater()
        if sig["nrandom"]:
            raise Unsupported("call of a function that draws random numbers")
        args = [self._expr(a, env) for a in e.args]
        formal = sig["params"][sig["nfields"]:]
        if len(args) > len(formal):
            raise Unsupported(f"too many arguments for {lname}")
        if len(args) < len(formal):
            raise Unsupported(f"default arguments of {lname} are not supplied at this call")
        for (_, t, _), ft in zip(args, formal):
            if t != ft and not ({t, ft} <= {"int", "valueobj"}):
                raise Unsupported(f"argument types of {lname}")
        fields = []
        if sig["nfields"]:
            if sig["cls"] != self.cls:
                raise Unsupported("method call on another object")
            fields = ["self_" + f for f in self.mod.classes[self.cls]["fields"]]
            if any(f not in env for f in fields):
                raise Unsupported("method call before every field is assigned")
        pre = [p for _, _, ps in args for p in ps]
        argtxt = " ".join(fields + [a for a, _, _ in args])
        # what the call rebinds
        targets = []
        for o in sig["outs"]:
            if o in sig["pnames"]:
                v = _var_of(e.args[sig["pnames"].index(o)])
                if v is None:
                    raise Unsupported("a mutated argument that is not a variable")
                targets.append(v)
            else:
                targets.append(o)
        is_ctor = sig["is_init"]
        rt = sig["ret_type"]
        t = self.fresh()
        if is_ctor:
            pat, val, ty = t, t, ("obj", sig["cls"], sig["ret"])
            targets = []
        elif rt == "none":
            pat, val, ty = (tup(targets) if targets else "_"), None, "none"
        else:
            pat, val, ty = (f"({tup(targets)}, {t})" if targets else t), t, rt
        env2 = env
        if targets:
            env2 = dict(env)
        code_w = lambda code, lname=lname, argtxt=argtxt, pat=pat: f"Py.bind ({lname} {argtxt}) fun {pat} =>\n{code}"
        wrapper = lambda code: self.wrap(pre, code_w(code))
        if want_value and val is None:
            raise Unsupported("the value of a call that returns None")
        return val, ty, wrapper, env2

    # -- statements ------------------------------------------------------------------------------------------------
    @staticmethod
    def wrap(pre, code):
        for p in reversed(pre):
            code = p(code)
        return code

    def finish(self, env, val=None, valty=None):
        """code for leaving the function (return / falling off the end)"""
        outs = self.outs
        for o in outs:
            if o not in env:
                raise Unsupported(f"{o} is not assigned before the function returns")
            prev = self.out_types.get(o)
            if prev is not None and prev != env[o]:
                raise Unsupported("a result variable has two types")
            self.out_types[o] = env[o]
        if val is None:
            rt = "none"
            res = tup(outs)
        else:
            rt = valty
            res = f"({tup(outs)}, {val})" if outs else val
        if isinstance(rt, tuple) and rt[0] == "obj":
            rt = rt[2]
        if self.ret_type is not None and self.ret_type != rt:
            raise Unsupported("return statements of different types")
        self.ret_type = rt
        return f".ok {res}" if res.startswith("(") else f".ok ({res})"

    def stmts(self, body, idx, env, loop, end=None):
        """translate body[idx:]; `loop` = (carried variable names) when inside a loop body, else None;
        `end(env)` = code for normal completion of the list (default: next iteration / leave the function)"""
        if idx >= len(body):
            if end is not None:
                return end(env)
            if loop is not None:
                return f".ok ({tup(loop)}, false)"
            return self.finish(env)
        st = body[idx]
        rest = lambda env2: self.stmts(body, idx + 1, env2, loop, end)
        if isinstance(st, ast.Expr):
            v = st.value
            if isinstance(v, ast.Constant) and isinstance(v.value, str):
                return rest(env)
            if isinstance(v, ast.Call) and isinstance(v.func, ast.Attribute) and v.func.attr == "reverse" and not v.args \
                    and isinstance(v.func.value, ast.Name) and env.get(v.func.value.id) == "bytes":
                n = v.func.value.id
                return f"let {n} : List Int := {n}.reverse\n{rest(env)}"
            if isinstance(v, ast.Call) and isinstance(v.func, ast.Attribute) and v.func.attr == "__init__" \
                    and isinstance(v.func.value, ast.Call) and isinstance(v.func.value.func, ast.Name) and v.func.value.func.id == "super":
                base = self.mod.classes[self.cls]["base"] if self.cls else None
                if base is None:
                    raise Unsupported("super() without a translated base class")
                bname = f"{base}.__init__"
                if bname not in self.mod.funcs:
                    raise NeedsLater()
                fake = ast.Call(func=ast.Name(id=base), args=v.args, keywords=[])
                val, ty, wrapper, _ = self.emit_call((bname, self.mod.funcs[bname]), fake, env, want_value=True)
                bf = ["self_" + f for f in self.mod.classes[base]["fields"]]
                env2 = dict(env)
                bt = self.mod.funcs[bname]["ret"][1]
                for n, ft in zip(bf, bt):
                    env2[n] = ft
                return wrapper(f"let {tup(bf)} := {val}\n{rest(env2)}")
            if isinstance(v, ast.Call) and isinstance(v.func, ast.Attribute) and v.func.attr in ("append", "extend") and len(v.args) == 1 \
                    and _var_of(v.func.value) and env.get(_var_of(v.func.value)) == "bytes":
                xs = _var_of(v.func.value)
                a, ta, pa = self._expr(v.args[0], env)
                if v.func.attr == "append":
                    if ta != "int":
                        raise Unsupported("append of a non-integer")
                    return self.wrap(pa, f"Py.append {xs} {a} fun {xs} =>\n{rest(env)}")
                if ta != "bytes":
                    raise Unsupported("extend by a non-bytes value")
                return self.wrap(pa, f"let {xs} : List Int := {xs} ++ {a}\n{rest(env)}")
            # a call whose value is discarded: translated functions and methods (their results rebind what they mutate)
            if isinstance(v, ast.Call):
                r = resolve_callee(self.mod, self.cls, v)
                if r is not None:
                    _, _, wrapper, env2 = self.emit_call(r, v, env, want_value=False)
                    return wrapper(rest(env2))
            raise Unsupported("expression statement")
        if isinstance(st, ast.Pass):
            return rest(env)
        if isinstance(st, ast.AugAssign):
            st = ast.Assign(targets=[st.target], value=ast.BinOp(left=_as_load(st.target), op=st.op, right=st.value))
        if isinstance(st, ast.AnnAssign) and st.value is not None:
            st = ast.Assign(targets=[st.target], value=st.value)
        if isinstance(st, ast.Assign):
            if len(st.targets) != 1:
                raise Unsupported("multiple assignment")
            tg = st.targets[0]
            if isinstance(tg, ast.Name) or (isinstance(tg, ast.Attribute) and isinstance(tg.value, ast.Name) and tg.value.id == "self"):
                name = tg.id if isinstance(tg, ast.Name) else "self_" + tg.attr
                txt, ty, pre = self._expr(st.value, env)
                if isinstance(ty, tuple):
                    raise Unsupported("assignment of an object")
                if name in env and env[name] != ty and not ({env[name], ty} <= {"int", "valueobj"}):
                    raise Unsupported(f"{name} changes its type")
                env2 = dict(env)
                env2[name] = "int" if ty == "valueobj" and not isinstance(tg, ast.Attribute) else ty
                if isinstance(tg, ast.Attribute):
                    env2[name] = ty
                return self.wrap(pre, f"let {name} : {lean_ty(env2[name])} := {txt}\n{rest(env2)}")
            if isinstance(tg, ast.Subscript) and isinstance(tg.value, ast.Name) and env.get(tg.value.id) == "bytes":
                xs = tg.value.id
                if isinstance(tg.slice, ast.Slice):
                    s = tg.slice
                    txt, ty, pre = self._expr(st.value, env)
                    if ty != "bytes" or s.step is not None:
                        raise Unsupported("slice assignment of a non-bytes value")
                    if s.lower is None and s.upper is None:
                        return self.wrap(pre, f"let {xs} : List Int := {txt}\n{rest(env)}")
                    if (s.lower is None) != (s.upper is None):
                        k, tk, pk = self._expr(s.upper if s.lower is None else s.lower, env)
                        if tk != "int":
                            raise Unsupported("slice bound")
                        fn = "Py.setPrefix" if s.lower is None else "Py.setSuffix"
                        return self.wrap(pre + pk, f"let {xs} : List Int := {fn} {xs} {k} {txt}\n{rest(env)}")
                    raise Unsupported("slice assignment")
                # Python evaluates the right-hand side first, then the target's index
                v, tv, pv = self._expr(st.value, env)
                i, ti, pi = self._expr(tg.slice, env)
                if ti != "int" or tv != "int":
                    raise Unsupported("item assignment")
                return self.wrap(pv + pi, f"Py.setItem {xs} {i} {v} fun {xs} =>\n{rest(env)}")
            raise Unsupported("assignment target")
        if isinstance(st, ast.Return):
            if loop is not None:
                if not (loop and loop[-1] == "ret_slot") or st.value is None:
                    raise Unsupported("return inside this kind of loop")
                txt, ty, pre = self._expr(st.value, env)
                if self.loop_ret_type not in (None, ty):
                    raise Unsupported("return statements of different types in a loop")
                self.loop_ret_type = ty
                return self.wrap(pre, f"let ret_slot := some {txt}\n.ok ({tup(loop)}, true)")
            if st.value is None or (isinstance(st.value, ast.Constant) and st.value.value is None):
                return self.finish(env)
            txt, ty, pre = self._expr(st.value, env)
            return self.wrap(pre, self.finish(env, txt, ty))
        if isinstance(st, ast.Raise):
            exc = st.exc
            name = exc.func.id if isinstance(exc, ast.Call) and isinstance(exc.func, ast.Name) else exc.id if isinstance(exc, ast.Name) else None
            if name not in EXC:
                raise Unsupported("raise of an unknown exception")
            return f".error {EXC[name]}"
        if isinstance(st, ast.Break):
            if loop is None:
                raise Unsupported("break outside a loop")
            return f".ok ({tup(loop)}, true)"
        if isinstance(st, ast.Continue):
            if loop is None:
                raise Unsupported("continue outside a for loop")
            return f".ok ({tup(loop)}, false)"
        if isinstance(st, ast.If):
            return self.if_stmt(st, body, idx, env, loop, end)
        if isinstance(st, ast.For):
            return self.for_stmt(st, env, rest, loop)
        if isinstance(st, ast.While):
            return self.while_stmt(st, env, rest)
        raise Unsupported(type(st).__name__)

    def cond(self, test, env, T, E):
        """code of `if test then T else E`, short-circuit evaluation of and/or/not kept for operands that can raise"""
        if self.pure(test, env):
            txt, ty, _ = self._expr(test, env)
            return f"if {self.as_bool(txt, ty)} then\n{ind(T)}\nelse\n{ind(E)}"
        if isinstance(test, ast.BoolOp):
            first, others = test.values[0], test.values[1:]
            tail = others[0] if len(others) == 1 else ast.BoolOp(op=test.op, values=others)
            if isinstance(test.op, ast.And):
                return self.cond(first, env, self.cond(tail, env, T, E), E)
            return self.cond(first, env, T, self.cond(tail, env, T, E))
        if isinstance(test, ast.UnaryOp) and isinstance(test.op, ast.Not):
            return self.cond(test.operand, env, E, T)
        txt, ty, pre = self._expr(test, env)
        return self.wrap(pre, f"if {self.as_bool(txt, ty)} then\n{ind(T)}\nelse\n{ind(E)}")

    def pure_block(self, stmts, env):
        for st in stmts:
            if isinstance(st, ast.Expr) and isinstance(st.value, ast.Constant):
                continue
            if isinstance(st, ast.AugAssign):
                if not isinstance(st.target, ast.Name) or not self.pure(ast.BinOp(left=_as_load(st.target), op=st.op, right=st.value), env):
                    return False
            elif isinstance(st, ast.Assign):
                if len(st.targets) != 1 or not isinstance(st.targets[0], ast.Name) or not self.pure(st.value, env):
                    # the right-hand side may use a variable assigned earlier in the block: be generous with the environment
                    return False
            elif isinstance(st, ast.If):
                if not self.pure(st.test, env) or not self.pure_block(st.body, env) or not self.pure_block(st.orelse, env):
                    return False
            elif isinstance(st, ast.Pass):
                continue
            else:
                return False
        return True

    def if_stmt(self, st, body, idx, env, loop, end):
        following = body[idx + 1:]
        t = st.test
        if isinstance(t, ast.Compare) and len(t.ops) == 1 and isinstance(t.ops[0], ast.Is) and isinstance(t.left, ast.Name) \
                and isinstance(t.comparators[0], ast.Constant) and t.comparators[0].value is None and not st.orelse \
                and len(st.body) == 1 and isinstance(st.body[0], ast.Assign) and len(st.body[0].targets) == 1 \
                and isinstance(st.body[0].targets[0], ast.Name) and st.body[0].targets[0].id == t.left.id \
                and isinstance(env.get(t.left.id), tuple) and env[t.left.id][0] == "opt":
            x = t.left.id
            inner = env[x][1]
            txt, ty, pre = self._expr(st.body[0].value, env)
            if pre or ty != inner:
                raise Unsupported("default of an optional parameter")
            env2 = dict(env)
            env2[x] = inner
            return (f"let {x} : {lean_ty(inner)} := match {x} with\n  | none => {txt}\n  | some v_ => v_\n"
                    f"{self.stmts(body, idx + 1, env2, loop, end)}")
        if has_ctrl(st.body) or has_ctrl(st.orelse):
            T = self.stmts(list(st.body) + following, 0, dict(env), loop, end)
            E = self.stmts(list(st.orelse) + following, 0, dict(env), loop, end)
            return self.cond(st.test, env, T, E)
        a_then, a_else = assigned_vars(st.body), assigned_vars(st.orelse)
        top_then = {t.id for s in st.body if isinstance(s, ast.Assign) for t in s.targets if isinstance(t, ast.Name)}
        top_else = {t.id for s in st.orelse if isinstance(s, ast.Assign) for t in s.targets if isinstance(t, ast.Name)}
        carried = sorted(v for v in (a_then | a_else) if v in env or (v in top_then and v in top_else))
        # types of the carried variables after the statement
        envT, envE = dict(env), dict(env)
        pure = self.pure(st.test, env) and self.pure_block(st.body, env) and self.pure_block(st.orelse, env)
        ok = (lambda s: s) if pure else (lambda s: f".ok {s}" if s.startswith("(") else f".ok ({s})")
        T = self.stmts(st.body, 0, dict(env), loop, lambda e: (envT.update(e), ok(tup(carried)))[1])
        E = self.stmts(st.orelse, 0, dict(env), loop, lambda e: (envE.update(e), ok(tup(carried)))[1])
        env2 = dict(env)
        for v in carried:
            tT, tE = envT.get(v), envE.get(v)
            if tT is None or tE is None or tT != tE:
                raise Unsupported(f"{v} is not assigned with one type in both branches")
            env2[v] = tT
        tys = lean_ty(("tuple", [env2[v] for v in carried]))
        restc = self.stmts(body, idx + 1, env2, loop, end)
        if pure:
            if not carried:
                return restc
            txt, ty, _ = self._expr(st.test, env)
            return f"let {tup(carried)} : {tys} :=\n  if {self.as_bool(txt, ty)} then\n{ind(T, 4)}\n  else\n{ind(E, 4)}\n{restc}"
        c = self.cond(st.test, env, T, E)
        return f"Py.bind (α := {tys}) (\n{ind(c)}) fun {tup(carried) if carried else '_'} =>\n{restc}"

    def loop_state(self, st, env):
        carried = sorted(v for v in mutated_vars(st.body, self.mod, self.cls) if v in env)
        tys = ("tuple", [env[v] for v in carried])
        return carried, tys

    def free_vars(self, nodes, env, exclude):
        names = set()
        for x in nodes:
            for n in ast.walk(x):
                if isinstance(n, ast.Name) and n.id in env and n.id not in exclude:
                    names.add(n.id)
                if isinstance(n, ast.Attribute) and isinstance(n.value, ast.Name) and n.value.id == "self" and ("self_" + n.attr) in env \
                        and ("self_" + n.attr) not in exclude:
                    names.add("self_" + n.attr)
        return sorted(names)

    def loop_name(self):
        self.nloops += 1
        return self.info["name"].replace(".", "_") + f"_loop{self.nloops}"

    def for_stmt(self, st, env, rest, outer_loop=None):
        # `for c in s` / `for i, c in enumerate(s)` over a string: a range loop that first binds the character
        it0 = st.iter
        seq, ivar, cvar = None, None, None
        if isinstance(it0, ast.Name) and env.get(it0.id) == "str" and isinstance(st.target, ast.Name):
            seq, ivar, cvar = it0, f"i_{self.nloops + 1}", st.target.id
        elif isinstance(it0, ast.Call) and isinstance(it0.func, ast.Name) and it0.func.id == "enumerate" and len(it0.args) == 1 \
                and isinstance(it0.args[0], ast.Name) and env.get(it0.args[0].id) == "str" and isinstance(st.target, ast.Tuple) \
                and len(st.target.elts) == 2 and all(isinstance(x, ast.Name) for x in st.target.elts):
            seq, ivar, cvar = it0.args[0], st.target.elts[0].id, st.target.elts[1].id
        if seq is not None:
            if seq.id in assigned_vars(st.body):
                raise Unsupported("the string is assigned inside the loop over it")
            bind = ast.Assign(targets=[ast.Name(id=cvar, ctx=ast.Store())],
                              value=ast.Subscript(value=ast.Name(id=seq.id, ctx=ast.Load()), slice=ast.Name(id=ivar, ctx=ast.Load()), ctx=ast.Load()))
            st = ast.For(target=ast.Name(id=ivar, ctx=ast.Store()),
                         iter=ast.Call(func=ast.Name(id="range", ctx=ast.Load()),
                                       args=[ast.Call(func=ast.Name(id="len", ctx=ast.Load()), args=[ast.Name(id=seq.id, ctx=ast.Load())], keywords=[])],
                                       keywords=[]),
                         body=[bind] + list(st.body), orelse=st.orelse)
        if st.orelse or not isinstance(st.target, ast.Name):
            raise Unsupported("for loop form")
        it = st.iter
        if not (isinstance(it, ast.Call) and isinstance(it.func, ast.Name) and it.func.id == "range" and len(it.args) in (1, 2)):
            raise Unsupported("for loop over something other than range(n) / range(a, b)")
        bounds = [self._expr(a, env) for a in it.args]
        if any(t != "int" for _, t, _ in bounds):
            raise Unsupported("range of a non-integer")
        pre = [p for _, _, ps in bounds for p in ps]
        carried, tys = self.loop_state(st, env)
        i = st.target.id
        if i in carried:
            raise Unsupported("the loop variable is assigned before the loop and in it")
        has_return = any(isinstance(n, ast.Return) for x in st.body for n in ast.walk(x))
        if has_return and outer_loop is not None:
            raise Unsupported("return inside a nested loop")
        name = self.loop_name()
        nl = self.nloops
        envb = dict(env)
        envb[i] = "int"
        state = carried + (["ret_slot"] if has_return else [])
        saved_rt, self.loop_ret_type = self.loop_ret_type, None
        bodyc = self.stmts(st.body, 0, envb, state)
        rty, self.loop_ret_type = self.loop_ret_type, saved_rt
        if has_return:
            if rty is None:
                raise Unsupported("return without a value inside a loop")
            tys = ("tuple", tys[1] + [("opt", rty)])
        sty = lean_ty(tys)
        free = self.free_vars(st.body, env, set(carried) | {i})
        fsig = "".join(f" ({v} : {lean_ty(env[v])})" for v in free)
        self.aux.append(f"/-- body of loop {nl} of `{self.info['name']}` (state: {', '.join(state) or '-'}) -/\n"
                        f"def {name}_body{fsig} ({i} : Int) (s : {sty}) : Py.M ({sty} × Bool) :=\n"
                        f"  let {tup(state) if state else '_'} := s\n{ind(bodyc)}")
        fargs = "".join(" " + v for v in free)
        init = tup(carried + ([f"(none : Option {lean_ty(rty)})"] if has_return else []))
        comb = f"Py.forRange {bounds[0][0]}" if len(bounds) == 1 else f"Py.forRange2 {bounds[0][0]} {bounds[1][0]}"
        if has_return:
            after = (f"match ret_slot with\n| some ret_val =>\n{ind(self.finish(env, 'ret_val', rty))}\n| none =>\n{ind(rest(env))}")
        else:
            after = rest(env)
        code = (f"Py.bind ({comb} ({init} : {sty}) ({name}_body{fargs})) fun {tup(state) if state else '_'} =>\n{after}")
        return self.wrap(pre, code)

    def while_stmt(self, st, env, rest):
        if st.orelse:
            raise Unsupported("while/else")
        fuel = self.mod.cfg.get("fuel")
        if fuel is None:
            raise Unsupported("while loop without a fuel expression in the translator configuration")
        if not self.pure(st.test, env):
            raise Unsupported("while test that can raise")
        if any(isinstance(n, (ast.Break, ast.Return, ast.Continue)) for x in st.body for n in ast.walk(x)):
            raise Unsupported("break/return inside while")
        carried, tys = self.loop_state(st, env)
        sty = lean_ty(tys)
        pat = tup(carried) if carried else "_"
        name = self.loop_name()
        test, tt, _ = self._expr(st.test, env)
        okc = lambda e: f".ok {tup(carried)}" if tup(carried).startswith("(") else f".ok ({tup(carried)})"
        bodyc = self.stmts(st.body, 0, dict(env), None, okc)
        free = self.free_vars(list(st.body) + [st.test], env, set(carried))
        fsig = "".join(f" ({v} : {lean_ty(env[v])})" for v in free)
        fargs = "".join(" " + v for v in free)
        self.aux.append(f"/-- condition of loop {self.nloops} of `{self.info['name']}` -/\n"
                        f"def {name}_cond{fsig} (s : {sty}) : Bool :=\n  let {pat} := s\n  {self.as_bool(test, tt)}")
        self.aux.append(f"/-- body of loop {self.nloops} of `{self.info['name']}` (state: {', '.join(carried) or '-'}) -/\n"
                        f"def {name}_body{fsig} (s : {sty}) : Py.M {sty} :=\n  let {pat} := s\n{ind(bodyc)}")
        return (f"Py.bind (Py.whileLoop ({name}_cond{fargs}) ({name}_body{fargs}) {fuel} ({tup(carried)} : {sty})) fun {pat} =>\n{rest(env)}")


def _as_load(t):
    import copy
    t2 = copy.deepcopy(t)
    for n in ast.walk(t2):
        if hasattr(n, "ctx"):
            n.ctx = ast.Load()
    return t2


# ---------------------------------------------------------------------------------------------------------------------
def translate_all(repo: str, out_dir: str = GEN_DIR) -> dict:
    world: dict[str, Module] = {}
    report = {}
    os.makedirs(out_dir, exist_ok=True)
    for cfg in CONFIG:
        tag = cfg["tag"]
        path = os.path.join(out_dir, f"Src{tag}.lean")
        try:
            m = Module(cfg, repo, world)
            world[tag] = m
            m.translate()
            imports = sorted({t for t, _ in list(m.imported.values()) + list(m.imported_funcs.values()) if t in world and t != tag})
            head = ["import EoVerif.Model.PyOps"] + [f"import EoVerif.Generated.Src{t}" for t in imports]
            text = "\n".join(head) + f"\n/-! GENERATED by harness/py2lean.py from `{cfg['file']}` — do not edit; regenerated on every run. -/\n" \
                   "set_option linter.unusedVariables false\n" \
                   f"namespace EoVerif.Src.{tag}\nopen EoVerif\n\n" + "\n".join(m.const_defs) + "\n\n" + "\n\n".join(m.out) + \
                   f"\n\nend EoVerif.Src.{tag}\n"
            report[tag] = {"file": cfg["file"], "functions": m.report, "constants": m.consts}
        except (Unsupported, SyntaxError, OSError, KeyError) as ex:
            text = f"import EoVerif.Model.PyOps\n/-! GENERATED: translation of `{cfg['file']}` failed: {ex} -/\n"
            report[tag] = {"file": cfg["file"], "error": f"{type(ex).__name__}: {ex}", "functions": {}}
        old = open(path).read() if os.path.exists(path) else None
        if old != text:
            with open(path, "w") as f:
                f.write(text)
    with open(os.path.join(out_dir, "src_report.json"), "w") as f:
        json.dump(report, f, indent=1, sort_keys=True)
    return report


if __name__ == "__main__":
    repo = os.environ.get("VERIF_REPO", "/repo")
    rep = translate_all(repo)
    for tag, r in rep.items():
        print(tag, r.get("error") or r["functions"])
