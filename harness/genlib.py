"""Run the real protocol code generator on synthetic eo-protocol XML and drive the generated classes.

* `Xml`            immutable XML tree, `to_string()`, `Xml.from_element()`
* `forest_line`    one-line token encoding of a list of (dir, root) for the model driver
* `GenRun`         scratch copy of eolib + generator run (in-process) + import of the generated modules
* `render`         canonical rendering of values / generated objects
* `do_new/do_ser/do_de`   constructor / serialize / deserialize drivers on the real code
"""
from __future__ import annotations

import contextlib
import importlib
import io
import os
import shutil
import signal
import sys
import tempfile
import types
from pathlib import Path
from xml.etree import ElementTree as ET

from . import common
from .common import tohex, cps

COMMENT_TAG = "#comment"   # Xml(tag=COMMENT_TAG, text=...) is written as <!--...--> (dropped by the parser)


# --------------------------------------------------------------------------------------------
# Xml tree
# --------------------------------------------------------------------------------------------

def _esc(s: str, attr: bool = False) -> str:
    s = s.replace("&", "&amp;").replace("<", "&lt;").replace(">", "&gt;")
    if attr:
        s = s.replace('"', "&quot;").replace("\n", "&#10;").replace("\r", "&#13;").replace("\t", "&#9;")
    else:
        s = s.replace("\r", "&#13;")
    return s


class Xml:
    """Immutable element: tag, ordered attrs [(name, value)], text, tail, children."""
    __slots__ = ("tag", "attrs", "text", "tail", "children")

    def __init__(self, tag, attrs=(), text=None, tail=None, children=()):
        if isinstance(attrs, dict):
            attrs = attrs.items()
        object.__setattr__(self, "tag", tag)
        object.__setattr__(self, "attrs", tuple((str(k), str(v)) for k, v in attrs))
        object.__setattr__(self, "text", text)
        object.__setattr__(self, "tail", tail)
        object.__setattr__(self, "children", tuple(children))

    def __setattr__(self, *a):
        raise AttributeError("Xml is immutable")

    def replace(self, **kw) -> "Xml":
        d = {k: getattr(self, k) for k in self.__slots__}
        d.update(kw)
        return Xml(**d)

    def get(self, name, default=None):
        for k, v in self.attrs:
            if k == name:
                return v
        return default

    def find_all(self, tag):
        return [c for c in self.children if c.tag == tag]

    def __eq__(self, o):
        return isinstance(o, Xml) and all(getattr(self, k) == getattr(o, k) for k in self.__slots__)

    def __hash__(self):
        return hash((self.tag, self.attrs, self.text, self.tail, self.children))

    def __repr__(self):
        return f"Xml({self.to_string()!r})"

    def to_string(self) -> str:
        out: list[str] = []
        self._emit(out)
        return "".join(out)

    def _emit(self, out):
        if self.tag == COMMENT_TAG:
            out.append("<!--" + (self.text or "").replace("--", "- -") + "-->")
        else:
            out.append("<" + self.tag)
            for k, v in self.attrs:
                out.append(f' {k}="{_esc(v, True)}"')
            if self.text is None and not self.children:
                out.append("/>")
            else:
                out.append(">")
                if self.text:
                    out.append(_esc(self.text))
                for c in self.children:
                    c._emit(out)
                out.append(f"</{self.tag}>")
        if self.tail:
            out.append(_esc(self.tail))

    @staticmethod
    def from_element(e) -> "Xml":
        return Xml(e.tag, list(e.attrib.items()), e.text, e.tail, [Xml.from_element(c) for c in e])

    @staticmethod
    def parse(text: str) -> "Xml":
        return Xml.from_element(ET.fromstring(text))


def _tok(s: str) -> str:
    return "=" + s.encode("utf-8", "surrogatepass").hex()


def _otok(s) -> str:
    return "-" if s is None else _tok(s)


def _xml_tokens(x: Xml, out: list):
    out += ["E", _tok(x.tag), str(len(x.attrs))]
    for k, v in x.attrs:
        out += [_tok(k), _tok(v)]
    out += [_otok(x.text), _otok(x.tail), str(len(x.children))]
    for c in x.children:
        _xml_tokens(c, out)


def forest_line(files) -> str:
    """`<nfiles> (F <str:dir> <xml>)*` -- see module docstring of the task; pure encoding of what is given."""
    out = [str(len(files))]
    for d, root in files:
        out += ["F", _tok(d)]
        _xml_tokens(root, out)
    return " ".join(out)


# --------------------------------------------------------------------------------------------
# generator run
# --------------------------------------------------------------------------------------------

def _purge(prefix: str):
    for n in [n for n in sys.modules if n == prefix or n.startswith(prefix + ".")]:
        del sys.modules[n]


class GenRun:
    """files: [(relative dir, Xml root)].  After construction: `error` (None = accepted), `file_tree`,
    `forest` (forest line of the re-parsed files, in the os.walk order the generator uses),
    `walk_order` (dirs in that order).  `load()` imports the generated code; `get_class(name)`."""

    def __init__(self, files, repo: str | None = None, run: bool = True, fresh_modules: bool = True):
        self.files = list(files)
        # fresh_modules=False: reuse the generator modules already imported from the same checkout (much faster;
        # used where only acceptance is observed and thousands of specifications are tried)
        self.fresh_modules = fresh_modules
        self.repo = repo or os.environ.get("VERIF_REPO", "/repo")
        self.scratch = tempfile.mkdtemp(prefix="genrun-", dir="/var/tmp")
        self.src = os.path.join(self.scratch, "src")
        self.input = os.path.join(self.scratch, "xml")
        self.output = os.path.join(self.src, "eolib", "protocol", "_generated")
        self.error: BaseException | None = None
        self.load_error: BaseException | None = None
        self.file_tree: dict[str, bytes] = {}
        self.modules: dict[str, types.ModuleType] = {}
        self.classes: dict[str, type] = {}
        self.loaded = False
        try:
            shutil.copytree(os.path.join(self.repo, "src", "eolib"), os.path.join(self.src, "eolib"),
                            ignore=shutil.ignore_patterns("__pycache__", "_generated"))
            for d, root in self.files:
                os.makedirs(os.path.join(self.input, d), exist_ok=True)
                with open(os.path.join(self.input, d, "protocol.xml"), "w", encoding="utf-8") as f:
                    f.write('<?xml version="1.0" encoding="UTF-8"?>\n' + root.to_string() + "\n")
            self.walk_order = []
            for r, _, fs in os.walk(self.input):   # the order the generator will index the files in
                if "protocol.xml" in fs:
                    rel = Path(os.path.relpath(r, self.input)).as_posix()
                    self.walk_order.append("" if rel == "." else rel)
            parsed = []
            for d in self.walk_order:
                try:
                    parsed.append((d, Xml.from_element(ET.parse(os.path.join(self.input, d, "protocol.xml")).getroot())))
                except ET.ParseError:
                    parsed = None
                    break
            self.parsed = parsed
            self.forest = forest_line(parsed) if parsed is not None else None
            if run:
                self.generate()
        except BaseException:
            self.cleanup()
            raise

    # ---- generator ----
    def generate(self):
        loaded = sys.modules.get("protocol_code_generator.generate.code_generator")
        same = loaded is not None and os.path.abspath(getattr(loaded, "__file__", "")).startswith(os.path.abspath(self.repo) + os.sep)
        if self.fresh_modules or not same:
            _purge("protocol_code_generator")
        sys.path.insert(0, self.repo)
        buf = io.StringIO()
        try:
            with contextlib.redirect_stdout(buf):
                mod = importlib.import_module("protocol_code_generator.generate.code_generator")
                mod.ProtocolCodeGenerator(Path(self.input)).generate(Path(self.output))
            self.error = None
        except Exception as e:  # noqa: BLE001 - the exception is the result
            self.error = e
        finally:
            self.log = buf.getvalue()
            with contextlib.suppress(ValueError):
                sys.path.remove(self.repo)
        self.file_tree = {}
        for r, _, fs in os.walk(self.output):
            for fn in fs:
                p = os.path.join(r, fn)
                if fn.endswith(".py"):
                    with open(p, "rb") as f:
                        self.file_tree[Path(os.path.relpath(p, self.output)).as_posix()] = f.read()
        return self

    @property
    def ok(self) -> bool:
        return self.error is None

    # ---- import of the generated code ----
    def load(self):
        """Import every generated module (through the generated package __init__s) without executing the
        static eolib/__init__.py, eolib/protocol/__init__.py or eolib/protocol/net/__init__.py."""
        if self.error is not None:
            raise RuntimeError("generator rejected the specification") from self.error
        _purge("eolib")
        if self.src not in sys.path:
            sys.path.insert(0, self.src)
        base = os.path.join(self.src, "eolib")
        parent = None
        for name, path in (("eolib", base), ("eolib.protocol", os.path.join(base, "protocol")),
                           ("eolib.protocol.net", os.path.join(base, "protocol", "net"))):
            m = types.ModuleType(name)
            m.__path__ = [path]
            m.__package__ = name
            sys.modules[name] = m
            if parent is not None:
                setattr(parent, name.rsplit(".", 1)[1], m)
            parent = m
        importlib.invalidate_caches()
        try:
            self.EoWriter = importlib.import_module("eolib.data.eo_writer").EoWriter
            self.EoReader = importlib.import_module("eolib.data.eo_reader").EoReader
            self.SerializationError = importlib.import_module("eolib.protocol.serialization_error").SerializationError
            names = []
            for rel in sorted(self.file_tree, key=lambda r: (r.count("/"), r)):
                parts = rel[:-3].split("/")
                if parts[-1] == "__init__":
                    parts = parts[:-1]
                names.append(".".join(["eolib.protocol._generated", *parts]))
            for mn in names:
                self.modules[mn] = importlib.import_module(mn)
            if "net/packet_family.py" in self.file_tree and "net/packet_action.py" in self.file_tree:
                self.Packet = importlib.import_module("eolib.protocol.net.packet").Packet
            for mn, m in self.modules.items():
                for k, v in vars(m).items():
                    if isinstance(v, type) and getattr(v, "__module__", None) == mn:
                        self.classes[k] = v
        except Exception as e:  # noqa: BLE001
            self.load_error = e
            raise
        self.loaded = True
        return self

    def get_class(self, name: str):
        """`Foo` or a nested case class `Foo.KindDataBar[.SubData1]`."""
        head, *rest = name.split(".")
        obj = self.classes[head]
        for r in rest:
            obj = getattr(obj, r)
        return obj

    def cleanup(self):
        with contextlib.suppress(ValueError):
            sys.path.remove(self.src)
        shutil.rmtree(self.scratch, ignore_errors=True)

    def __enter__(self):
        return self

    def __exit__(self, *a):
        self.cleanup()
        return False


# --------------------------------------------------------------------------------------------
# rendering
# --------------------------------------------------------------------------------------------

_MISSING = object()


def is_generated_instance(v) -> bool:
    return "_byte_size" in getattr(type(v), "__annotations__", {}) and hasattr(type(v), "serialize")


def render(v, _open: tuple = ()) -> str:
    if any(v is o for o in _open):
        return "? cycle"   # an instance reachable from itself (code under test may hold such a reference)
    if v is _MISSING:
        return "M"
    if v is None:
        return "N"
    if isinstance(v, bool):
        return f"B {1 if v else 0}"
    if isinstance(v, int):
        return f"I {int(v)}"
    if isinstance(v, str):
        return f"S {cps(v)}"
    if isinstance(v, (bytes, bytearray, memoryview)):
        return f"Y {tohex(v)}"
    if isinstance(v, (tuple, list)):
        return " ".join([f"T {len(v)}", *(render(x, _open) for x in v)])
    if is_generated_instance(v):
        keys = [k for k in type(v).__annotations__ if k != "_byte_size"]
        toks = [f"O {type(v).__qualname__} {len(keys)}"]
        for k in keys:
            toks.append(k[1:] if k.startswith("_") else k)
            x = getattr(v, k, _MISSING)
            bad = _wrong_enum_type(x, type(v).__annotations__[k])
            toks.append(bad if bad else render(x, _open + (v,)))
        toks.append(str(int(getattr(v, "_byte_size", 0))))
        return " ".join(toks)
    return f"? {type(v).__name__}"


def _wrong_enum_type(x, annotation):
    """an enum member (or a tuple of them) stored in a field whose declared type names another class: rendered as
    `? <actual>-for-<declared>` so that it differs from every expected rendering (plain ints are what callers may pass)"""
    import enum
    import re
    import typing

    def names(a):
        if isinstance(a, str):
            return set(re.findall(r"[A-Za-z_][A-Za-z_0-9]*", a))
        if isinstance(a, type):
            return {a.__name__}
        out = set()
        for b in typing.get_args(a):
            out |= names(b)
        return out or set(re.findall(r"[A-Za-z_][A-Za-z_0-9]*", str(a)))
    items = x if isinstance(x, (tuple, list)) else (x,)
    declared = None
    for y in items:
        if isinstance(y, enum.Enum):
            declared = names(annotation) if declared is None else declared
            if type(y).__name__ not in declared:
                return f"? {type(y).__name__}-for-{'|'.join(sorted(declared))}"
    return None


def render_nosize(v) -> str:
    """`render` with every byte_size replaced by `_` (for round-trip comparison)."""
    if isinstance(v, (tuple, list)):
        return " ".join([f"T {len(v)}", *map(render_nosize, v)])
    if v is not None and not isinstance(v, (bool, int, str, bytes, bytearray, memoryview)) and is_generated_instance(v):
        keys = [k for k in type(v).__annotations__ if k != "_byte_size"]
        toks = [f"O {type(v).__qualname__} {len(keys)}"]
        for k in keys:
            toks.append(k[1:] if k.startswith("_") else k)
            toks.append(render_nosize(getattr(v, k, _MISSING)))
        toks.append("_")
        return " ".join(toks)
    return render(v)


def unrender(run, text: str):
    """inverse of `render`: rebuild the value (generated instances are allocated without calling
    __init__ and get their attributes assigned, so any recorded object can be reconstructed)"""
    toks = text.split(" ")
    pos = 0

    def nxt():
        nonlocal pos
        t = toks[pos]
        pos += 1
        return t

    def val():
        t = nxt()
        if t == "M":
            return _MISSING
        if t == "N":
            return None
        if t == "B":
            return nxt() == "1"
        if t == "I":
            return int(nxt())
        if t == "S":
            return common.from_cps(nxt())
        if t == "Y":
            h = nxt()
            return b"" if h == "-" else bytes.fromhex(h)
        if t == "T":
            return tuple(val() for _ in range(int(nxt())))
        if t == "O":
            cls = run.get_class(nxt())
            o = cls.__new__(cls)
            for _ in range(int(nxt())):
                k = nxt()
                v = val()
                if v is not _MISSING:
                    setattr(o, "_" + k, v)
            o._byte_size = int(nxt())
            return o
        raise ValueError(f"cannot rebuild from token {t!r}")
    return val()


def render_exc(e: BaseException) -> str:
    return common.exc_class(e)


# --------------------------------------------------------------------------------------------
# drivers on the real code
# --------------------------------------------------------------------------------------------

class _Timeout(BaseException):
    pass


def _alarm(signum, frame):
    raise _Timeout()


def _mods():
    return sys.modules["eolib.data.eo_writer"].EoWriter, sys.modules["eolib.data.eo_reader"].EoReader


def do_new(cls, kwargs) -> str:
    try:
        obj = cls(**kwargs)
    except Exception as e:  # noqa: BLE001
        return "err " + render_exc(e)
    return "ok " + render(obj)


def do_ser(cls, obj, san: bool = False) -> str:
    w = _mods()[0]()
    w.string_sanitization_mode = san
    try:
        cls.serialize(w, obj)
    except Exception as e:  # noqa: BLE001
        return f"err {render_exc(e)} data {tohex(w.data)} san {1 if w.string_sanitization_mode else 0}"
    return f"ok {tohex(w.data)} san {1 if w.string_sanitization_mode else 0}"


def ser_bytes(cls, obj, san: bool = False) -> bytes:
    """serialize with a fresh writer, exceptions propagate"""
    w = _mods()[0]()
    w.string_sanitization_mode = san
    cls.serialize(w, obj)
    return bytes(w.data)


def de_obj(cls, data: bytes, chunked: bool = False, timeout: float = 2.0):
    """(object, reader) -- exceptions propagate, `_Timeout` on divergence"""
    r = _mods()[1](data)
    r.chunked_reading_mode = chunked
    old = signal.signal(signal.SIGALRM, _alarm)
    signal.setitimer(signal.ITIMER_REAL, timeout)
    try:
        return cls.deserialize(r), r
    finally:
        signal.setitimer(signal.ITIMER_REAL, 0)
        signal.signal(signal.SIGALRM, old)


def do_de(cls, data: bytes, chunked: bool = False, timeout: float = 2.0) -> str:
    r = _mods()[1](data)
    r.chunked_reading_mode = chunked
    old = signal.signal(signal.SIGALRM, _alarm)
    signal.setitimer(signal.ITIMER_REAL, timeout)
    try:
        try:
            obj = cls.deserialize(r)
        finally:
            signal.setitimer(signal.ITIMER_REAL, 0)
        res = "ok " + render(obj)
    except _Timeout:
        res = "err Diverges"
    except Exception as e:  # noqa: BLE001
        res = "err " + render_exc(e)
    finally:
        signal.setitimer(signal.ITIMER_REAL, 0)
        signal.signal(signal.SIGALRM, old)
    return f"{res} pos {r.position} chunked {1 if r.chunked_reading_mode else 0}"
