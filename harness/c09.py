"""C09 — EoWriter: Writer.step vs eolib.data.eo_writer, plus the direct oracle of the property."""
from __future__ import annotations

from . import common, rwlib
from .common import Ctx, tohex
from .rwlib import LIMITS, SIZES, cp1252

FILES = ["src/eolib/data/eo_writer.py", "src/eolib/data/eo_numeric_limits.py", "src/eolib/data/number_encoding_utils.py",
         "src/eolib/data/string_encoding_utils.py"]
RULE = ("seeded random histories of 1..12 writer operations from a fresh writer with the sanitisation mode toggled at "
        "random points; integers from {0,1,limit-1,limit,limit+1,2*limit,10^12} and random; strings over an alphabet "
        "stressing y-diaeresis, '~', euro, non-cp1252 (Greek, emoji, lone surrogate, U+0081), NUL; lengths len-1,len,len+1,0,"
        "len+5; after every operation exception class, len(writer), to_bytearray() and the mode are compared with the model and "
        "checked against the property's statement. distinct = (operation, accepted/rejected, mode, length relation, "
        "string classes present, position in history)")
ASSUMPTIONS = ["negative integers are outside the property's quantifier (modelled and compared, not judged)"]


def gen_op(rng):
    k = rng.choice(["byte", "bytes", "char", "short", "three", "int", "str", "fstr", "estr", "festr", "san", "fstr", "festr", "str"])
    if k in LIMITS:
        v = rwlib.rand_int(rng, k)
        if rng.random() < 0.03:
            v = rng.choice([-1, -2, -253, -10 ** 6])
        return (k, v)
    if k == "bytes":
        return (k, bytes(rng.choice([0, 1, 0x79, 0xFE, 0xFF, rng.randrange(256)]) for _ in range(rng.randrange(0, 5))))
    if k in ("str", "estr"):
        return (k, rwlib.rand_string(rng))
    if k in ("fstr", "festr"):
        s = rwlib.rand_string(rng)
        n = len(s)
        return (k, s, rng.choice([n, n, n, n - 1, n + 1, 0, n + 5, n + 1]), rng.random() < 0.5)
    return ("san", rng.random() < 0.5)


def str_classes(s):
    out = set()
    for ch in s:
        o = ord(ch)
        out.add("yd" if o == 0xFF else "tilde" if o == 0x7E else "ascii" if o < 0x80 else "latin1" if 0xA0 <= o < 0x100
                else "cp1252hi" if cp1252(ch) != b"?" else "unenc")
    return frozenset(out)


def oracle_step(ws, before: bytes, mode: bool, op, raised, after: bytes, mode_after: bool) -> str | None:
    """C09's statement on one real step. `raised` is the exception or None."""
    k = op[0]
    if raised is not None and not isinstance(raised, ValueError):
        return f"{op!r} raised {type(raised).__name__}"
    if raised is not None:
        if after != before or mode_after != mode:
            return f"rejected write {op!r} changed the writer (contents {before.hex()} -> {after.hex()})"
    if k in LIMITS:
        n = op[1]
        if n < 0:
            return None  # outside the property's quantifier
        if (raised is not None) != (n >= LIMITS[k]):
            return f"add_{k}({n}) {'raised' if raised else 'was accepted'}; limit is {LIMITS[k]}"
        if raised is None and len(after) != len(before) + SIZES[k]:
            return f"add_{k}({n}) appended {len(after) - len(before)} bytes"
    elif k == "bytes":
        if raised is not None or after != before + op[1]:
            return f"add_bytes({op[1].hex()}) did not append exactly its argument"
    elif k == "san":
        if raised is not None or after != before or mode_after != op[1]:
            return "setting the sanitisation mode failed or changed the contents"
        return None
    else:
        s = op[1]
        fixed = k in ("fstr", "festr")
        if fixed:
            length, padded = op[2], op[3]
            bad = len(s) > length if padded else len(s) != length
            if (raised is not None) != bad:
                return f"{k}({s!r}, {length}, padded={padded}) {'raised' if raised else 'was accepted'}"
        elif raised is not None:
            return f"{k}({s!r}) raised"
        if raised is None:
            app = after[len(before):]
            if after[:len(before)] != before:
                return f"{op!r} modified earlier contents"
            want_len = (op[2] if op[3] else len(s)) if fixed else len(s)
            if len(app) != want_len:
                return f"{op!r} appended {len(app)} bytes, declared {want_len}"
            img = cp1252(s)
            npad = want_len - len(s)
            want_payload = img.replace(b"\xff", b"y") if mode else img
            want = want_payload + b"\xff" * npad
            if k in ("estr", "festr"):
                b = bytearray(want)
                ws["enc"](b)
                want = bytes(b)
            if app != want:
                if mode and k in ("str", "fstr") and 0xFF in app[:len(s)]:
                    return f"{op!r} with sanitisation on emitted 0xFF in the string bytes ({app.hex()})"
                return (f"{op!r} with sanitisation {'on' if mode else 'off'} emitted {app.hex()}, expected {want.hex()} "
                        f"(windows-1252 image{' with y-diaeresis -> y' if mode else ''}{', 0xFF padding' if npad else ''}"
                        f"{', EO-encoded' if k in ('estr', 'festr') else ''})")
    if mode_after != mode:
        return f"{op!r} changed the sanitisation mode"
    return None


def run_history(ctx, W, ws, ops, lines_out, impl_out):
    w = W.EoWriter()
    lines_out.append("w new")
    impl_out.append("ok")
    for i, op in enumerate(ops):
        before, mode = bytes(w.to_bytearray()), bool(w.string_sanitization_mode)
        raised = None
        try:
            rwlib.wop_apply(w, op)
        except Exception as ex:  # noqa: BLE001
            raised = ex
        after, mode_after = bytes(w.to_bytearray()), bool(w.string_sanitization_mode)
        why = oracle_step(ws, before, mode, op, raised, after, mode_after)
        if why:
            return why, ops[:i + 1]
        head = "ok" if raised is None else "err " + common.exc_class(raised)
        impl_out.append(f"{head} len {len(after)} san {1 if mode_after else 0} data {tohex(after)}")
        lines_out.append(rwlib.wop_line(op))
        sig = (op[0], raised is None, mode, min(i, 3))
        if op[0] in ("fstr", "festr"):
            sig += (op[3], (len(op[1]) > op[2]) - (len(op[1]) < op[2]))
        if op[0] in ("str", "estr", "fstr", "festr"):
            sig += (str_classes(op[1]),)
        elif op[0] in LIMITS:
            sig += ((op[1] >= LIMITS[op[0]]) - (op[1] < 0),)
        ctx.sig(sig)
        ctx.count("op." + op[0])
    return None, None


def gen_history(rng):
    """operations with *memory*: arguments of earlier operations are reused (the same string again right after a
    mode toggle, the same integer through another width) so that caching / stale-state defects can show"""
    ops = []
    for _ in range(rng.randrange(1, 13)):
        r = rng.random()
        prev_str = [o for o in ops if o[0] in ("str", "estr", "fstr", "festr")]
        prev_int = [o for o in ops if o[0] in LIMITS]
        if r < 0.22 and prev_str:
            s = rng.choice(prev_str[-2:])[1]
            if rng.random() < 0.7:
                ops.append(("san", rng.random() < 0.5))
            k = rng.choice(["str", "estr", "fstr", "festr"])
            if k in ("str", "estr"):
                ops.append((k, s))
            else:
                ops.append((k, s, len(s) + rng.choice([0, 0, 1, 3, -1]), rng.random() < 0.5))
        elif r < 0.30 and prev_int:
            ops.append((rng.choice(list(LIMITS)), rng.choice(prev_int)[1]))
        else:
            ops.append(gen_op(rng))
    return ops


def histories(ctx):
    rng = ctx.rng
    n = 250_000 if ctx.thorough else 25_000
    for _ in range(n):
        yield gen_history(rng)


def run(ctx: Ctx):
    W, _ = rwlib.mods()
    sdec = common.imp("eolib.data.string_encoding_utils").decode_string
    ws = {"dec": sdec, "enc": common.imp("eolib.data.string_encoding_utils").encode_string}
    if not rwlib.validate_cp1252(ctx):
        return
    lines, impl, hist_idx = [], [], []
    nh = 0
    all_hist = []

    def flush():
        nonlocal lines, impl, hist_idx
        ans = ctx.driver.ask(lines)
        for j, (a, b) in enumerate(zip(impl, ans)):
            if a != b:
                h, k = hist_idx[j]
                ctx.violation("model-impl-disagree", f"writer history {all_hist[h][:k+1]!r}: impl `{a[:160]}`, model `{b[:160]}`; the "
                              "property's statement holds on this history", {"input": {"history": [list(map(_js, o)) for o in all_hist[h][:k + 1]]},
                              "impl": a, "model": b, "correspondence": "Writer.step vs EoWriter",
                              "theorems_no_longer_tied": common.load_registry()["C09"]["theorems"]}, found_input=False)
                return False
        lines, impl, hist_idx = [], [], []
        return True

    for ops in histories(ctx):
        all_hist.append(ops)
        l0 = len(lines)
        why, prefix = run_history(ctx, W, ws, ops, lines, impl)
        if why:
            ctx.violation("property-fails", why, {"input": {"history": [list(map(_js, o)) for o in prefix]}})
            return
        hist_idx += [(nh, max(0, k - 1)) for k in range(len(lines) - l0)]
        nh += 1
        if len(lines) > 40_000:
            if not flush():
                return
            all_hist_len = len(all_hist)
    if not flush():
        return
    ctx.part("random writer histories (every step compared and judged)", sum(len(h) for h in all_hist), False, f"{nh} histories")
    ctx.sample({"history": [list(map(_js, o)) for o in all_hist[0]]})
    ctx.sample({"history": [list(map(_js, o)) for o in all_hist[1]]})


def _js(x):
    if isinstance(x, bytes):
        return {"hex": x.hex()}
    if isinstance(x, str):
        return {"cps": [ord(c) for c in x]}
    return x


def _unjs(x):
    if isinstance(x, dict) and "hex" in x:
        return bytes.fromhex(x["hex"])
    if isinstance(x, dict) and "cps" in x:
        return "".join(chr(c) for c in x["cps"])
    return x


def oracle_sweep(ctx: Ctx) -> bool:
    W, _ = rwlib.mods()
    ws = {"enc": common.imp("eolib.data.string_encoding_utils").encode_string}
    for ops in histories(ctx):
        why, prefix = run_history(ctx, W, ws, ops, [], [])
        if why:
            ctx.violation("property-fails", why, {"input": {"history": [list(map(_js, o)) for o in prefix]}})
            return True
    return False


def replay(ctx: Ctx, doc: dict) -> int:
    W, _ = rwlib.mods()
    ws = {"enc": common.imp("eolib.data.string_encoding_utils").encode_string}
    ops = [tuple(_unjs(x) for x in o) for o in doc["input"]["history"]]
    lines, impl = [], []
    why, _ = run_history(ctx, W, ws, ops, lines, impl)
    ans = ctx.driver.ask(lines)
    for a, b, l in zip(impl, ans, lines):
        print(f"{l[:60]:60s} impl={a[:70]} model={b[:70]}")
    print("property:", why or "holds")
    return 1 if (why or impl != ans) else 0
