"""C06 — chunk framing: sanitising writer + chunked reader on random chunk lists and read plans."""
from __future__ import annotations

from . import common, rwlib
from .common import Ctx, tohex
from .rwlib import LIMITS, cp1252

FILES = ["src/eolib/data/eo_reader.py", "src/eolib/data/eo_writer.py", "src/eolib/data/number_encoding_utils.py",
         "src/eolib/data/string_encoding_utils.py", "src/eolib/data/eo_numeric_limits.py"]
RULE = ("seeded random lists of 0..6 chunks of 0..5 typed fields (in-range integers with boundary bias, strings biased to "
        "y-diaeresis and non-cp1252 characters, plain/encoded/fixed), written with sanitisation on and break bytes between "
        "chunks; per chunk a read plan: any prefix of its fields, or all fields followed by surplus reads of every kind; then "
        "next_chunk. Every value is judged (written value / sanitised cp1252 image / zero or empty for surplus) and compared with "
        "the model; additionally each field's bytes are checked to be free of 0xFF. distinct = (plan kind, prefix length, "
        "field kinds in chunk, surplus kinds, chunk index class)")
ASSUMPTIONS = []
NOTILDE = [c for c in rwlib.ALPHA if c != "~"] + ["\xff", "\xff"]


def gen_field(rng, last: bool):
    kinds = ["char", "short", "three", "int", "fstr", "festr"] + (["str", "estr"] if last else [])
    k = rng.choice(kinds)
    if k in LIMITS:
        return (k, rwlib.rand_int(rng, k, in_range=True))
    s = rwlib.rand_string(rng, alpha=NOTILDE if k in ("estr", "festr") else rwlib.ALPHA + ["\xff", "\xff"])
    if k in ("fstr", "festr"):
        return (k, s, len(s), False)
    return (k, s)


SURPLUS = [("byte",), ("bytes", 3), ("char",), ("short",), ("three",), ("int",), ("str",), ("estr",), ("fstr", 3, True),
           ("fstr", 2, False), ("festr", 4, True), ("festr", 0, False)]


def read_op(f):
    return (f[0], f[2], f[3]) if f[0] in ("fstr", "festr") else (f[0],)


def expect(f):
    if f[0] in LIMITS:
        return f[1]
    return cp1252(f[1]).replace(b"\xff", b"y").decode("windows-1252", "replace")


def zero(op):
    return 0 if op[0] in ("byte", "char", "short", "three", "int") else bytearray() if op[0] == "bytes" else ""


def one_case(W, R, chunks, plans, blind=False, judged=True):
    w = W.EoWriter()
    lines, impl = ["w new"], ["ok"]
    w.string_sanitization_mode = True
    lines.append("w san 1")
    impl.append("ok len 0 san 1 data -")
    for ci, c in enumerate(chunks):
        if ci > 0:
            impl.append(rwlib.wop_run(w, ("byte", 0xFF)))
            lines.append("w byte 255")
        for f in c:
            before = len(w)
            out = rwlib.wop_run(w, f)
            impl.append(out)
            lines.append(rwlib.wop_line(f))
            if not out.startswith("ok"):
                return f"field write {f!r} was rejected", impl, lines
            if 0xFF in bytes(w.to_bytearray())[before:]:
                return f"field write {f!r} with sanitisation on emitted the break byte: {bytes(w.to_bytearray())[before:].hex()}", impl, lines
    data = bytes(w.to_bytearray())
    r = R.EoReader(data)
    lines.append(f"r new 0 {tohex(data)}")
    impl.append("ok")
    impl.append(rwlib.rop_run(r, ("chunked", True), observe=not blind))
    lines.append("r 0 chunked 1")
    for ci, (c, plan) in enumerate(zip(chunks, plans)):
        if plan[0] == "under":
            reads = [(read_op(f), expect(f)) for f in c[:plan[1]]]
        else:
            reads = [(read_op(f), expect(f)) for f in c] + [(op, zero(op)) for op in plan[1]]
        for op, want in reads + [(("next",), None)]:
            out = rwlib.rop_run(r, op, observe=not blind)
            impl.append(out)
            lines.append(rwlib.rop_line(0, op))
            if judged and not out.startswith("ok " + rwlib.val_str(want) + " pos "):
                return (f"chunks {chunks!r} plans {plans!r}: chunk {ci} read {op!r} returned `{out}`, expected `ok {rwlib.val_str(want)}`",
                        impl, lines)
    return None, impl, lines


def gen_cases(ctx):
    rng = ctx.rng
    n = 120_000 if ctx.thorough else 10_000
    for _ in range(n):
        chunks = []
        for _ in range(rng.randrange(0, 7)):
            L = rng.randrange(0, 6)
            chunks.append([gen_field(rng, j == L - 1) for j in range(L)])
        plans = []
        for c in chunks:
            if rng.random() < 0.5:
                plans.append(("under", rng.randrange(0, len(c) + 1)))
            else:
                plans.append(("over", [rng.choice(SURPLUS) for _ in range(rng.randrange(0, 4))]))
        yield chunks, plans


def run(ctx: Ctx):
    W, R = rwlib.mods()
    lines, impl, owner, cases = [], [], [], []
    n_reads = 0

    def flush():
        nonlocal lines, impl, owner
        ans = ctx.driver.ask(lines)
        for a, b, o in zip(impl, ans, owner):
            if not rwlib.same(a, b):
                ch, pl = cases[o]
                ctx.violation("model-impl-disagree", f"chunks {ch!r} plans {pl!r}: impl `{a[:120]}`, model `{b[:120]}`; isolation itself holds",
                              {"input": {"chunks": js(ch), "plans": js(pl)}, "impl": a, "model": b,
                               "correspondence": "Writer.step/Reader.step (chunked) vs EoWriter/EoReader",
                               "theorems_no_longer_tied": common.load_registry()["C06"]["theorems"]}, found_input=False)
                return False
        lines, impl, owner = [], [], []
        return True

    for chunks, plans in gen_cases(ctx):
        cases.append((chunks, plans))
        # a third of the cases is read "blind": the harness never asks the reader for `remaining` between the reads, so a
        # reader whose bookkeeping is only brought up to date by that question is seen as a client would see it
        blind = (len(cases) % 3 == 0)
        ctx.count("observation." + ("blind" if blind else "full"))
        why, im, ln = one_case(W, R, chunks, plans, blind=blind)
        if why:
            ctx.violation("property-fails", why + (" (reads without asking the reader for `remaining` in between)" if blind else ""),
                          {"input": {"chunks": js(chunks), "plans": js(plans), "blind": blind}})
            return
        lines += ln
        impl += im
        owner += [len(cases) - 1] * len(ln)
        n_reads += len(ln)
        for ci, (c, p) in enumerate(zip(chunks, plans)):
            ctx.sig((p[0], p[1] if p[0] == "under" else tuple(sorted({s[0] for s in p[1]})), tuple(f[0] for f in c), min(ci, 2),
                     ci == len(chunks) - 1))
            ctx.count("plan." + p[0])
        if len(lines) > 60_000 and not flush():
            return
    if not flush():
        return
    ctx.part("random chunk lists x read plans", n_reads, False, f"{len(cases)} cases")
    ctx.sample({"chunks": js(cases[3][0]), "plans": js(cases[3][1])})


def js(x):
    if isinstance(x, bytes):
        return {"hex": x.hex()}
    if isinstance(x, str):
        return {"cps": [ord(c) for c in x]}
    if isinstance(x, (list, tuple)):
        return [js(y) for y in x]
    return x


def unjs(x):
    if isinstance(x, dict) and "hex" in x:
        return bytes.fromhex(x["hex"])
    if isinstance(x, dict) and "cps" in x:
        return "".join(chr(c) for c in x["cps"])
    if isinstance(x, list):
        return tuple(unjs(y) for y in x)
    return x


def oracle_sweep(ctx: Ctx) -> bool:
    W, R = rwlib.mods()
    for chunks, plans in gen_cases(ctx):
        for blind in (True, False):
            why, _, _ = one_case(W, R, chunks, plans, blind=blind)
            if why:
                ctx.violation("property-fails", why, {"input": {"chunks": js(chunks), "plans": js(plans), "blind": blind}})
                return True
    return False


def replay(ctx: Ctx, doc: dict) -> int:
    W, R = rwlib.mods()
    chunks = [list(c) for c in unjs(doc["input"]["chunks"])]
    plans = [(p[0], p[1] if p[0] == "under" else list(p[1])) for p in unjs(doc["input"]["plans"])]
    why, im, ln = one_case(W, R, chunks, plans, blind=bool(doc["input"].get("blind", False)))
    ans = ctx.driver.ask(ln)
    for l, a, b in zip(ln, im, ans):
        print(f"{l[:50]:50s} impl={a[:60]} model={b[:60]}")
    print("property:", why or "holds")
    return 1 if (why or any(not rwlib.same(a, b) for a, b in zip(im, ans))) else 0
