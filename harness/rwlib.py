"""Shared helpers for the writer/reader checks (C04, C05, C06, C09): generators, canonical
rendering of operations for the driver, execution on the real EoWriter / EoReader."""
from __future__ import annotations

import re

from . import common
from .common import cps, tohex

LIMITS = {"byte": 256, "char": 253, "short": 253 ** 2, "three": 253 ** 3, "int": 253 ** 4}
SIZES = {"byte": 1, "char": 1, "short": 2, "three": 3, "int": 4}
ALPHA = ["A", "b", " ", "~", "\xff", "y", "€", "Δ", "\U0001F600", "\ud800", "\x81", "\x00",
         "!", '"', "O", "P", "}", "\x7f", "\xa0", "\xfe", "Ÿ", "?",
         # sequences and characters that Unicode normalisation would change (the writer must not: lengths are counted in
         # code points of the string as given): decomposed e-acute / y-diaeresis, lone combining marks, Angstrom and Ohm
         # signs, a ligature, a full-width letter
         "e\u0301", "y\u0308", "\u0301", "\u0308", "\u212b", "\u2126", "\ufb01", "\uff21", "\xe9"]


def mods():
    common.load_eolib()
    return common.imp("eolib.data.eo_writer"), common.imp("eolib.data.eo_reader")


# sizes at which buffers, windows, tables and one-byte counters of an implementation end: block sizes +-1, the EO char
# limit, a byte, and a few far beyond (a chunk longer than a scan window, a padding longer than a precomputed filler)
BIG_SIZES = [15, 16, 17, 31, 32, 33, 63, 64, 65, 127, 128, 129, 252, 253, 254, 255, 256, 257, 300, 511, 512, 513, 1000, 1024, 4100]
SIZE_BOOST = False   # set by a check whose source tie was not established / whose sources changed: sizes are probed harder


def big_size(rng) -> int | None:
    """now and then (2% of the draws, 12% when boosted) one of the big sizes"""
    if rng.random() < (0.12 if SIZE_BOOST else 0.02):
        return rng.choice(BIG_SIZES)
    return None


def rand_string(rng, maxlen=8, alpha=None) -> str:
    alpha = alpha or ALPHA
    n = big_size(rng)
    if n is None:
        n = rng.choice([0, 1, 2, 3, rng.randrange(0, maxlen + 1)])
    return "".join(rng.choice(alpha) for _ in range(n))


def rand_int(rng, kind: str, in_range=False) -> int:
    lim = LIMITS[kind]
    if in_range:
        return rng.choice([0, 1, lim - 1, lim // 253, max(0, lim // 253 - 1), rng.randrange(lim)])
    # every limit is a boundary for every width (a check that confuses widths, or relies on the shape of the
    # 4-byte encoding, shows up just above *another* type's limit), plus the window above INT_MAX where the
    # fourth encoded byte coincides with the 0xFE filler
    allb = [b + d for b in (256, 253, 253 ** 2, 253 ** 3, 253 ** 4) for d in (-1, 0, 1)]
    top = 253 ** 4
    return rng.choice([0, 1, lim - 1, lim, lim + 1, 2 * lim, 10 ** 12, rng.randrange(lim), rng.randrange(2 * lim),
                       rng.choice(allb), rng.choice(allb), top + rng.randrange(253 ** 3), top + 253 ** 3 + rng.randrange(253 ** 3),
                       2 ** 24, 2 ** 32, 254 * 253 ** 3 + rng.randrange(253 ** 3)])


def cp1252(s: str) -> bytes:
    """the exact windows-1252 image (the codec with 'replace', straight from CPython)"""
    return s.encode("windows-1252", "replace")


# ---- writer ops: tuples ("byte", v) ("bytes", b) ("char", n) ... ("str", s) ("fstr", s, len, padded)
#      ("estr", s) ("festr", s, len, padded) ("san", b)

def wop_line(op) -> str:
    k = op[0]
    if k in ("byte", "char", "short", "three", "int"):
        return f"w {k} {op[1]}"
    if k == "bytes":
        return f"w bytes {tohex(op[1])}"
    if k in ("str", "estr"):
        return f"w {k} {cps(op[1])}"
    if k in ("fstr", "festr"):
        return f"w {k} {cps(op[1])} {op[2]} {1 if op[3] else 0}"
    if k == "san":
        return f"w san {1 if op[1] else 0}"
    raise ValueError(op)


def wop_apply(w, op):
    k = op[0]
    if k == "byte":
        w.add_byte(op[1])
    elif k == "bytes":
        w.add_bytes(op[1])
    elif k == "char":
        w.add_char(op[1])
    elif k == "short":
        w.add_short(op[1])
    elif k == "three":
        w.add_three(op[1])
    elif k == "int":
        w.add_int(op[1])
    elif k == "str":
        w.add_string(op[1])
    elif k == "fstr":
        w.add_fixed_string(op[1], op[2], op[3])
    elif k == "estr":
        w.add_encoded_string(op[1])
    elif k == "festr":
        w.add_fixed_encoded_string(op[1], op[2], op[3])
    elif k == "san":
        w.string_sanitization_mode = op[1]
    else:
        raise ValueError(op)


def wop_run(w, op) -> str:
    """apply and render like the driver: `ok|err E len n san b data hex`"""
    try:
        wop_apply(w, op)
        head = "ok"
    except Exception as ex:  # noqa: BLE001
        head = "err " + common.exc_class(ex)
    return f"{head} len {len(w)} san {1 if w.string_sanitization_mode else 0} data {tohex(w.to_bytearray())}"


# ---- reader ops: ("byte",) ("bytes", n) ("char",) ... ("str",) ("fstr", len, padded) ("estr",)
#      ("festr", len, padded) ("chunked", b) ("next",)

def rop_line(rid: int, op) -> str:
    k = op[0]
    if k == "bytes":
        return f"r {rid} bytes {op[1]}"
    if k in ("fstr", "festr"):
        return f"r {rid} {k} {op[1]} {1 if op[2] else 0}"
    if k == "chunked":
        return f"r {rid} chunked {1 if op[1] else 0}"
    return f"r {rid} {k}"


def rop_apply(r, op):
    k = op[0]
    if k == "byte":
        return r.get_byte()
    if k == "bytes":
        return r.get_bytes(op[1])
    if k == "char":
        return r.get_char()
    if k == "short":
        return r.get_short()
    if k == "three":
        return r.get_three()
    if k == "int":
        return r.get_int()
    if k == "str":
        return r.get_string()
    if k == "fstr":
        return r.get_fixed_string(op[1], op[2])
    if k == "estr":
        return r.get_encoded_string()
    if k == "festr":
        return r.get_fixed_encoded_string(op[1], op[2])
    if k == "chunked":
        r.chunked_reading_mode = op[1]
        return None
    if k == "next":
        return r.next_chunk()
    raise ValueError(op)


def val_str(v) -> str:
    if v is None:
        return "N"
    if isinstance(v, bool):
        return f"i{int(v)}"
    if isinstance(v, int):
        return f"i{v}"
    if isinstance(v, (bytes, bytearray, memoryview)):
        return "y" + tohex(bytes(v))
    if isinstance(v, str):
        return "s" + cps(v)
    return "?" + type(v).__name__


def reader_state(r) -> str:
    return f"pos {r.position} rem {r.remaining} chunked {1 if r.chunked_reading_mode else 0}"


def rop_run(r, op, observe: bool = True) -> str:
    """one reader operation and the state after it.  With observe=False the `remaining` property is NOT read (reading it
    may itself change the reader: a lazily filled cache would be filled by the observer and hide what a client that
    never asks would see); the answer then carries `rem *`, which `same()` treats as a wildcard."""
    try:
        v = rop_apply(r, op)
        head = "ok " + val_str(v)
    except Exception as ex:  # noqa: BLE001
        head = "err " + common.exc_class(ex)
    if observe:
        return head + " " + reader_state(r)
    return head + f" pos {r.position} rem * chunked {1 if r.chunked_reading_mode else 0}"


_REM = re.compile(r" rem -?\d+ ")


def blind(ans: str) -> str:
    """the answer of the model / documented reader with the `remaining` count masked"""
    return _REM.sub(" rem * ", ans)


def same(a: str, b: str) -> bool:
    if a is None or b is None:
        return a == b
    if " rem * " in a:
        return a == blind(b)
    return a == b


def validate_cp1252(ctx) -> bool:
    """the model's codec table against CPython: every byte, every code point"""
    import zlib
    d = ctx.driver
    ans = d.ask([f"cp1252 dec {b}" for b in range(256)])
    for b, a in enumerate(ans):
        want = ord(bytes([b]).decode("windows-1252", "replace"))
        if a != f"ok {want}":
            ctx.violation("model-impl-disagree", f"cp1252 decode of byte {b}: CPython {want}, model {a}",
                          {"input": {"byte": b}, "correspondence": "Ansi.decodeByte vs CPython codec"}, found_input=False)
            return False
    step = 1 << 16
    lines = [f"cp1252 crc enc {lo} {min(lo + step, 0x110000)}" for lo in range(0, 0x110000, step)]
    ans = d.ask(lines)
    for i, a in enumerate(ans):
        lo, hi = i * step, min((i + 1) * step, 0x110000)
        crc = zlib.crc32(b"".join(chr(c).encode("windows-1252", "replace") for c in range(lo, hi)))
        if a != f"ok {crc}":
            for c in range(lo, hi):
                m = d.ask1(f"cp1252 enc {c}")
                w = chr(c).encode("windows-1252", "replace")
                if m != f"ok {w[0]}" or len(w) != 1:
                    ctx.violation("model-impl-disagree", f"cp1252 encode of U+{c:04X}: CPython {w!r}, model {m}",
                                  {"input": {"codepoint": c}, "correspondence": "Ansi.encodeCp vs CPython codec"}, found_input=False)
                    return False
    ctx.part("cp1252 codec table (all 256 bytes, all 1,114,112 code points)", 256 + 0x110000, True)
    return True
