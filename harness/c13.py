"""C13 — packet sequencer under any update history."""
from __future__ import annotations

import itertools

from . import common
from .common import Ctx

FILES = ["src/eolib/packet/packet_sequencer.py", "src/eolib/packet/sequence_start.py"]
RULE = ("every history of length <= 7 (thorough: <= 9) over {next, set(0), set(5), set(1756), set(-4)} from four initial starts (one negative), "
        "plus histories of 300 to 66,000 requests (no / sparse / frequent updates) and seeded random histories up to 200 operations with arbitrary start values and every SequenceStart subclass; "
        "each next_sequence() result is compared with the model and with the specification start_in_force + n mod 10. "
        "distinct = (length, number of updates, number of wrap-arounds)")
ASSUMPTIONS = []


def mods():
    common.load_eolib()
    return common.imp("eolib.packet.packet_sequencer"), common.imp("eolib.packet.sequence_start")


def mk_start(ss, rng, v):
    k = rng.randrange(4)
    if k == 0:
        return ss.AccountReplySequenceStart.from_value(v)
    if k == 1:
        s1 = rng.randrange(0, 253)
        return ss.InitSequenceStart(v, s1, v - 7 * s1 + 13)
    if k == 2:
        s2 = rng.randrange(0, 253)
        return ss.PingSequenceStart.from_ping_values(v + s2, s2)
    return ss.SimpleSequenceStart(v)


def run_history(ps, ss, rng, start, ops):
    seq = ps.PacketSequencer(mk_start(ss, rng, start))
    outs = []
    for op in ops:
        if op is None:
            outs.append(seq.next_sequence())
        else:
            r = seq.set_sequence_start(mk_start(ss, rng, op))
            outs.append(("set", r))
    return outs


def spec(start, ops):
    cur, n, outs = start, 0, []
    for op in ops:
        if op is None:
            outs.append(cur + n % 10)
            n += 1
        else:
            cur = op
            outs.append(("set", None))
    return outs


def lines_for(start, ops):
    return [f"sqr new {start}"] + ["sqr next" if op is None else f"sqr set {op}" for op in ops]


def histories(ctx: Ctx):
    depth = 9 if ctx.tier == "thorough" else 7
    # start values are arbitrary integers: the from-values constructors give negative ones for small components
    # (from_init_values(1, 2) = -4, from_ping_values(3, 9) = -6), and start + counter may cross zero in mid-cycle
    menu = [None, 0, 5, 1756, -4]
    for start in (0, 3, 1756, -13):
        for L in range(0, depth + 1):
            for ops in itertools.product(menu, repeat=L):
                yield start, list(ops), True
    # long unbroken runs (several wrap-arounds) with a single update at every position
    for start in (0, 77):
        for pos in range(0, 45):
            ops = [None] * 45
            ops[pos] = 9
            yield start, ops, True
    rng = ctx.rng
    # very long histories: a counter that is kept in some wider unit (a byte, 16 bits, ...) and reduced late only shows
    # after that unit wraps (256, 65,536 requests); with no, sparse and frequent updates
    for L in (300, 700, 1100, 4200, 66_000) + ((140_000,) if ctx.thorough else ()):
        for p in (0.0, 0.003, 0.1):
            ops = [rng.choice([0, 7, 1756, rng.randrange(0, 2000)]) if rng.random() < p else None for _ in range(L)]
            yield rng.choice([0, 3, 1756]), ops, False
    for _ in range(20_000 if ctx.thorough else 3_000):
        L = rng.randrange(1, 201)
        p = rng.choice([0.0, 0.05, 0.2, 0.5])
        ops = [rng.choice([0, 1, 252, 1756, rng.randrange(0, 2000), rng.randrange(-5, 10 ** 6), -1, -4, -9, -13, -rng.randrange(1, 2000)])
               if rng.random() < p else None for _ in range(L)]
        yield rng.choice([0, 1, 9, 10, 1756, rng.randrange(0, 10 ** 6), -1, -6, -13, -rng.randrange(1, 2000)]), ops, False


def run(ctx: Ctx):
    ps, ss = mods()
    d = ctx.driver
    rng = ctx.rng
    batch, lines = [], []
    n_exh = n_rand = 0

    def flush():
        nonlocal batch, lines
        ans = d.ask(lines)
        k = 0
        for start, ops, impl in batch:
            k += 1  # "sqr new"
            model = []
            for op in ops:
                a = ans[k]
                k += 1
                model.append(int(a.split()[1]) if op is None else ("set", None))
            sp = spec(start, ops)
            if impl != sp:
                i = next(i for i in range(len(ops)) if impl[i] != sp[i])
                ctx.violation("property-fails", f"history start={start} ops={show(ops[:i+1])}: operation {i} returned {impl[i]}, "
                              f"specification (start in force + n mod 10) gives {sp[i]}", {"input": {"start": start, "ops": ops[:i + 1]}})
                return False
            if impl != model:
                ctx.violation("model-impl-disagree", f"history start={start} ops={show(ops)}: impl {impl}, model {model}",
                              {"input": {"start": start, "ops": ops}, "correspondence": "Seq.Sequencer.step vs PacketSequencer",
                               "theorems_no_longer_tied": common.load_registry()["C13"]["theorems"]}, found_input=False)
                return False
        batch, lines = [], []
        return True

    for start, ops, exh in histories(ctx):
        try:
            impl = run_history(ps, ss, rng, start, ops)
        except Exception as ex:  # noqa: BLE001
            ctx.violation("property-fails", f"history start={start} ops={show(ops)} raised {type(ex).__name__}: {ex}",
                          {"input": {"start": start, "ops": ops}})
            return
        batch.append((start, ops, impl))
        lines += lines_for(start, ops)
        nx = sum(1 for o in ops if o is None)
        ctx.sig((min(len(ops), 12), min(len(ops) - nx, 6), nx // 10))
        if exh:
            n_exh += 1
        else:
            n_rand += 1
        if len(lines) > 100_000:
            if not flush():
                return
    if not flush():
        return
    ctx.part("exhaustive short histories + single-update long runs", n_exh, True)
    ctx.part("random histories <= 200 ops", n_rand, False)
    ctx.sample({"start": 5, "ops": ["next", "next", "set 100", "next"], "impl": run_history(ps, ss, rng, 5, [None, None, 100, None])})
    ctx.exhaustive = False


def show(ops):
    return ["next" if o is None else f"set({o})" for o in ops]


def oracle_sweep(ctx: Ctx) -> bool:
    ps, ss = mods()
    for start, ops, _ in histories(ctx):
        impl = run_history(ps, ss, ctx.rng, start, ops)
        if impl != spec(start, ops):
            ctx.violation("property-fails", f"history start={start} ops={show(ops)}: {impl} != {spec(start, ops)}",
                          {"input": {"start": start, "ops": ops}})
            return True
    return False


def replay(ctx: Ctx, doc: dict) -> int:
    ps, ss = mods()
    start, ops = doc["input"]["start"], doc["input"]["ops"]
    impl = run_history(ps, ss, ctx.rng, start, ops)
    sp = spec(start, ops)
    print(f"start={start} ops={show(ops)} impl={impl} spec={sp}")
    return 0 if impl == sp else 1
