"""Subprocess worker for C20: in a fresh interpreter import <first> then eolib and dump every eolib
module's namespace as name -> origin, plus attribute-path resolution of the documented modules.
usage: nsworker.py <src> <first|-> <json: {"defines": [[home, name]...], "paths": [dotted...]}>"""
import importlib
import json
import sys
import types


def main():
    src, first, spec = sys.argv[1], sys.argv[2], json.loads(sys.argv[3])
    sys.path.insert(0, src)
    out = {"error": None}
    try:
        if first != "-":
            importlib.import_module(first)
        import eolib  # noqa: F401
    except BaseException as ex:  # noqa: BLE001
        import traceback
        out["error"] = f"{type(ex).__name__}: {ex}"
        out["traceback"] = traceback.format_exc()[-1500:]
        print(json.dumps(out))
        return
    idmap = {}
    for home, name in sorted(map(tuple, spec["defines"])):
        m = sys.modules.get(home)
        if m is not None and name in vars(m):
            idmap.setdefault(id(vars(m)[name]), f"d:{home}:{name}")
    ns = {}
    for mn, m in sorted(sys.modules.items()):
        if not (mn == "eolib" or mn.startswith("eolib.")) or m is None:
            continue
        d = {}
        for k, v in vars(m).items():
            if k.startswith("__") and k.endswith("__"):
                continue
            if isinstance(v, types.ModuleType):
                d[k] = "m:" + v.__name__ if v.__name__.startswith("eolib") else "x"
            else:
                d[k] = idmap.get(id(v), "x")
        ns[mn] = d
    out["ns"] = ns
    paths = {}
    for p in spec["paths"]:
        segs = p.split(".")
        obj = sys.modules.get(segs[0])
        ok = True
        for s in segs[1:]:
            if not hasattr(obj, s):
                ok = False
                break
            obj = getattr(obj, s)
        paths[p] = ("m:" + obj.__name__ if isinstance(obj, types.ModuleType) else "other") if ok else "missing"
        if ok and obj is not sys.modules.get(p):
            paths[p] += " (not sys.modules[%s])" % p
    out["paths"] = paths
    print(json.dumps(out))


if __name__ == "__main__":
    main()
