"""Subprocess worker for C18: run the real generator under a given configuration and print a JSON
summary {"runs": [ {"error": str|None, "tree": {relpath: sha256}} ... ]}.

usage: genworker.py <repo> <input_dir> <output_base> <walk_seed|-> <plan>
plan: comma separated steps executed in this one interpreter:
  fresh        new generator object, new output directory
  again        same generator object, new output directory
  same         same generator object, same output directory (pre-populated by the previous step)
  failfirst    same generator object first pointed at a broken input (must raise), then a normal run"""
import contextlib
import hashlib
import io
import json
import os
import random
import sys
from pathlib import Path


def tree(out):
    res = {}
    for r, _, fs in os.walk(out):
        for fn in fs:
            p = os.path.join(r, fn)
            with open(p, "rb") as f:
                res[Path(os.path.relpath(p, out)).as_posix()] = hashlib.sha256(f.read()).hexdigest()
    return res


def main():
    repo, inp, outbase, walk_seed, plan = sys.argv[1:6]
    sys.path.insert(0, repo)
    if walk_seed != "-":
        rng = random.Random(int(walk_seed))
        real_walk = os.walk

        def walk(top, *a, **kw):
            for root, dirs, files in real_walk(top, *a, **kw):
                rng.shuffle(dirs)      # in-place: changes the order the walk descends in
                files = list(files)
                rng.shuffle(files)
                yield root, dirs, files
        os.walk = walk
    from protocol_code_generator.generate.code_generator import ProtocolCodeGenerator
    runs = []
    gen = None
    n = 0
    out = None
    for step in plan.split(","):
        if step == "fresh" or gen is None:
            gen = ProtocolCodeGenerator(Path(inp))
        if step in ("fresh", "again", "failfirst") or out is None:
            n += 1
            out = os.path.join(outbase, f"out{n}")
        err = None
        if step == "same" and out is not None and os.path.isdir(out):
            # pre-populated output directory: every existing file is longer than what will be written
            for r, _, fs in os.walk(out):
                for fn in fs:
                    with open(os.path.join(r, fn), "a", encoding="utf-8") as f:
                        f.write("\n# stale tail from an earlier, longer revision of this file\n" * 3)
        with contextlib.redirect_stdout(io.StringIO()):
            if step == "failfirst":
                broken = os.path.join(outbase, "broken_in")
                os.makedirs(broken, exist_ok=True)
                with open(os.path.join(broken, "protocol.xml"), "w") as f:
                    f.write("<protocol><struct name='Zq'><field name='a' type='NoSuchTypeZq'/></struct>"
                            "<enum name='ZqE' type='char'><value name='A'>1</value></enum></protocol>")
                saved = gen._input_root
                gen._input_root = Path(broken).as_posix()
                try:
                    gen.generate(Path(os.path.join(outbase, "broken_out")))
                    err = "broken input was accepted"
                except Exception:  # noqa: BLE001 - expected
                    pass
                gen._input_root = saved
            try:
                gen.generate(Path(out))
            except Exception as ex:  # noqa: BLE001
                err = (err + "; " if err else "") + f"{type(ex).__name__}: {ex}"
        runs.append({"step": step, "error": err, "tree": tree(out)})
    print(json.dumps({"runs": runs}))


if __name__ == "__main__":
    main()
