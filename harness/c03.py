"""C03 — see harness/genprops.py (run_c03) and DESIGN.md §3."""
from . import gencheck, genprops

FILES = gencheck.GEN_FILES
RULE = genprops.RULES["C03"]
ASSUMPTIONS = ["values are typed-or-None Python values of the declared field types", "specifications are NonDegenerate (DESIGN §3 C02)"]
run = genprops.run_c03
replay = genprops.replay_shown_then_rerun(genprops.run_c03)


def oracle_sweep(ctx):
    n0 = len(ctx.violations)
    run(ctx)
    return any(v["kind"] == "property-fails" for v in ctx.violations[n0:])
