"""Checks of the generator properties on the real generator + generated classes, against the model
(`execSer/execDe/construct ∘ compile`, correspondence) and against the property's own oracle."""
from __future__ import annotations

from . import common, genlib, specgen, gencheck, mutspec
from .common import Ctx
from .gencheck import Case, open_case, close_case, kwargs_line, classify

NSPEC = {"C01": (60, 600), "C02": (60, 600), "C03": (24, 300), "C15": (50, 500), "C16": (60, 600), "C19": (50, 500)}


def nspec(ctx: Ctx, prop: str) -> int:
    import os
    q, t = NSPEC[prop]
    if os.environ.get("VERIF_NSPEC"):
        return int(os.environ["VERIF_NSPEC"])
    if ctx.tier == "thorough":
        return t
    return 3 * q if ctx.escalated else q   # modelled sources changed since the pin: look harder, still "quick"


def disagree(ctx: Ctx, case: Case, what: str, detail: dict, corr: str, prop: str, key=None) -> bool:
    """Model and implementation differ on this input.  First pass: remember it and stop the sweep (returns
    True).  Oracle pass (the check re-runs the sweep with the model ignored, looking for an input on
    which the *property* fails): keep going (returns False)."""
    if getattr(ctx, "oracle_only", False):
        ctx.count("disagreements_seen_in_oracle_pass")
        return False
    ctx.deferred.append(("model-impl-disagree", what, dict(case.replay_doc(), **detail, correspondence=corr,
                        theorems_no_longer_tied=common.load_registry().get(prop, {}).get("theorems", [])), key))
    return True


def _effort(ctx: Ctx, n: int) -> int:
    """samples per class: four times as many in the pass that searches for a failing input after the tie broke"""
    n = n * getattr(ctx, "case_boost", 1)   # five-fold on a specification whose emitted text differs from the model's IR
    return 4 * n if getattr(ctx, "oracle_only", False) else n


def _sample(ctx: Ctx, case: Case, _key=None, **detail):
    """evidence samples of the generator properties: the first evaluation of up to two catalogue and three random
    specifications, written out (specification text, class, the input, what the real code answered)"""
    seen = ctx.__dict__.setdefault("_sampled_specs", {})
    tag = _key or case.tag
    if tag in seen:
        return
    kind = "catalogue" if case.flags.get("catalogue") else "random"
    if sum(1 for k in seen.values() if k == kind) >= (2 if kind == "catalogue" else 3):
        return
    seen[tag] = kind
    short = {k: (v[:400] + "…" if isinstance(v, str) and len(v) > 400 else v) for k, v in detail.items()}
    ctx.sample(dict({"specification": case.tag, "xml": {d: (x[:1200] + "…" if len(x) > 1200 else x) for d, x in case.xml().items()}}, **short))


def fails(ctx: Ctx, case: Case, what: str, detail: dict, key=None):
    ctx.violation("property-fails", what, dict(case.replay_doc(), **detail), key=key)


def construct_both(ctx, case, cname, kw):
    """constructor on both sides; returns (obj or None, real answer, model answer)"""
    cls = case.run.get_class(cname)
    real = genlib.do_new(cls, kw)
    model = ctx.driver.ask1(f"gen new {cname} {kwargs_line(kw)}")
    obj = None
    if real.startswith("ok"):
        obj = cls(**kw)
    return obj, real, model


# ============================================================================================
# C02 — wire format conformance
# ============================================================================================

def defaults_spelled_out(files):
    """the same specification with every boolean attribute default written explicitly"""
    def fix(x):
        attrs = list(x.attrs)
        have = {k for k, _ in attrs}
        add = []
        if x.tag in ("field", "array", "length") and "optional" not in have:
            add.append(("optional", "false"))
        if x.tag == "field" and "padded" not in have and x.get("length") is not None:
            add.append(("padded", "false"))
        if x.tag == "array":
            if "delimited" not in have:
                add.append(("delimited", "false"))
            if "trailing-delimiter" not in have:
                add.append(("trailing-delimiter", "true"))
        if x.tag == "case" and "default" not in have:
            add.append(("default", "false"))
        if x.tag == "length" and "offset" not in have:
            add.append(("offset", "0"))
        return x.replace(attrs=attrs + add, children=[fix(c) for c in x.children])
    return [(d, fix(r)) for d, r in files]


def _ir_sweep_stream(ctx: Ctx, n: int):
    """further random specifications for the structural tie alone (no values unless the emitted text differs from the model)"""
    for case in gencheck.spec_stream(ctx, n, catalogue=False):
        case.flags["ir_only"] = True
        case.tag = "ir-" + case.tag
        yield case


def run_c02(ctx: Ctx):
    import itertools
    import os
    rng = ctx.rng
    n_obj = n_spec = n_ir = 0
    n_sweep = int(os.environ.get("VERIF_IR_SWEEP", "2500" if ctx.tier == "thorough" else "160"))
    for case in itertools.chain(gencheck.spec_stream(ctx, nspec(ctx, "C02")), _ir_sweep_stream(ctx, n_sweep)):
        try:
            st = open_case(ctx, case, "C02")
            if st is False:
                return
            if st is None:
                continue
            if case.flags.get("ir_only"):
                # the structural tie alone: emitted text against compile's instruction lists; values only where they differ
                n_ir += 1
                if not getattr(case, "ir_differs", None):
                    continue
            n_spec += 1
            # metamorphic twin: boolean defaults spelled out -> byte-identical serialisations
            twin = Case(defaults_spelled_out(case.files), case.tag + "-explicit-defaults", case.flags)
            twin.run = genlib.GenRun(twin.files)
            try:
                if twin.run.error is not None:
                    fails(ctx, twin, f"{case.tag}: spelling the boolean attribute defaults explicitly makes the generator reject the "
                          f"specification: {twin.run.error}", {}, key="explicit-defaults")
                    if not ctx.known_match("explicit-defaults"):
                        return
                    twin_ok = False
                else:
                    twin_ok = True
                per_class = []
                for cname in case.info.classes():
                    ci = case.info.cls(cname)
                    for _ in range(_effort(ctx, 6 if (ctx.tier == "thorough") else 4)):
                        kw = ci.random_kwargs(rng, valid=True, lossless=False)
                        obj, real_new, model_new = construct_both(ctx, case, cname, kw)
                        if real_new.split()[0] != model_new.split()[0] or (obj is None and real_new != model_new):
                            if disagree(ctx, case, f"{cname}(**{kw!r}): impl `{real_new[:100]}`, model `{model_new[:100]}`",
                                     {"class": cname, "kwargs": kwargs_line(kw)}, "construct vs generated __init__", "C02"):
                                return
                        if obj is None:
                            # constructible objects are the quantifier; a valid value that cannot be constructed is a finding
                            fails(ctx, case, f"{cname}: valid constructor arguments are rejected: {real_new}",
                                  {"class": cname, "kwargs": kwargs_line(kw)}, key="construct:" + real_new.split()[1])
                            if not ctx.known_match("construct:" + real_new.split()[1]):
                                return
                            continue
                        if real_new != model_new:
                            if disagree(ctx, case, f"{cname} constructed object differs: impl `{real_new[:160]}`, model `{model_new[:160]}`",
                                     {"class": cname, "kwargs": kwargs_line(kw)}, "construct vs generated __init__", "C02"):
                                return
                        ro = genlib.render(obj)
                        if len(ro) > 400_000:
                            # hundreds of nested 64,008-character strings: minutes in the list-based model for one object
                            ctx.count("huge_object_not_compared")
                            continue
                        per_class.append((cname, kw))
                        for san in (False, True):
                            real = genlib.do_ser(case.run.get_class(cname), obj, san)
                            model, spec = ctx.driver.ask([f"gen ser {cname} {int(san)} {ro}", f"gen wire {cname} {int(san)} {ro}"])
                            n_obj += 1
                            ctx.sig((cname.__hash__() % 7, san, classify(real), len(real) // 16))
                            _sample(ctx, case, **{"class": cname, "object": ro, "sanitising": san, "impl": real, "model": model, "xml_reading": spec})
                            # oracle: exactly the bytes the XML prescribes
                            if real.startswith("ok"):
                                want = "ok " + real.split()[1]
                                if spec != want:
                                    fails(ctx, case, f"{cname} (sanitising={san}) serialises to {real.split()[1]}, the XML prescribes "
                                          f"{spec}", {"class": cname, "object": ro, "san": san, "impl": real, "xml_reading": spec})
                                    return
                            else:
                                cl = classify(real)
                                if cl != "refused" or spec != "refuse":
                                    key = "ser:" + cl
                                    fails(ctx, case, f"{cname} (sanitising={san}): serialising a constructible object gives `{real[:80]}`; the "
                                          f"XML prescribes `{spec[:80]}`", {"class": cname, "object": ro, "san": san, "impl": real, "xml_reading": spec}, key=key)
                                    if not ctx.known_match(key):
                                        return
                            if classify(real) != classify(model) or (real.startswith("ok") and real != model):
                                if disagree(ctx, case, f"{cname} serialize (sanitising={san}): impl `{real[:120]}`, model `{model[:120]}`",
                                         {"class": cname, "object": ro, "san": san}, "execSer∘compile vs generated serialize", "C02"):
                                    return
                    # packets report their declared family and action
                    meta = ctx.driver.ask1(f"gen meta {cname}")
                    pk = meta.split(" packet ")[1]
                    cls = case.run.get_class(cname)
                    if pk != "-":
                        fam, fo, act, ao = pk.split(":")
                        rf, ra = cls.family(), cls.action()
                        decl = declared_packet(case.files, cname)
                        if (rf.name, int(rf), ra.name, int(ra)) != (fam, int(fo), act, int(ao)):
                            if disagree(ctx, case, f"{cname}.family()/action() = {rf!r}/{ra!r}, model {pk}", {"class": cname},
                                     "packet family/action", "C02"):
                                return
                        if decl is not None and (_py(decl[0]), _py(decl[1])) != (rf.name, ra.name):
                            fails(ctx, case, f"{cname} was declared with family {decl[0]} action {decl[1]} but reports {rf.name}/{ra.name}",
                                  {"class": cname})
                            return
                if twin_ok:
                    twin.run.load()
                    for cname, kw in per_class:
                        a = case.run.get_class(cname)
                        # rebuild the object with the twin's classes from the rendered kwargs is not possible
                        # generically; compare emitted code instead: the serializers must be textually identical
                    for rel, data in case.run.file_tree.items():
                        if twin.run.file_tree.get(rel) != data:
                            fails(ctx, twin, f"{case.tag}: spelling boolean attribute defaults explicitly changes the generated file {rel}",
                                  {"file": rel}, key="explicit-defaults")
                            if not ctx.known_match("explicit-defaults"):
                                return
                            break
            finally:
                close_case(twin)
        finally:
            close_case(case)
    ctx.part("specifications x classes x constructible objects x both modes (three-way: real, model, XML reading)", n_obj, False,
             f"{n_spec} accepted specifications")
    hd = ctx.hist
    ctx.part("structural tie: emitted serialize / deserialize / __init__ / enum modules / packet ids against compile's instruction lists",
             hd.get("ir_tie.classes_equal", 0) + hd.get("ir_tie.classes_differing", 0) + hd.get("ir_tie.classes_unrecognised", 0), False,
             f"{n_ir} further specifications compared structurally only; classes equal {hd.get('ir_tie.classes_equal', 0)}, differing "
             f"{hd.get('ir_tie.classes_differing', 0)}, unrecognised {hd.get('ir_tie.classes_unrecognised', 0)}")


def _py(n):
    return "None_" if n == "None" else n


def declared_packet(files, cname):
    for d, root in files:
        for p in root.find_all("packet"):
            suffix = {"net/client": "ClientPacket", "net/server": "ServerPacket"}.get(d)
            if suffix and p.get("family") + p.get("action") + suffix == cname:
                return p.get("family"), p.get("action")
    return None


# ============================================================================================
# generic replay for generator properties
# ============================================================================================

def replay_by_rerun(run_fn):
    """replay = the property's own sweep, run on the recorded specification only (same flags, rng seeded from the record);
    exit 1 iff a violation or a model/implementation disagreement shows again"""
    def replay(ctx: Ctx, doc: dict) -> int:
        import random
        files = gencheck.files_from_doc(doc)
        flags = doc.get("flags") if isinstance(doc.get("flags"), dict) else {}
        ctx.replaying = True
        ctx.replay_hits = []
        ctx.tier = doc.get("tier", ctx.tier)
        orig = gencheck.spec_stream

        def only(_ctx, _n, **_kw):
            yield Case(files, doc.get("tag", "replay"), dict(flags))
        gencheck.spec_stream = only
        try:
            for attempt in range(4):   # the sweep draws objects at random: a few independent draws
                ctx.rng = random.Random(int(doc.get("seed", 0) or 0) * 7919 + attempt)
                ctx.deferred = []
                run_fn(ctx)
                if ctx.replay_hits or ctx.deferred:
                    break
        finally:
            gencheck.spec_stream = orig
        for d in ctx.deferred:
            print(f"  reproduced: {d[0]}: {d[1][:400]}")
        if not (ctx.replay_hits or ctx.deferred):
            print("  not reproduced on this tree: the recorded specification passes the property's sweep")
        return 1 if (ctx.replay_hits or ctx.deferred) else 0
    return replay


def replay_shown_then_rerun(run_fn):
    """print what the recorded object / bytes give now (informative), then decide by re-running the sweep on the recorded
    specification: objects are drawn through the public constructors, so an object that only the changed code could build is
    not held against the unchanged tree"""
    rerun = replay_by_rerun(run_fn)

    def replay(ctx: Ctx, doc: dict) -> int:
        try:
            replay_generic(ctx, doc)
        except Exception as ex:  # noqa: BLE001
            print("  (exact replay not possible:", repr(ex)[:160], ")")
        return rerun(ctx, doc)
    return replay


def replay_c17(ctx: Ctx, doc: dict) -> int:
    """the recorded (edited) specification: acceptance by the real generator, by the model, verdict of the declarative rules"""
    files = gencheck.files_from_doc(doc)
    run = genlib.GenRun(files)
    try:
        model = ctx.driver.ask1("gen load " + run.forest)
        bad = _wf_rejections(ctx.driver.ask1("gen wf"))
        real_rejects = run.error is not None
        print("real generator:", f"rejects: {run.error!r}" if real_rejects else "accepts")
        print("model:", model[:160])
        print("declarative rules reject:", bad or "nothing", "| catalogue rule:", doc.get("rule"), doc.get("placement"), doc.get("edit"))
        ill = bool(bad) or bool(doc.get("rule"))
        if ill and not real_rejects:
            print("  reproduced: an ill-formed specification is accepted by the generator")
            return 1
        if real_rejects != model.startswith("err"):
            print("  reproduced: real generator and model disagree on acceptance")
            return 1
        return 0
    finally:
        run.cleanup()


def replay_generic(ctx: Ctx, doc: dict) -> int:
    files = gencheck.files_from_doc(doc)
    case = Case(files, doc.get("tag", "replay"), doc.get("flags", {}))
    case.run = genlib.GenRun(files)
    try:
        model = ctx.driver.ask1("gen load " + case.run.forest)
        print("real generator:", "accepts" if case.run.error is None else f"rejects: {case.run.error!r}")
        print("model:", model[:200])
        if case.run.error is not None:
            return 1 if model.startswith("ok") else 0
        case.run.load()
        cname = doc.get("class")
        bad = 0
        if cname and "object" in doc:
            print("object:", doc["object"][:300])
            for k in ("impl", "spec", "model"):
                if k in doc:
                    print(f"recorded {k}:", str(doc[k])[:200])
            san = int(bool(doc.get("san", False)))
            m, s = ctx.driver.ask([f"gen ser {cname} {san} {doc['object']}", f"gen wire {cname} {san} {doc['object']}"])
            print("model now:", m[:200])
            print("XML reading now:", s[:200])
            try:
                o = genlib.unrender(case.run, doc["object"])
                real = genlib.do_ser(case.run.get_class(cname), o, bool(san))
                print("impl now:", real[:200])
                if real.startswith("ok ") and s.startswith("ok ") and real.split(" ")[1] != s.split(" ")[1]:
                    print("  the generated serializer does not write what the XML prescribes")
                    bad = 1
                if real != m:
                    print("  model and generated code disagree")
                    bad = 1
            except Exception as ex:  # noqa: BLE001
                print("impl now: could not rebuild the object:", repr(ex)[:200])
        if cname and "bytes" in doc:
            data = bytes.fromhex(doc["bytes"]) if doc["bytes"] != "-" else b""
            ch = bool(doc.get("chunked", False))
            real = genlib.do_de(case.run.get_class(cname), data, ch)
            m, s = ctx.driver.ask([f"gen de {cname} {int(ch)} {doc['bytes']}", f"gen rspec {cname} {int(ch)} {doc['bytes']}"])
            print("impl:", real[:300])
            print("model:", m[:300])
            print("XML reading:", s[:300])
            bad = bad or real != m
        return 1 if bad else 0
    finally:
        close_case(case)


# ============================================================================================
# C03 — deserializers on truncated / hostile bytes
# ============================================================================================

def valid_serialisations(ctx, case, cname, n, lossless=False, refusals=False):
    """valid objects with their serialisations; with refusals=True an object the serializer refuses is returned with the
    exception in place of the bytes (C01: a valid value must serialise)"""
    cls = case.run.get_class(cname)
    ci = case.info.cls(cname)
    out = []
    for _ in range(n):
        try:
            obj = cls(**ci.random_kwargs(ctx.rng, valid=True, lossless=lossless))
        except Exception:  # noqa: BLE001 - constructibility is C02's business
            continue
        try:
            out.append((obj, genlib.ser_bytes(cls, obj, False)))
        except Exception as ex:  # noqa: BLE001
            if refusals:
                out.append((obj, ex))
    return out


def _has_optional_length(info, cname) -> bool:
    def walk(body):
        for it in body.items:
            if it.k == "length" and it.optional:
                return True
            for c in getattr(it, "cases", []) or []:
                if c.body is not None and walk(c.body):
                    return True
        return False
    try:
        return walk(info.bodies[cname])
    except Exception:  # noqa: BLE001
        return False


def run_c03(ctx: Ctx, avoid_known_bugs=True):
    rng = ctx.rng
    n_in = n_spec = 0
    for case in gencheck.spec_stream(ctx, nspec(ctx, "C03"), avoid_known_bugs=avoid_known_bugs):
        try:
            st = open_case(ctx, case, "C03")
            if st is False:
                return
            if st is None:
                continue
            n_spec += 1
            for cname in case.info.classes():
                cls = case.run.get_class(cname)
                sers = [b for _, b in valid_serialisations(ctx, case, cname, 2)]
                inputs = specgen.random_bytes(rng, sers, cap_prefixes=14 if not (ctx.tier == "thorough") else 40)
                reals = {}
                lines = []
                for data in inputs:
                    h = common.tohex(data)
                    for ch in (0, 1):
                        real = genlib.do_de(cls, data, bool(ch), timeout=0.5)
                        reals[(data, bool(ch))] = real
                        if real.startswith("err Diverges") or len(real) > 6000:
                            continue  # never hand the (list-based, quadratic) model an input the real code does not finish on / a huge array
                        lines += [f"gen de {cname} {ch} {h}", f"gen rspec {cname} {ch} {h}"]
                ans = ctx.driver.ask(lines)
                k = 0
                for data in inputs:
                    for ch in (False, True):
                        real = reals[(data, ch)]
                        n_in += 1
                        if real.startswith("err Diverges"):
                            key = "de:Diverges"
                            fails(ctx, case, f"{cname}.deserialize({common.tohex(data)}, chunked={ch}) did not finish within 0.5 s "
                                  "(a length read from the wire drives the loop count)", {"class": cname, "bytes": common.tohex(data), "chunked": ch}, key=key)
                            if not ctx.known_match(key):
                                return
                            continue
                        if len(real) > 6000:
                            ctx.count("c03.large_result_not_compared")
                            continue
                        model, spec = ans[k], ans[k + 1]
                        k += 2
                        head = real.split()[0] + (real.split()[1] if real.startswith("err") else "")
                        ctx.sig((hash(cname) % 5, ch, head, min(len(data), 6), data[-1:] in (b"\xff", b"\xfe", b"\x00")))
                        detail = {"class": cname, "bytes": common.tohex(data), "chunked": ch, "impl": real, "model": model, "xml_reading": spec}
                        if len(data) >= 2:
                            _sample(ctx, case, **detail)
                        # oracle: exactly the object the reading rules prescribe; only the documented ValueError
                        if real.startswith("ok"):
                            if spec.startswith("ok") and strip_mode(spec) != strip_mode(real):
                                fails(ctx, case, f"{cname}.deserialize({common.tohex(data)}, chunked={ch}) = `{real[:160]}`, the reading rules "
                                      f"prescribe `{spec[:160]}`", detail)
                                return
                            if not spec.startswith("ok"):
                                fails(ctx, case, f"{cname}.deserialize({common.tohex(data)}) returned an object, the reading rules give {spec}", detail)
                                return
                            if not real.endswith(f"chunked {int(ch)}"):
                                fails(ctx, case, f"{cname}.deserialize changed the reader's chunked mode", detail)
                                return
                        else:
                            e = real.split()[1]
                            if e != "ValueError" or spec != "err ValueError":
                                key = "de:" + e
                                if e == "TypeError" and _has_optional_length(case.info, cname):
                                    # an absent optional <length> used as the count / size of a later item (only possible
                                    # across a <break/>): recorded finding, see known_findings.json
                                    key = "de:TypeError:optional-length-absent"
                                fails(ctx, case, f"{cname}.deserialize({common.tohex(data)}, chunked={ch}) raised {e}; the reading rules give "
                                      f"`{spec[:120]}`", detail, key=key)
                                if not ctx.known_match(key):
                                    return
                        if real != model:
                            if disagree(ctx, case, f"{cname}.deserialize({common.tohex(data)}, chunked={ch}): impl `{real[:140]}`, model `{model[:140]}`",
                                     detail, "execDe∘compile vs generated deserialize", "C03"):
                                return
        finally:
            close_case(case)
    ctx.part("specifications x classes x byte strings (valid, every prefix, mutated, extended, random) x both entry modes", n_in, False,
             f"{n_spec} accepted specifications")


def strip_mode(ans: str) -> str:
    return ans


def _with_alarm(fn, seconds):
    import signal

    def boom(*a):
        raise TimeoutError(f"did not finish within {seconds} s")
    old = signal.signal(signal.SIGALRM, boom)
    signal.setitimer(signal.ITIMER_REAL, seconds)
    try:
        return fn()
    finally:
        signal.setitimer(signal.ITIMER_REAL, 0)
        signal.signal(signal.SIGALRM, old)


# ============================================================================================
# C01 — round trip
# ============================================================================================

def run_c01(ctx: Ctx):
    rng = ctx.rng
    n_obj = n_spec = 0
    for case in gencheck.spec_stream(ctx, nspec(ctx, "C01"), safe_ratio=1.0):
        try:
            st = open_case(ctx, case, "C01")
            if st is False:
                return
            if st is None:
                continue
            n_spec += 1
            for cname in case.info.classes():
                cls = case.run.get_class(cname)
                for obj, data in valid_serialisations(ctx, case, cname, _effort(ctx, 6 if (ctx.tier == "thorough") else 4), lossless=True,
                                                      refusals=True):
                    n_obj += 1
                    ro = genlib.render(obj)
                    if isinstance(data, Exception):
                        # a valid value the serializer refuses: inside the theorem's domain (where the model serializer
                        # accepts it, `model_serialize_refuses_iff`) that is a failed round trip
                        dom0, ms0 = ctx.driver.ask([f"gen rtdomain {cname} {ro.rsplit(' ', 1)[0]} 0", f"gen ser {cname} 0 {ro}"])
                        if dom0 == "ok unambiguous 1 rtvalue 1" and ms0.startswith("ok "):
                            fails(ctx, case, f"{cname}: serialising the valid object {ro[:200]} raised {type(data).__name__}: {data}",
                                  {"class": cname, "object": ro, "error": f"{type(data).__name__}: {data}"})
                            return
                        ctx.count("outside_theorem_domain.serialize_refuses")
                        continue
                    reader = case.run.EoReader(data)
                    try:
                        back = _with_alarm(lambda: cls.deserialize(reader), 2.0)
                    except Exception as ex:  # noqa: BLE001
                        dom0 = ctx.driver.ask([f"gen rtdomain {cname} {ro.rsplit(' ', 1)[0]} 0"])[0]
                        if dom0.startswith("ok ") and dom0 != "ok unambiguous 1 rtvalue 1":
                            ctx.count("outside_theorem_domain.deserialize_raises")   # a fault of the sampler, see below
                            continue
                        fails(ctx, case, f"{cname}: deserialising its own serialisation {common.tohex(data)} raised {type(ex).__name__}: {ex}",
                              {"class": cname, "object": ro, "bytes": common.tohex(data)})
                        return
                    rb = genlib.render(back)
                    want = ro.rsplit(" ", 1)[0] + f" {len(data)}"
                    ctx.sig((hash(cname) % 7, len(data) // 8, ro.count(" O "), " N" in ro))
                    _sample(ctx, case, **{"class": cname, "object": ro, "bytes": common.tohex(data), "deserialised": rb, "remaining": reader.remaining,
                                          "byte_size": back.byte_size})
                    if genlib.render_nosize(back) != genlib.render_nosize(obj) or reader.remaining != 0 or reader.position != len(data) \
                            or back.byte_size != len(data):
                        # The generator of "wire-unambiguous" specifications is ours and may be wrong; the property's
                        # domain is the one the theorem `spec_roundtrip` is stated over.  A pair outside it that does
                        # not round-trip is a fault of the sampler, not of the code: counted, never an alarm.
                        dom0 = ctx.driver.ask([f"gen rtdomain {cname} {ro.rsplit(' ', 1)[0]} 0"])[0]
                        if dom0.startswith("ok ") and dom0 != "ok unambiguous 1 rtvalue 1":
                            ctx.count("outside_theorem_domain.roundtrip_differs")
                            continue
                        fails(ctx, case, f"{cname}: round trip of {ro[:200]} through {common.tohex(data)} gives {rb[:200]} "
                              f"(remaining {reader.remaining}, byte_size {back.byte_size}, {len(data)} bytes written)",
                              {"class": cname, "object": ro, "bytes": common.tohex(data), "back": rb})
                        return
                    ms, md, dom = ctx.driver.ask([f"gen ser {cname} 0 {ro}", f"gen de {cname} 0 {common.tohex(data)}",
                                                  f"gen rtdomain {cname} {rb.rsplit(' ', 1)[0]} 0"])
                    # how much of what is explored lies inside the domain of the proved theorem `spec_roundtrip`
                    ctx.count("theorem_domain." + dom.replace("ok ", "").replace(" ", "_"))
                    if ms != f"ok {common.tohex(data)} san 0" or md != f"ok {rb} pos {len(data)} chunked 0":
                        if disagree(ctx, case, f"{cname} round trip: model serialize `{ms[:120]}` / deserialize `{md[:160]}`, impl bytes "
                                 f"{common.tohex(data)} / object {rb[:160]}", {"class": cname, "object": ro, "bytes": common.tohex(data)},
                                 "execSer/execDe∘compile vs generated code (round trip)", "C01"):
                            return
        finally:
            close_case(case)
    ctx.part("wire-unambiguous specifications x classes x lossless valid values (serialize, deserialize, compare)", n_obj, False,
             f"{n_spec} accepted specifications")


# ============================================================================================
# C15 — modes restored
# ============================================================================================

class Boom(Exception):
    pass


_W_NAMES = ("add_byte", "add_bytes", "add_char", "add_short", "add_three", "add_int", "add_string", "add_fixed_string",
            "add_encoded_string", "add_fixed_encoded_string")
_R_NAMES = ("get_byte", "get_bytes", "get_char", "get_short", "get_three", "get_int", "get_string", "get_fixed_string",
            "get_encoded_string", "get_fixed_encoded_string", "next_chunk")


def _proxy_class(base, names):
    """subclass whose instance raises Boom at its `fail_at`-th call of any of `names`"""
    def wrap(name):
        orig = getattr(base, name)

        def f(self, *a, **kw):
            self._calls += 1
            if self._calls == self._fail_at:
                raise Boom(name)
            return orig(self, *a, **kw)
        return f
    return type("Failing" + base.__name__, (base,), dict({n: wrap(n) for n in names}, _calls=0, _fail_at=0))


def failing_writer(run, k):
    if not hasattr(run, "_FW"):
        run._FW = _proxy_class(run.EoWriter, _W_NAMES)
    w = run._FW()
    w._fail_at = k
    return w


def failing_reader(run, data, k):
    if not hasattr(run, "_FR"):
        run._FR = _proxy_class(run.EoReader, _R_NAMES)
    r = run._FR(data)
    r._fail_at = k
    return r


def _generated_classes(run):
    """every generated struct / packet / case-data class of a loaded run (nested classes included)"""
    out, todo = [], [c for c in run.classes.values() if isinstance(c.__dict__.get("serialize"), staticmethod)]
    while todo:
        c = todo.pop()
        if c in out:
            continue
        out.append(c)
        todo += [v for v in vars(c).values() if isinstance(v, type) and isinstance(v.__dict__.get("serialize"), staticmethod)]
    return out


def _expected_nested_modes(info, cname):
    """the "consequently" clause of C15, read off the XML alone: a struct / case-data class called *directly* from `cname`'s
    serialize or deserialize (entered with the mode off) is entered with the mode on iff its item lies inside a <chunked>
    section of `cname`.  Classes used both inside and outside a section are left out.  -> {qualified class name: bool}"""
    want: dict = {}
    for it in info.bodies[cname].items:
        names = []
        if it.k in ("field", "array") and it.t is not None and it.t.kind == "struct":
            names.append(it.t.name)
        if it.k == "switch":
            names += [c.body.cname for c in it.cases if c.body is not None]
        for nm in names:
            want.setdefault(nm, set()).add(bool(it.chunked))
    return {k: next(iter(v)) for k, v in want.items() if len(v) == 1}


def nested_entry_modes(run, cls, call):
    """run `call()` with every generated serialize / deserialize wrapped; -> [(method, callee qualname, mode at entry)] for
    the calls made directly by `cls`'s own method"""
    seen, depth, saved = [], [0], []
    for c in _generated_classes(run):
        for meth, attr in (("serialize", "string_sanitization_mode"), ("deserialize", "chunked_reading_mode")):
            orig = c.__dict__[meth]

            def wrapper(*a, __f=orig.__func__, __c=c, __m=meth, __attr=attr):
                io = a[0]
                if depth[0] == 1:
                    seen.append((__m, __c.__qualname__, bool(getattr(io, __attr))))
                depth[0] += 1
                try:
                    return __f(*a)
                finally:
                    depth[0] -= 1
            saved.append((c, meth, orig))
            setattr(c, meth, staticmethod(wrapper))
    try:
        call()
    except BaseException as e:  # noqa: BLE001 - only the entry modes are of interest here (incl. the time limit)
        if isinstance(e, KeyboardInterrupt):
            raise
    finally:
        for c, meth, orig in saved:
            setattr(c, meth, orig)
    return seen


def run_c15(ctx: Ctx):
    rng = ctx.rng
    n = n_spec = 0
    for case in gencheck.spec_stream(ctx, nspec(ctx, "C15")):
        try:
            st = open_case(ctx, case, "C15")
            if st is False:
                return
            if st is None:
                continue
            n_spec += 1
            names = case.info.all_class_names() if hasattr(case.info, "all_class_names") else case.info.classes()
            for cname in case.info.classes():
                cls = case.run.get_class(cname)
                ci = case.info.cls(cname)
                objs = []
                for valid in (True, False, False):
                    try:
                        r = ci.random_kwargs(rng, valid=valid)
                        kw = r if valid else r[0]
                        objs.append((cls(**kw), valid))
                    except Exception:  # noqa: BLE001
                        continue
                # nested generated instances (struct values, case data) are entry points of their own
                nested = []

                def walk(v, depth=0):
                    if depth > 6:
                        return
                    if genlib.is_generated_instance(v):
                        if depth > 0:
                            nested.append(v)
                        for k in type(v).__annotations__:
                            if k != "_byte_size":
                                walk(getattr(v, k, None), depth + 1)
                    elif isinstance(v, (tuple, list)):
                        for x in v[:3]:
                            walk(x, depth + 1)
                for o, _ in objs:
                    walk(o)
                for sub in nested[:12]:
                    scls = type(sub)
                    sname = scls.__qualname__
                    rs = genlib.render(sub)
                    for san in (False, True):
                        real = genlib.do_ser(scls, sub, san)
                        n += 1
                        ctx.sig(("ser-nested", san, classify(real), "." in sname))
                        if not real.endswith(f"san {int(san)}"):
                            fails(ctx, case, f"{sname}.serialize (nested class called directly) left the sanitisation mode changed "
                                  f"(entry {san}): `{real[-40:]}`", {"class": sname, "object": rs, "san": san, "impl": real})
                            return
                        model = ctx.driver.ask1(f"gen ser {sname} {int(san)} {rs}")
                        if model.split()[-1] != real.split()[-1] or classify(model) != classify(real):
                            if disagree(ctx, case, f"{sname}.serialize (entry mode {san}): impl `{real[:100]}`, model `{model[:100]}`",
                                        {"class": sname, "object": rs, "san": san}, "mode after execSer (nested class)", "C15"):
                                return
                        if real.startswith("ok"):
                            data = bytes.fromhex(real.split()[1]) if real.split()[1] != "-" else b""
                            for ch in (False, True):
                                rd = genlib.do_de(scls, data, ch, timeout=0.5)
                                n += 1
                                if rd.startswith("err RuntimeError"):
                                    continue   # a case body with <break> read outside chunked mode: not an entry point of the property
                                if not rd.endswith(f"chunked {int(ch)}"):
                                    fails(ctx, case, f"{sname}.deserialize (nested class called directly) left the chunked mode changed "
                                          f"(entry {ch}): `{rd[-40:]}`", {"class": sname, "bytes": common.tohex(data), "chunked": ch, "impl": rd})
                                    return
                # the "consequently" clause, judged against the XML alone: entered with the mode off, `cname` calls the structs
                # and case-data classes of its chunked sections with the mode on, all the others with the mode off
                want = _expected_nested_modes(case.info, cname)
                for obj, valid in objs:
                    if not valid or not want:
                        continue
                    EoWriter, _ = genlib._mods()
                    w = EoWriter()
                    seen = nested_entry_modes(case.run, cls, lambda: cls.serialize(w, obj))
                    data = bytes(w.to_bytearray())
                    # (under the time limit every deserialisation of the harness runs under: known finding de:Diverges)
                    seen += nested_entry_modes(case.run, cls, lambda: genlib.de_obj(cls, data, False, timeout=0.5))
                    # one evaluation per distinct (method, callee, entry mode) of this object: an array of a thousand items (or a
                    # deserialisation that loops over zero-byte items until the time limit: known finding de:Diverges) enters the
                    # same class a thousand times; every call is judged, the repeats are not counted as work
                    n += len(set(seen))
                    for meth, callee, mode in seen:
                        if callee in want and mode != want[callee]:
                            ctx.sig(("nested-entry", meth, mode))
                            fails(ctx, case, f"{cname}.{meth} (entered with the mode off) enters {callee}.{meth} with the mode "
                                  f"{'on' if mode else 'off'}, but {callee} lies {'inside' if want[callee] else 'outside'} the chunked "
                                  f"sections of {cname}", {"class": cname, "object": genlib.render(obj), "callee": callee, "method": meth})
                            return
                    ctx.count("nested_entry_modes_checked", len(set(seen)))
                    ctx.count("nested_calls_observed_bucket." + ("1-9" if len(seen) < 10 else "10-999" if len(seen) < 1000 else "1000+"))
                for obj, valid in objs:
                    ro = genlib.render(obj)
                    for san in (False, True):
                        real = genlib.do_ser(cls, obj, san)
                        n += 1
                        ctx.sig(("ser", san, valid, classify(real)))
                        _sample(ctx, case, **{"class": cname, "object": ro, "entry_mode": san, "valid": valid, "impl": real})
                        if not real.endswith(f"san {int(san)}"):
                            fails(ctx, case, f"{cname}.serialize left the writer's sanitisation mode changed (entry {san}): `{real[-40:]}`",
                                  {"class": cname, "object": ro, "san": san, "impl": real})
                            return
                        model = ctx.driver.ask1(f"gen ser {cname} {int(san)} {ro}")
                        # the mode after the call, and - the "consequently" clause: what is sanitised is exactly what lies in a
                        # chunked section - the bytes written under the modes in force during the call
                        if model.split()[-1] != real.split()[-1] or classify(model) != classify(real) or \
                                (valid and real.startswith("ok") and model.startswith("ok") and len(real) < 6000 and model != real):
                            if disagree(ctx, case, f"{cname}.serialize (entry mode {san}): impl `{real[:100]}`, model `{model[:100]}`",
                                     {"class": cname, "object": ro, "san": san}, "mode after execSer / bytes under the modes in force vs generated serialize", "C15"):
                                return
                        # failing writer: raise at the k-th write call
                        for k in (1, 2, 4, 7):
                            w = failing_writer(case.run, k)
                            w.string_sanitization_mode = san
                            try:
                                cls.serialize(w, obj)
                            except Exception:  # noqa: BLE001
                                pass
                            n += 1
                            ctx.sig(("ser-fault", san, k))
                            if w.string_sanitization_mode != san:
                                fails(ctx, case, f"{cname}.serialize with a writer failing at call {k} left the sanitisation mode "
                                      f"{w.string_sanitization_mode} (entry {san})", {"class": cname, "object": ro, "san": san, "fail_at": k})
                                return
                    if valid:
                        try:
                            data = genlib.ser_bytes(cls, obj, False)
                        except Exception:  # noqa: BLE001
                            continue
                        cuts = sorted({len(data), len(data) // 2})
                        for cut in cuts:
                            for ch in (False, True):
                                real = genlib.do_de(cls, data[:cut], ch, timeout=0.5)
                                n += 1
                                ctx.sig(("de", ch, real.split()[0], cut == len(data)))
                                if not real.endswith(f"chunked {int(ch)}"):
                                    fails(ctx, case, f"{cname}.deserialize left the reader's chunked mode changed (entry {ch}): `{real[-40:]}`",
                                          {"class": cname, "bytes": common.tohex(data[:cut]), "chunked": ch, "impl": real})
                                    return
                                if len(real) > 6000 or real.startswith("err Diverges"):
                                    continue  # huge loop count from a truncated length: the list-based model is quadratic there
                                model = ctx.driver.ask1(f"gen de {cname} {int(ch)} {common.tohex(data[:cut])}")
                                if model.split()[-1] != real.split()[-1]:
                                    if disagree(ctx, case, f"{cname}.deserialize (entry mode {ch}): impl `{real[-60:]}`, model `{model[-60:]}`",
                                             {"class": cname, "bytes": common.tohex(data[:cut]), "chunked": ch}, "mode after execDe", "C15"):
                                        return
                                for k in (1, 3, 6):
                                    r = failing_reader(case.run, data[:cut], k)
                                    r.chunked_reading_mode = ch
                                    try:
                                        cls.deserialize(r)
                                    except Exception:  # noqa: BLE001
                                        pass
                                    n += 1
                                    if r.chunked_reading_mode != ch:
                                        fails(ctx, case, f"{cname}.deserialize with a reader failing at call {k} left chunked mode "
                                              f"{r.chunked_reading_mode} (entry {ch})", {"class": cname, "bytes": common.tohex(data[:cut]),
                                              "chunked": ch, "fail_at": k})
                                        return
        finally:
            close_case(case)
    ctx.part("specifications x classes x (valid | one-fault values | failing writer/reader at call k) x both entry modes", n, False,
             f"{n_spec} accepted specifications")


# ============================================================================================
# C16 — invalid objects are refused
# ============================================================================================

def run_c16(ctx: Ctx):
    rng = ctx.rng
    n = n_spec = 0
    for case in gencheck.spec_stream(ctx, nspec(ctx, "C16")):
        try:
            st = open_case(ctx, case, "C16")
            if st is False:
                return
            if st is None:
                continue
            n_spec += 1
            for cname in case.info.classes():
                cls = case.run.get_class(cname)
                ci = case.info.cls(cname)
                for _ in range(_effort(ctx, 10 if (ctx.tier == "thorough") else 6)):
                    try:
                        kw, what = ci.random_kwargs(rng, valid=False)
                    except Exception:  # noqa: BLE001
                        continue
                    if what == "none-possible":
                        continue
                    try:
                        obj = cls(**kw)
                    except Exception:  # noqa: BLE001 - refused even earlier, by the constructor
                        ctx.count("violation.refused_by_constructor")
                        continue
                    ro = genlib.render(obj)
                    real = genlib.do_ser(cls, obj, False)
                    model = ctx.driver.ask1(f"gen ser {cname} 0 {ro}")
                    n += 1
                    kind = violation_kind(what)
                    ctx.count("violation." + kind)
                    ctx.sig((kind, classify(real), hash(cname) % 5))
                    _sample(ctx, case, **{"class": cname, "object": ro, "fault": what, "impl": real, "model": model})
                    if classify(real) != "refused":
                        key = "unrefused:" + kind
                        fails(ctx, case, f"{cname}: object violating its declaration ({what}) was not refused: `{real[:100]}`",
                              {"class": cname, "object": ro, "violation": what, "impl": real}, key=key)
                        if not ctx.known_match(key):
                            return
                    if classify(real) != classify(model):
                        if disagree(ctx, case, f"{cname} ({what}): impl `{real[:100]}`, model `{model[:100]}`",
                                 {"class": cname, "object": ro, "violation": what}, "execSer refusal vs generated serialize", "C16"):
                            return
        finally:
            close_case(case)
    ctx.part("specifications x classes x one declaration-violating change", n, False, f"{n_spec} accepted specifications")


def violation_kind(what: str) -> str:
    d = what.split(": ", 1)[1] if ": " in what else what
    if d.startswith("case data"):
        return "case-data-for-" + ("no-match" if d.endswith("no match") else "default" if d.endswith("default") else "other-case")
    if "required field None" in d:
        return "required-field-none"
    if "required array None" in d:
        return "required-array-none"
    if "out of range" in d:
        return "enum-out-of-range" if d.startswith("enum ") else "int-out-of-range"
    if "over length-field limit" in d:
        return ("string" if d.startswith("string") else "array") + "-over-length-field-limit"
    if d.startswith("string length"):
        return "string-length-" + ("padded" if "padded" in d else "fixed")
    if d.startswith("array length"):
        return "array-length-fixed"
    return d.split(" ")[0]


# ============================================================================================
# C19 — immutable snapshots
# ============================================================================================

def _iterable_kinds(val):
    """mutable (and one immutable non-tuple) iterables able to hold the elements of `val`"""
    import array
    import collections
    yield "list", list
    yield "list_subclass", type("CallerList", (list,), {})
    yield "deque", collections.deque
    if all(type(x) is int and 0 <= x < 256 for x in val):
        yield "bytearray", bytearray
        yield "bytes", bytes
    if all(type(x) is int and -2**63 <= x < 2**63 for x in val):
        yield "array", lambda v: array.array("q", v)


def run_c19(ctx: Ctx):
    rng = ctx.rng
    n = n_spec = 0
    for case in gencheck.spec_stream(ctx, nspec(ctx, "C19")):
        try:
            st = open_case(ctx, case, "C19")
            if st is False:
                return
            if st is None:
                continue
            n_spec += 1
            for cname in case.info.all_class_names():
                try:
                    cls = case.run.get_class(cname)
                except Exception:  # noqa: BLE001
                    continue
                meta = ctx.driver.ask1(f"gen meta {cname}")
                if not meta.startswith("ok"):
                    if disagree(ctx, case, f"class {cname} exists in the generated code but not in the model ({meta})", {"class": cname},
                             "class table", "C19"):
                        return
                toks = meta.split()
                mfields = [] if toks[2] == "params" else toks[2].split(",")
                getters = toks[toks.index("getters") + 1].split(",")
                setters_tok = toks[toks.index("setters") + 1]
                msetters = [] if setters_tok == "packet" else setters_tok.split(",")
                # real descriptors
                real_props = {k: v for k, v in vars(cls).items() if isinstance(v, property)}
                real_setters = sorted(k for k, v in real_props.items() if v.fset is not None or v.fdel is not None)
                ann = [k[1:] for k in cls.__annotations__ if k != "_byte_size"]
                if ann != [f.split(":")[0] for f in mfields] or sorted(real_props) != sorted(getters) or real_setters != sorted(msetters):
                    if disagree(ctx, case, f"{cname}: members differ: impl fields {ann} properties {sorted(real_props)} setters {real_setters}; "
                             f"model {meta}", {"class": cname}, "ClassIR members vs generated class", "C19"):
                        return
                n += 1
            for cname in case.info.classes():
                cls = case.run.get_class(cname)
                ci = case.info.cls(cname)
                for _ in range(_effort(ctx, 3)):
                    kw = ci.random_kwargs(rng, valid=True)
                    # hand the constructor *lists* for arrays and mutate them afterwards
                    kw2 = {k: (list(v) if isinstance(v, tuple) else v) for k, v in kw.items()}
                    try:
                        obj = cls(**kw2)
                    except Exception:  # noqa: BLE001
                        continue
                    ro = genlib.render(obj)
                    first = genlib.do_ser(cls, obj, False)
                    for k, v in kw2.items():
                        if isinstance(v, list):
                            v.append(v[0] if v else 0)
                            v.reverse()
                    # the public fields come from the specification (named fields and arrays, hard-coded ones included, and the
                    # case data of every switch), not from what the class happens to define as properties
                    declared = [it.name for it in ci.body.items if it.k in ("field", "array") and it.name] + \
                               [it.name + "_data" for it in ci.body.items if it.k == "switch" and it.name]
                    for pub in dict.fromkeys(declared + [k[1:] for k in cls.__annotations__ if k != "_byte_size"] + ["byte_size"]):
                        if pub not in declared and pub != "byte_size" and not isinstance(vars(cls).get(pub), property):
                            continue  # length fields have no public attribute
                        try:
                            setattr(obj, pub, None)
                            fails(ctx, case, f"{cname}: assigning to .{pub} succeeded", {"class": cname, "object": ro, "attribute": pub})
                            return
                        except AttributeError:
                            pass
                        except Exception as ex:  # noqa: BLE001
                            fails(ctx, case, f"{cname}: assigning to .{pub} raised {type(ex).__name__}, not AttributeError",
                                  {"class": cname, "object": ro, "attribute": pub})
                            return
                        v = getattr(obj, pub)
                        if isinstance(v, list):
                            fails(ctx, case, f"{cname}.{pub} is a list, not a tuple", {"class": cname, "object": ro, "attribute": pub})
                            return
                    second = genlib.do_ser(cls, obj, False)
                    # ... and once more after a serialisation of the same instance under the other entry mode (everything
                    # sanitised): state shared between writers must not leak from one serialisation into the next
                    genlib.do_ser(cls, obj, True)
                    third = genlib.do_ser(cls, obj, False)
                    if second == first and third != first:
                        second = third
                    n += 1
                    ctx.sig((hash(cname) % 7, classify(first), sum(isinstance(v, list) for v in kw2.values())))
                    _sample(ctx, case, **{"class": cname, "object": ro, "first_serialisation": first, "after_caller_side_mutation_and_other_mode": second})
                    if first != second or genlib.render(obj) != ro:
                        at = next((i for i, (x, y) in enumerate(zip(first, second)) if x != y), min(len(first), len(second)))
                        fails(ctx, case, f"{cname}: serialising the same instance again gives different bytes (caller-side changes of "
                              f"the argument lists and a serialisation under the other entry mode in between); first difference at "
                              f"character {at}: `…{first[max(0, at - 12):at + 12]}` then `…{second[max(0, at - 12):at + 12]}`",
                              {"class": cname, "object": ro, "first": first, "again": second})
                        return
                    if first.startswith("ok"):
                        data = bytes.fromhex(first.split()[1]) if first.split()[1] != "-" else b""
                        buf = bytearray(data)      # a caller-owned, reusable receive buffer
                        try:
                            back, _ = genlib.de_obj(cls, buf, False, timeout=0.5)
                        except BaseException:  # noqa: BLE001 - incl. the time limit (hostile-looking lengths)
                            continue
                        a = genlib.do_ser(cls, back, False)
                        rb = genlib.render(back)
                        # later deserialisations of the same class (a shorter and a longer input) must not reach back into
                        # an instance already handed out (its fields, its byte_size)
                        for other in (data[:len(data) // 2], data + b"\x01\x02"):
                            try:
                                genlib.de_obj(cls, other, False, timeout=0.5)
                            except BaseException as e:  # noqa: BLE001
                                if isinstance(e, KeyboardInterrupt):
                                    raise
                        if genlib.render(back) != rb:
                            fails(ctx, case, f"{cname}: an instance returned by deserialize changed when other bytes were deserialised "
                                  f"later: `{rb[:100]}` became `{genlib.render(back)[:100]}`", {"class": cname, "bytes": data.hex()})
                            return
                        for i in range(len(buf)):
                            buf[i] ^= 0x55         # the caller reuses its buffer
                        b = genlib.do_ser(cls, back, False)
                        if a != b or genlib.render(back) != rb:
                            fails(ctx, case, f"{cname}: a deserialised instance changed when the caller overwrote the buffer it was read from "
                                  f"(`{a[:60]}` then `{b[:60]}`)", {"class": cname, "bytes": data.hex()})
                            return
                # every array argument once as an (initially empty, where the declaration allows) caller-owned mutable
                # iterable of every kind its values fit in: list, list subclass, deque, array.array, bytearray (and bytes)
                kw = ci.random_kwargs(rng, valid=True)
                for name, val in list(kw.items()):
                    if not isinstance(val, (tuple, list)):
                        continue
                    val = tuple(val)
                    for start in ((), val):
                        for kind, mk in _iterable_kinds(val):
                            try:
                                mine = mk(start)
                                obj = cls(**dict(kw, **{name: mine}))
                            except Exception:  # noqa: BLE001
                                continue
                            first = genlib.do_ser(cls, obj, False)
                            ro = genlib.render(obj)
                            if hasattr(mine, "append"):
                                mine.append(val[0] if val else 0)
                                mine.reverse()
                            n += 1
                            ctx.count("array_argument_kind." + kind)
                            if type(getattr(obj, name)) is not tuple or genlib.do_ser(cls, obj, False) != first or genlib.render(obj) != ro:
                                fails(ctx, case, f"{cname}.{name}: built from a {kind} (initially {list(start)!r}) the field is a "
                                      f"{type(getattr(obj, name)).__name__} / follows later changes of its argument",
                                      {"class": cname, "object": ro, "attribute": name, "argument_kind": kind})
                                return
        finally:
            close_case(case)
    ctx.part("classes (members vs model) and instances (setattr on every public field, caller-side list mutation, twice-serialise)", n, False,
             f"{n_spec} accepted specifications")


RULES = {
    "C01": "wire-unambiguous (roundtrip_safe) catalogue and seeded random specifications x classes x lossless valid values: serialise with a "
           "fresh writer, deserialise with a fresh reader, compare field by field, remaining = 0, byte_size = bytes written; the same pair of "
           "calls on the model. distinct = (class bucket, size bucket, nesting, has-absent-optional)",
    "C03": "catalogue and seeded random specifications x classes x byte strings (valid serialisations, every prefix, 1-3 substitutions/"
           "insertions biased to 00/FE/FF, junk suffixes, uniformly random) x both entry modes; three-way: real deserialize, model execDe∘compile, "
           "declarative reading rules (readSpec): decoded object recursively incl. byte_size, exception class, final position, mode. distinct = "
           "(class bucket, entry mode, outcome, length class, last byte class)",
    "C15": "specifications x classes x {valid values, one-fault values} x both entry modes, plus a writer/reader proxy raising at the k-th call; "
           "observed: mode after return/raise, compared with the model where the model can exhibit it. distinct = (direction, entry mode, "
           "validity/fault position, outcome)",
    "C16": "specifications x classes x objects obtained from a valid one by one declaration-violating change at a random field and depth "
           "(None for required, wrong/oversized length, integer at/above limit, wrong case data); observed: refused (SerializationError | "
           "ValueError) vs completed; compared with the model. distinct = (violation kind, outcome, class bucket)",
    "C19": "every generated class incl. nested case classes: members (fields, getter-only properties) compared with the model's ClassIR; "
           "instances: setattr on every public field and byte_size, array attribute types, caller-side mutation of argument lists between two "
           "serialisations, twice-serialise for constructed and deserialised instances. distinct = (class bucket, outcome, number of list args)",
}


# ============================================================================================
# C17 — ill-formed specifications are rejected
# ============================================================================================

def _wf_rejections(line: str) -> list:
    """`gen wf` -> the rule sets (context / decls / packets / typed) whose declarative checker rejects the loaded forest"""
    t = line.split()
    if not t or t[0] != "ok":
        return []
    d = dict(zip(t[1::2], t[2::2]))
    return [k for k in ("context", "decls", "packets", "typed") if d.get(k) == "0"]


def run_c17(ctx: Ctx):
    rng = ctx.rng
    n = n_spec = 0
    nsp = int(__import__("os").environ.get("VERIF_NSPEC", 0)) or (120 if (ctx.tier == "thorough") else 6)
    for idx, case in enumerate(gencheck.spec_stream(ctx, nsp)):
        if not (ctx.tier == "thorough") and case.flags.get("catalogue") and idx % 2 == 1:
            continue
        base = genlib.GenRun(case.files)
        try:
            if base.error is not None:
                continue   # only valid specifications are edited
            # the declarative checkers the theorems are stated over must accept what the real generator accepts
            if base.forest is not None:
                ctx.driver.ask1("gen load " + base.forest)
                bad = _wf_rejections(ctx.driver.ask1("gen wf"))
                if bad:
                    fails(ctx, case, f"the generator accepts a specification that the declarative rules ({', '.join(bad)}) reject",
                          {"checker": bad}, key="accepted:checker:" + "+".join(bad))
                    return
        finally:
            base.cleanup()
        n_spec += 1
        for rule, placement, files in mutspec.all_edits(case.files, rng, per_rule_placements=3 if (ctx.tier == "thorough") else 2):
            ed = Case(files, f"{case.tag}+{rule}@{placement}", dict(case.flags, rule=rule, placement=placement))
            ed.run = genlib.GenRun(files, fresh_modules=False)
            try:
                if ed.run.forest is None:
                    continue
                model = ctx.driver.ask1("gen load " + ed.run.forest)
                real_rejects = ed.run.error is not None
                n += 1
                # which proved rule set (if any) decides this edit: context (rejects_ill_formed), decls / packets
                # (rejects_ill_formed_decls), typed (rejects_ill_typed); otherwise only the catalogue's expectation
                bad = _wf_rejections(ctx.driver.ask1("gen wf"))
                ctx.count("edit_decided_by." + ("theorem:" + "+".join(bad) if bad else "catalogue_only"))
                if not bad:
                    ctx.count("catalogue_only_rule." + rule)
                if bad and not real_rejects:
                    fails(ctx, ed, f"specification rejected by the declarative rules ({', '.join(bad)}; edit {rule}, placed {placement}) is "
                          f"accepted by the generator", {"rule": rule, "placement": placement, "checker": bad}, key="accepted:" + rule)
                    if not ctx.known_match("accepted:" + rule):
                        return
                ctx.count(f"rule.{rule}")
                ctx.count(f"placement.{placement}")
                ctx.sig((rule, placement))
                _sample(ctx, ed, _key=case.tag, rule=rule, placement=placement, declarative_rules_rejecting=bad,
                        real_generator="rejects: " + repr(ed.run.error) if real_rejects else "accepts", model=model[:200])
                if not real_rejects:
                    key = "accepted:" + rule
                    fails(ctx, ed, f"ill-formed specification ({rule}, placed {placement}) is accepted by the generator", {"rule": rule,
                          "placement": placement}, key=key)
                    if not ctx.known_match(key):
                        return
                if real_rejects != model.startswith("err"):
                    if disagree(ctx, ed, f"edit {rule}@{placement}: real generator {'rejects: ' + repr(ed.run.error) if real_rejects else 'accepts'}, "
                             f"model `{model[:120]}`", {"rule": rule, "placement": placement}, "compile error vs ProtocolCodeGenerator raising", "C17"):
                        return
            finally:
                close_case(ed)
    ctx.part("valid specifications x rule-violating edits x placements", n, False, f"{n_spec} base specifications")
    _run_c17_generic(ctx)


def _run_c17_generic(ctx: Ctx):
    """random small structural changes of valid specifications, with no expectation attached: the declarative checkers
    (the ones the theorems are stated over) say whether the result is ill-formed; what they reject must be rejected by
    the real generator, and real generator and model must agree on acceptance either way."""
    rng = ctx.rng
    per_base = 120 if ctx.tier == "thorough" or ctx.escalated else 40
    n = n_ill = n_base = 0
    for idx, case in enumerate(gencheck.spec_stream(ctx, 60 if ctx.tier == "thorough" else 12)):
        base = genlib.GenRun(case.files)
        ok = base.error is None
        base.cleanup()
        if not ok:
            continue
        n_base += 1
        for _ in range(per_base):
            r = mutspec.generic_edit(case.files, rng)
            if r is None:
                continue
            what, files = r
            if gencheck.degenerate_reason(files):
                ctx.count("generic_edit.skipped_degenerate")
                continue
            ed = Case(files, f"{case.tag}+generic[{what}]", dict(case.flags, generic_edit=what))
            ed.run = genlib.GenRun(files, fresh_modules=False)
            try:
                if ed.run.forest is None:
                    continue
                model = ctx.driver.ask1("gen load " + ed.run.forest)
                bad = _wf_rejections(ctx.driver.ask1("gen wf"))
                real_rejects = ed.run.error is not None
                n += 1
                n_ill += bool(bad)
                ctx.count("generic_edit." + what.split(" ")[0] + (".ill-formed" if bad else ".well-formed-by-the-rules"))
                ctx.sig(("generic", what.split(" ")[0], tuple(bad), real_rejects))
                if bad and not real_rejects:
                    fails(ctx, ed, f"specification rejected by the declarative rules ({', '.join(bad)}) after the change `{what}` is accepted "
                          f"by the generator", {"edit": what, "checker": bad}, key="accepted:generic:" + "+".join(bad))
                    return
                if real_rejects != model.startswith("err"):
                    if disagree(ctx, ed, f"generic edit `{what}`: real generator {'rejects: ' + repr(ed.run.error) if real_rejects else 'accepts'}, "
                                f"model `{model[:120]}`", {"edit": what}, "compile error vs ProtocolCodeGenerator raising", "C17"):
                        return
            finally:
                close_case(ed)
    ctx.part("valid specifications x random structural changes judged by the declarative checkers", n, False,
             f"{n_base} base specifications, {n_ill} results ill-formed by the rules")


RULES["C17"] = ("valid catalogue and random specifications x one rule-violating edit from a catalogue of ~90 rules (type, field, length, "
                "chunk, optional, dummy, hard-coded value, enum, switch, packet, file-level rules) inserted at the start of an eligible body "
                "per placement class (top level, inside <chunked>, inside a switch case, inside a case within a chunked section, first/second "
                "file); observed: the real generator raises vs returns; compared with compile. distinct = (rule, placement)")


# ============================================================================================
# C18 — deterministic generation, importable package
# ============================================================================================

ALL_DIRS = ["", "net", "net/client", "net/server", "map", "pub", "pub/server"]


def complete_tree(files):
    """every documented directory gets a protocol.xml (an empty <protocol/> where the spec has none)"""
    have = {d for d, _ in files}
    files = list(files) + [(d, genlib.Xml("protocol")) for d in ALL_DIRS if d not in have]
    # the static package (eolib.protocol.net.packet) needs the PacketFamily / PacketAction enums in net
    names = {e.get("name") for _, r in files for e in r.children if e.tag == "enum"}
    extra = [genlib.Xml("enum", [("name", n), ("type", "char")], None, None, [genlib.Xml("value", [("name", "Connection")], "1")])
             for n in ("PacketFamily", "PacketAction") if n not in names]
    if extra:
        files = [(d, r.replace(children=list(r.children) + extra) if d == "net" else r) for d, r in files]
    return files


def declared_types(files):
    """[(class name, directory, kind)] for every enum, struct and packet"""
    out = []
    for d, root in files:
        for e in root.children:
            if e.tag in ("enum", "struct"):
                out.append((e.get("name"), d, e.tag))
            elif e.tag == "packet":
                out.append((e.get("family") + e.get("action") + {"net/client": "ClientPacket", "net/server": "ServerPacket"}[d], d, "packet"))
    return out


def parse_generated(rel: str, data: bytes):
    text = data.decode("utf-8")
    imports = [l for l in text.split("\n") if l.startswith("from ") and " import " in l]
    import re
    classes = re.findall(r"^class (\w+)", text, re.M)
    return imports, classes


def run_c18(ctx: Ctx):
    import json as _json
    import os
    import shutil
    import subprocess
    import sys
    import tempfile
    rng = ctx.rng
    repo = os.environ.get("VERIF_REPO", "/repo")
    here = os.path.dirname(os.path.abspath(__file__))
    n_runs = n_spec = n_names = 0
    nsp = int(os.environ.get("VERIF_NSPEC", 0)) or (60 if (ctx.tier == "thorough") else 6)
    for idx, case in enumerate(gencheck.spec_stream(ctx, nsp, avoid_known_bugs=True)):
        if not (ctx.tier == "thorough") and case.flags.get("catalogue") and idx % 3 != 0 and idx > 1:
            continue
        case.files = complete_tree(case.files)
        if idx % 3 == 1:
            # a tree with gaps: a directory that only exists to hold sub-directories (root, pub) has no protocol.xml of its own when
            # the specification declares nothing there - its sub-directories must still be found, generated and importable
            gap = [(d, r) for d, r in case.files if not (d in ("", "pub") and not r.children)]
            if len(gap) != len(case.files):
                case.files = gap
                case.tag += "+gaps"
                ctx.count("tree.with_gaps")
        try:
            st = open_case(ctx, case, "C18", load=False)
            if st is False:
                return
            if st is None:
                # a valid tree must be accepted
                fails(ctx, case, f"valid specification tree {case.tag} is rejected: {case.run.error!r}", {})
                return
            n_spec += 1
            ref = {rel: __import__("hashlib").sha256(data).hexdigest() for rel, data in case.run.file_tree.items()}
            # --- the model's file list / class names / import sections
            mfiles = ctx.driver.ask1("gen files")
            model = {}
            for ent in mfiles[3:].split(" | "):
                head, _, imps = ent.partition(" ; ")
                path, kind, names = head.split(" ")[:3] if len(head.split(" ")) >= 3 else (head.split(" ") + ["", ""])[:3]
                model[path] = (kind, names, [i for i in imps.split(";;") if i])
            real = {rel: parse_generated(rel, data) for rel, data in case.run.file_tree.items()}
            if sorted(model) != sorted(real):
                if disagree(ctx, case, f"generated files differ: impl {sorted(real)}, model {sorted(model)}", {}, "GenOutput.files vs file tree", "C18"):
                    return
            for rel in sorted(real):
                imps, classes = real[rel]
                kind, names, mimps = model[rel]
                if imps != mimps or (kind != "init" and classes[:1] != names.split(",")[:1]):
                    if disagree(ctx, case, f"{rel}: impl imports {imps} classes {classes[:1]}; model imports {mimps} names {names}", {"file": rel},
                             "GenFile imports/class vs emitted file", "C18"):
                        return
            # --- determinism under configurations, in subprocesses
            configs = []
            seeds = ["0", "1", "random"] + (["2", "12345"] if (ctx.tier == "thorough") else [])
            for hs in seeds:
                for ws in ["-", str(rng.randrange(10 ** 6))] + ([str(rng.randrange(10 ** 6))] if (ctx.tier == "thorough") else []):
                    configs.append((hs, ws, rng.choice(["fresh,again", "fresh,same,again", "failfirst,again", "fresh,same", "fresh,same"])))
            scratch = tempfile.mkdtemp(prefix="c18-", dir="/var/tmp")
            try:
                procs = []
                for k, (hs, ws, plan) in enumerate(configs):
                    env = dict(os.environ, PYTHONHASHSEED=hs)
                    procs.append((hs, ws, plan, subprocess.Popen(
                        [sys.executable, os.path.join(here, "genworker.py"), repo, case.run.input, os.path.join(scratch, f"c{k}"), ws, plan],
                        stdout=subprocess.PIPE, stderr=subprocess.PIPE, text=True, env=env)))
                for hs, ws, plan, p in procs:
                    out, err = p.communicate(timeout=120)
                    n_runs += 1
                    ctx.sig(("config", hs if hs != "random" else "r", ws != "-", plan))
                    if p.returncode != 0:
                        raise common.CheckAbort(f"genworker failed: {err[-500:]}")
                    res = _json.loads(out)
                    _sample(ctx, case, PYTHONHASHSEED=hs, walk_order_seed=ws, plan=plan, generated_files=len(ref),
                            runs=[{"step": r_["step"], "error": r_["error"], "tree_equals_reference": r_["tree"] == ref} for r_ in res["runs"]])
                    for run in res["runs"]:
                        if run["error"] is not None or run["tree"] != ref:
                            diff = sorted(set(run["tree"].items()) ^ set(ref.items()))[:4]
                            fails(ctx, case, f"generation is not reproducible: PYTHONHASHSEED={hs} walk-order-seed={ws} plan={plan} step={run['step']}: "
                                  f"error={run['error']} differing files={[d[0] for d in diff]}", {"config": [hs, ws, plan]})
                            return
                # --- importability in a fresh interpreter: every declared type from the top level and from its home subpackage
                types = declared_types(case.files)
                names = [[n, "eolib.protocol" + ("." + d.replace("/", ".") if d else "")] for n, d, _ in types]
                firsts = ["-", "eolib.protocol.net.client", "eolib.data"] if (ctx.tier == "thorough") else ["-", rng.choice(["eolib.protocol.net", "eolib.packet"])]
                for first in firsts:
                    p = subprocess.run([sys.executable, os.path.join(here, "importworker.py"), case.run.src, first, _json.dumps(names)],
                                       capture_output=True, text=True, timeout=120)
                    if p.returncode != 0:
                        raise common.CheckAbort(f"importworker failed: {p.stderr[-500:]}")
                    res = _json.loads(p.stdout)
                    if res["error"]:
                        fails(ctx, case, f"the generated package cannot be imported in a fresh interpreter (first import {first}): {res['error']}",
                              {"first_import": first, "traceback": res.get("traceback")}, key="import:" + res["error"].split(":")[0])
                        if not ctx.known_match("import:" + res["error"].split(":")[0]):
                            return
                        continue
                    for n, info in res["names"].items():
                        n_names += 1
                        if not (info["top_is_class"] and info["home_is_class"] and info["same"]):
                            # only the catalogue tree written to exhibit the recorded finding may match it
                            key = "export:partial-init" if "KNOWN[C18:export:partial-init]" in case.tag and not info["home_is_class"] else None
                            fails(ctx, case, f"declared type {n} is not exported as one class from the top-level package and its home subpackage "
                                  f"(first import {first}): {info}", {"name": n, "first_import": first}, key=key)
                            if key is None or not ctx.known_match(key):
                                return
            finally:
                shutil.rmtree(scratch, ignore_errors=True)
        finally:
            close_case(case)
    ctx.part("complete specification trees x (hash seeds x walk orders x repeat plans) in subprocesses; import in fresh interpreters", n_runs, False,
             f"{n_spec} trees, {n_names} exported names checked")


RULES["C18"] = ("complete multi-file specification trees (all seven directories, cross-file references): the real generator in subprocesses under "
                "PYTHONHASHSEED in {0,1,random,...}, with os.walk permuted by a seeded shuffle of directories and files, repeated on a fresh "
                "generator, on the same generator object, into a pre-populated output directory and after a deliberately failing run; every "
                "resulting tree compared byte for byte (sha256 per file) with the in-process reference; a fresh interpreter imports eolib and every "
                "declared enum/struct/packet from the top-level package and its home subpackage; file list, class names and import sections "
                "compared with the model's GenOutput.files. distinct = (hash seed, walk permuted?, plan)")
