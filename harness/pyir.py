"""harness/pyir.py — the *structural* tie between the Python text the real generator emits and the instruction IR of the
Lean model (`Model/GenIR.lean`).

`class_ir(text, qualified_class_name, enum_value)` parses an emitted module with `ast`, recognises the statement groups of
`serialize`, `deserialize` and `__init__` (DESIGN Appendix C) and renders them in the canonical S-expression form of the
driver's `gen ir <class>` command (`lean/Driver/IRPrint.lean`).  Equal strings mean: the emitted methods of that class are,
statement group by statement group, the instruction lists `compile` produced — for that specification the conformance
theorems (`ser_conforms`, `de_conforms`, `model_roundtrip`, the C15/C16/C19 invariants), which are stated about the
interpretation of exactly those instruction lists, then speak about the emitted code for **every** value and byte string,
not only the sampled ones.  What stays trusted: this recogniser (one rule per statement group, `Unrecognised` for anything
else) and that `execSer` / `execDe` give each instruction the meaning CPython gives the statement group (that is what the
behavioural correspondence exercises).

A difference is never an alarm by itself (a harmless change of the emitted text looks like that): the generator checks
count it (`ir_tie.*` in the evidence) and spend a larger value / byte-string budget on that specification.
"""
from __future__ import annotations

import ast


class Unrecognised(Exception):
    pass


def _hex(s: str) -> str:
    return s.encode("utf-8").hex() if s else "-"


def _b(x) -> str:
    return "1" if x else "0"


class _Rec:
    def __init__(self, src: str, enum_value):
        self.src = src
        self.enum_value = enum_value   # (enum name, member python name) -> ordinal

    # ---------------------------------------------------------------- small matchers
    def seg(self, node) -> str:
        return ast.get_source_segment(self.src, node) or ""

    @staticmethod
    def is_name(n, name=None):
        return isinstance(n, ast.Name) and (name is None or n.id == name)

    @staticmethod
    def attr_of(n, base: str):
        """`base.attr` -> attr"""
        if isinstance(n, ast.Attribute) and isinstance(n.value, ast.Name) and n.value.id == base:
            return n.attr
        return None

    def data_field(self, n):
        """`data._name` -> name"""
        a = self.attr_of(n, "data")
        if a is not None and a.startswith("_"):
            return a[1:]
        return None

    @staticmethod
    def dotted(n) -> str | None:
        parts = []
        while isinstance(n, ast.Attribute):
            parts.append(n.attr)
            n = n.value
        if isinstance(n, ast.Name):
            parts.append(n.id)
            return ".".join(reversed(parts))
        return None

    @staticmethod
    def const_int(n):
        if isinstance(n, ast.Constant) and type(n.value) is int:
            return n.value
        if isinstance(n, ast.UnaryOp) and isinstance(n.op, ast.USub) and isinstance(n.operand, ast.Constant) \
                and type(n.operand.value) is int:
            return -n.operand.value
        return None

    def is_raise_ser(self, stmts) -> bool:
        return len(stmts) == 1 and isinstance(stmts[0], ast.Raise) and isinstance(stmts[0].exc, ast.Call) \
            and self.is_name(stmts[0].exc.func, "SerializationError")

    def cond_value(self, n) -> str:
        v = self.const_int(n)
        if v is not None:
            return str(v)
        d = self.dotted(n)
        if d and "." in d:
            en, mem = d.rsplit(".", 1)
            return str(self.enum_value(en, mem))
        raise Unrecognised("case value " + self.seg(n))

    # ---------------------------------------------------------------- serialize
    def len_e(self, n) -> str:
        v = self.const_int(n)
        if v is not None:
            return f"(lit {v})"
        f = self.data_field(n)
        if f is not None:
            return f"(fld {f})"
        if self.is_name(n):
            return f"(fld {n.id})"
        raise Unrecognised("length expression " + self.seg(n))

    def write_value(self, n):
        """-> (vexpr, coerce, offset)"""
        offset = 0
        if isinstance(n, ast.BinOp) and isinstance(n.op, (ast.Sub, ast.Add)) and self.const_int(n.right) is not None:
            k = self.const_int(n.right)
            offset = k if isinstance(n.op, ast.Sub) else -k
            n = n.left
        coerce = "none"
        if isinstance(n, ast.IfExp) and self.const_int(n.body) == 1 and self.const_int(n.orelse) == 0:
            coerce, n = "bool", n.test
        elif isinstance(n, ast.Call) and self.is_name(n.func, "int") and len(n.args) == 1:
            coerce, n = "enum", n.args[0]
        if isinstance(n, ast.Call) and self.is_name(n.func, "cast") and len(n.args) == 2:
            n = n.args[1]
        v = self.const_int(n)
        if v is not None:
            return f"(li {v})", coerce, offset
        if isinstance(n, ast.Constant) and isinstance(n.value, str):
            return f"(ls {_hex(n.value)})", coerce, offset
        if isinstance(n, ast.Subscript) and self.is_name(n.slice, "i"):
            f = self.data_field(n.value)
            if f is not None:
                return f"(f {f} 1)", coerce, offset
        f = self.data_field(n)
        if f is not None:
            return f"(f {f} 0)", coerce, offset
        raise Unrecognised("written value " + self.seg(n))

    INT_CALLS = {"add_byte": "byte", "add_char": "char", "add_short": "short", "add_three": "three", "add_int": "int"}
    INT_READS = {"get_byte": "byte", "get_char": "char", "get_short": "short", "get_three": "three", "get_int": "int"}

    def ser_call(self, call: ast.Call) -> str:
        m = self.attr_of(call.func, "writer")
        if m is not None:
            if m in self.INT_CALLS and len(call.args) == 1:
                if m == "add_byte" and self.seg(call.args[0]).strip().lower() == "0xff":
                    return "(break)"
                v, c, o = self.write_value(call.args[0])
                return f"(write (int {self.INT_CALLS[m]}) {v} {c} {o})"
            if m in ("add_string", "add_encoded_string") and len(call.args) == 1:
                v, c, o = self.write_value(call.args[0])
                return f"(write (str {_b(m == 'add_encoded_string')} - 0) {v} {c} {o})"
            if m in ("add_fixed_string", "add_fixed_encoded_string") and len(call.args) == 3:
                v, c, o = self.write_value(call.args[0])
                p = call.args[2]
                if not (isinstance(p, ast.Constant) and isinstance(p.value, bool)):
                    raise Unrecognised("padded argument " + self.seg(p))
                return f"(write (str {_b(m == 'add_fixed_encoded_string')} {self.len_e(call.args[1])} {_b(p.value)}) {v} {c} {o})"
            if m == "add_bytes" and len(call.args) == 1:
                v, c, o = self.write_value(call.args[0])
                return f"(write (blob) {v} {c} {o})"
            raise Unrecognised("writer call " + self.seg(call))
        d = self.dotted(call.func)
        if d and d.endswith(".serialize") and len(call.args) == 2 and self.is_name(call.args[0], "writer"):
            v, c, o = self.write_value(call.args[1])
            return f"(write (struct {d[:-len('.serialize')]}) {v} {c} {o})"
        raise Unrecognised("call " + self.seg(call))

    def count_e(self, n) -> str:
        v = self.const_int(n)
        if v is not None:
            return f"(lit {v})"
        f = self.data_field(n)
        if f is not None:
            return f"(lenfield {f})"
        if isinstance(n, ast.Call) and self.is_name(n.func, "len") and len(n.args) == 1:
            f = self.data_field(n.args[0])
            if f is not None:
                return f"(lenof {f})"
        raise Unrecognised("range argument " + self.seg(n))

    def case_ser(self, stmts) -> str:
        # `if data._f_data is not None: raise`
        if len(stmts) == 1 and isinstance(stmts[0], ast.If) and not stmts[0].orelse and self.is_raise_ser(stmts[0].body):
            t = stmts[0].test
            if isinstance(t, ast.Compare) and len(t.ops) == 1 and isinstance(t.ops[0], ast.IsNot) \
                    and isinstance(t.comparators[0], ast.Constant) and t.comparators[0].value is None:
                f = self.data_field(t.left)
                if f is not None:
                    return f"(none {f})"
        # `if not isinstance(data._f_data, Cls): raise` ; `Cls.serialize(writer, data._f_data)`
        if len(stmts) == 2 and isinstance(stmts[0], ast.If) and not stmts[0].orelse and self.is_raise_ser(stmts[0].body) \
                and isinstance(stmts[1], ast.Expr) and isinstance(stmts[1].value, ast.Call):
            t = stmts[0].test
            if isinstance(t, ast.UnaryOp) and isinstance(t.op, ast.Not) and isinstance(t.operand, ast.Call) \
                    and self.is_name(t.operand.func, "isinstance") and len(t.operand.args) == 2:
                f = self.data_field(t.operand.args[0])
                cls = self.dotted(t.operand.args[1])
                call = stmts[1].value
                d = self.dotted(call.func)
                if f is not None and cls and d == cls + ".serialize" and len(call.args) == 2 \
                        and self.is_name(call.args[0], "writer") and self.data_field(call.args[1]) == f:
                    return f"(cls {f} {cls})"
        raise Unrecognised("case body " + " / ".join(self.seg(s) for s in stmts)[:200])

    def switch_ser(self, node: ast.If) -> str:
        cases = []
        field = None
        cur = node
        while True:
            t = cur.test
            if not (isinstance(t, ast.Compare) and len(t.ops) == 1 and isinstance(t.ops[0], ast.Eq)):
                raise Unrecognised("switch test " + self.seg(t))
            f = self.data_field(t.left)
            if f is None or (field is not None and f != field):
                raise Unrecognised("switch field " + self.seg(t))
            field = f
            cases.append(f"(case {self.cond_value(t.comparators[0])} {self.case_ser(cur.body)})")
            if len(cur.orelse) == 1 and isinstance(cur.orelse[0], ast.If) and self._is_switch_test(cur.orelse[0].test, field, "data"):
                cur = cur.orelse[0]
                continue
            if cur.orelse:
                cases.append(f"(case default {self.case_ser(cur.orelse)})")
            break
        return f"(switch {field}" + "".join(" " + c for c in cases) + ")"

    def _is_switch_test(self, t, field, side) -> bool:
        if not (isinstance(t, ast.Compare) and len(t.ops) == 1 and isinstance(t.ops[0], ast.Eq)):
            return False
        if side == "data":
            return self.data_field(t.left) == field
        return self.is_name(t.left, field)

    def ser_ops(self, stmts) -> str:
        out = []
        i = 0
        while i < len(stmts):
            s = stmts[i]
            i += 1
            if isinstance(s, ast.Assign) and len(s.targets) == 1:
                tgt = s.targets[0]
                if self.attr_of(tgt, "writer") == "string_sanitization_mode" and isinstance(s.value, ast.Constant) \
                        and isinstance(s.value.value, bool):
                    out.append(f"(setsan {_b(s.value.value)})")
                    continue
                if self.is_name(tgt, "reached_missing_optional"):
                    v = s.value
                    acc = False
                    if isinstance(v, ast.BoolOp) and isinstance(v.op, ast.Or) and len(v.values) == 2 \
                            and self.is_name(v.values[0], "reached_missing_optional"):
                        acc, v = True, v.values[1]
                    f = None
                    if isinstance(v, ast.Compare) and len(v.ops) == 1 and isinstance(v.ops[0], ast.Is) \
                            and isinstance(v.comparators[0], ast.Constant) and v.comparators[0].value is None:
                        f = self.data_field(v.left)
                    nxt = stmts[i] if i < len(stmts) else None
                    if f is not None and isinstance(nxt, ast.If) and not nxt.orelse and isinstance(nxt.test, ast.UnaryOp) \
                            and isinstance(nxt.test.op, ast.Not) and self.is_name(nxt.test.operand, "reached_missing_optional"):
                        i += 1
                        out.append(f"(opt {_b(acc)} {f} {self.ser_ops(nxt.body)})")
                        continue
                raise Unrecognised("assignment " + self.seg(s))
            if isinstance(s, ast.Expr) and isinstance(s.value, ast.Call):
                out.append(self.ser_call(s.value))
                continue
            if isinstance(s, ast.For) and self.is_name(s.target, "i") and isinstance(s.iter, ast.Call) \
                    and self.is_name(s.iter.func, "range") and len(s.iter.args) == 1 and not s.orelse:
                out.append(f"(for {self.count_e(s.iter.args[0])} {self.ser_ops(s.body)})")
                continue
            if isinstance(s, ast.If):
                t = s.test
                if self.is_raise_ser(s.body) and not s.orelse and isinstance(t, ast.Compare) and len(t.ops) == 1:
                    # none-check / length-check
                    if isinstance(t.ops[0], ast.Is) and isinstance(t.comparators[0], ast.Constant) and t.comparators[0].value is None:
                        f = self.data_field(t.left)
                        if f is not None:
                            out.append(f"(nonecheck {f})")
                            continue
                    if isinstance(t.ops[0], (ast.Gt, ast.NotEq)) and isinstance(t.left, ast.Call) and self.is_name(t.left.func, "len") \
                            and len(t.left.args) == 1 and self.const_int(t.comparators[0]) is not None:
                        f = self.data_field(t.left.args[0])
                        if f is not None:
                            out.append(f"(lencheck {f} {'gt' if isinstance(t.ops[0], ast.Gt) else 'ne'} {self.const_int(t.comparators[0])})")
                            continue
                if not s.orelse and isinstance(t, ast.Compare) and len(t.ops) == 1 and isinstance(t.ops[0], ast.Gt) \
                        and self.is_name(t.left, "i") and self.const_int(t.comparators[0]) == 0:
                    out.append(f"(ifidx {self.ser_ops(s.body)})")
                    continue
                if not s.orelse and isinstance(t, ast.Compare) and len(t.ops) == 1 and isinstance(t.ops[0], ast.Eq) \
                        and isinstance(t.left, ast.Call) and self.is_name(t.left.func, "len") and len(t.left.args) == 1 \
                        and self.is_name(t.left.args[0], "writer") and self.is_name(t.comparators[0], "old_writer_length"):
                    out.append(f"(dummy {self.ser_ops(s.body)})")
                    continue
                if isinstance(t, ast.Compare) and len(t.ops) == 1 and isinstance(t.ops[0], ast.Eq) and self.data_field(t.left) is not None:
                    out.append(self.switch_ser(s))
                    continue
            raise Unrecognised("serialize statement " + self.seg(s)[:160])
        return "[" + " ".join(out) + "]"

    # ---------------------------------------------------------------- deserialize
    def read_expr(self, n):
        """-> (kind, coerce, offset)"""
        offset = 0
        coerce = "none"
        if isinstance(n, ast.Compare) and len(n.ops) == 1 and isinstance(n.ops[0], ast.NotEq) and self.const_int(n.comparators[0]) == 0:
            coerce, n = "bool", n.left
        if isinstance(n, ast.BinOp) and isinstance(n.op, (ast.Add, ast.Sub)) and self.const_int(n.right) is not None:
            k = self.const_int(n.right)
            offset = k if isinstance(n.op, ast.Add) else -k
            n = n.left
        if isinstance(n, ast.Call) and len(n.args) == 1 and not n.keywords and isinstance(n.args[0], ast.Call) \
                and self.attr_of(n.args[0].func, "reader") is not None and self.attr_of(n.func, "reader") is None \
                and self.dotted(n.func) is not None:
            coerce, n = "enum", n.args[0]
        if not isinstance(n, ast.Call):
            raise Unrecognised("read expression " + self.seg(n))
        m = self.attr_of(n.func, "reader")
        if m is not None:
            if m in self.INT_READS and not n.args:
                return f"(int {self.INT_READS[m]})", coerce, offset
            if m in ("get_string", "get_encoded_string") and not n.args:
                return f"(str {_b(m == 'get_encoded_string')} - 0)", coerce, offset
            if m in ("get_fixed_string", "get_fixed_encoded_string") and len(n.args) == 2:
                p = n.args[1]
                if not (isinstance(p, ast.Constant) and isinstance(p.value, bool)):
                    raise Unrecognised("padded argument " + self.seg(p))
                return f"(str {_b(m == 'get_fixed_encoded_string')} {self.len_e(n.args[0])} {_b(p.value)})", coerce, offset
            if m == "get_bytes" and len(n.args) == 1 and self.attr_of(n.args[0], "reader") == "remaining":
                return "(blob)", coerce, offset
            raise Unrecognised("reader call " + self.seg(n))
        d = self.dotted(n.func)
        if d and d.endswith(".deserialize") and len(n.args) == 1 and self.is_name(n.args[0], "reader"):
            return f"(struct {d[:-len('.deserialize')]})", coerce, offset
        raise Unrecognised("read expression " + self.seg(n))

    def is_remaining_pos(self, t) -> bool:
        return isinstance(t, ast.Compare) and len(t.ops) == 1 and isinstance(t.ops[0], ast.Gt) \
            and self.attr_of(t.left, "reader") == "remaining" and self.const_int(t.comparators[0]) == 0

    def is_next_chunk(self, s) -> bool:
        return isinstance(s, ast.Expr) and isinstance(s.value, ast.Call) and self.attr_of(s.value.func, "reader") == "next_chunk" \
            and not s.value.args

    def case_de(self, stmts) -> str:
        if len(stmts) == 1 and isinstance(stmts[0], ast.Assign) and len(stmts[0].targets) == 1 and self.is_name(stmts[0].targets[0]):
            name = stmts[0].targets[0].id
            v = stmts[0].value
            if isinstance(v, ast.Constant) and v.value is None:
                return f"(none {name})"
            if isinstance(v, ast.Call):
                d = self.dotted(v.func)
                if d and d.endswith(".deserialize") and len(v.args) == 1 and self.is_name(v.args[0], "reader"):
                    return f"(cls {name} {d[:-len('.deserialize')]})"
        raise Unrecognised("case body " + " / ".join(self.seg(s) for s in stmts)[:200])

    def switch_de(self, node: ast.If) -> str:
        cases = []
        field = None
        cur = node
        while True:
            t = cur.test
            if not (isinstance(t, ast.Compare) and len(t.ops) == 1 and isinstance(t.ops[0], ast.Eq) and self.is_name(t.left)):
                raise Unrecognised("switch test " + self.seg(t))
            if field is not None and t.left.id != field:
                raise Unrecognised("switch field " + self.seg(t))
            field = t.left.id
            cases.append(f"(case {self.cond_value(t.comparators[0])} {self.case_de(cur.body)})")
            if len(cur.orelse) == 1 and isinstance(cur.orelse[0], ast.If) and self._is_switch_test(cur.orelse[0].test, field, "var"):
                cur = cur.orelse[0]
                continue
            if cur.orelse:
                cases.append(f"(case default {self.case_de(cur.orelse)})")
            break
        return f"(switch {field}" + "".join(" " + c for c in cases) + ")"

    def de_ops(self, stmts) -> str:
        out = []
        i = 0
        while i < len(stmts):
            s = stmts[i]
            i += 1
            if isinstance(s, ast.AnnAssign) and self.is_name(s.target) and isinstance(s.value, ast.Constant) and s.value.value is None:
                nxt = stmts[i] if i < len(stmts) else None
                if isinstance(nxt, ast.If) and not nxt.orelse and self.is_remaining_pos(nxt.test):
                    i += 1
                    out.append(f"(optread {s.target.id} {self.de_ops(nxt.body)})")
                else:
                    out.append(f"(declnone {s.target.id})")
                continue
            if isinstance(s, ast.Assign) and len(s.targets) == 1:
                tgt, v = s.targets[0], s.value
                if self.attr_of(tgt, "reader") == "chunked_reading_mode" and isinstance(v, ast.Constant) and isinstance(v.value, bool):
                    out.append(f"(setchunked {_b(v.value)})")
                    continue
                if self.is_name(tgt):
                    if isinstance(v, ast.List) and not v.elts:
                        out.append(f"(initlist {tgt.id})")
                        continue
                    if isinstance(v, ast.Constant) and v.value is None:
                        nxt = stmts[i] if i < len(stmts) else None
                        if isinstance(nxt, ast.If) and not nxt.orelse and self.is_remaining_pos(nxt.test):
                            i += 1
                            out.append(f"(optread {tgt.id} {self.de_ops(nxt.body)})")
                        else:
                            out.append(f"(declnone {tgt.id})")
                        continue
                    if isinstance(v, ast.Call) and self.is_name(v.func, "int") and len(v.args) == 1 and isinstance(v.args[0], ast.BinOp) \
                            and isinstance(v.args[0].op, ast.Div) and self.attr_of(v.args[0].left, "reader") == "remaining" \
                            and self.const_int(v.args[0].right) is not None:
                        out.append(f"(lenvar {tgt.id} {self.const_int(v.args[0].right)})")
                        continue
                    k, c, o = self.read_expr(v)
                    out.append(f"(read (var {tgt.id}) {k} {c} {o})")
                    continue
                raise Unrecognised("assignment " + self.seg(s))
            if isinstance(s, ast.AnnAssign) and self.is_name(s.target) and s.value is not None:
                k, c, o = self.read_expr(s.value)
                out.append(f"(read (var {s.target.id}) {k} {c} {o})")
                continue
            if isinstance(s, ast.Expr) and not (isinstance(s.value, ast.Constant)):
                call = s.value
                if self.is_next_chunk(s):
                    out.append("(nextchunk)")
                    continue
                if isinstance(call, ast.Call) and isinstance(call.func, ast.Attribute) and call.func.attr == "append" \
                        and self.is_name(call.func.value) and len(call.args) == 1:
                    k, c, o = self.read_expr(call.args[0])
                    out.append(f"(read (append {call.func.value.id}) {k} {c} {o})")
                    continue
                k, c, o = self.read_expr(call)
                out.append(f"(read (discard) {k} {c} {o})")
                continue
            if isinstance(s, ast.For) and self.is_name(s.target, "i") and isinstance(s.iter, ast.Call) and self.is_name(s.iter.func, "range") \
                    and len(s.iter.args) == 1 and not s.orelse:
                a = s.iter.args[0]
                if self.const_int(a) is not None:
                    cnt = f"(lit {self.const_int(a)})"
                elif self.is_name(a):
                    cnt = f"(var {a.id})"
                else:
                    raise Unrecognised("range argument " + self.seg(a))
                body = list(s.body)
                delim = "none"
                if body and self.is_next_chunk(body[-1]):
                    delim, body = "always", body[:-1]
                elif body and isinstance(body[-1], ast.If) and not body[-1].orelse and len(body[-1].body) == 1 \
                        and self.is_next_chunk(body[-1].body[0]):
                    t = body[-1].test
                    if isinstance(t, ast.Compare) and len(t.ops) == 1 and isinstance(t.ops[0], ast.Lt) and isinstance(t.left, ast.BinOp) \
                            and isinstance(t.left.op, ast.Add) and self.is_name(t.left.left, "i") and self.const_int(t.left.right) == 1 \
                            and ast.dump(t.comparators[0]) == ast.dump(a):
                        delim, body = "guarded", body[:-1]
                out.append(f"(for {cnt} {self.de_ops(body)} {delim})")
                continue
            if isinstance(s, ast.While) and self.is_remaining_pos(s.test) and not s.orelse:
                body = list(s.body)
                delimited = bool(body) and self.is_next_chunk(body[-1])
                if delimited:
                    body = body[:-1]
                out.append(f"(while {self.de_ops(body)} {_b(delimited)})")
                continue
            if isinstance(s, ast.If):
                t = s.test
                if not s.orelse and isinstance(t, ast.Compare) and len(t.ops) == 1 and isinstance(t.ops[0], ast.Eq) \
                        and self.attr_of(t.left, "reader") == "position" and self.is_name(t.comparators[0], "reader_start_position"):
                    out.append(f"(dummy {self.de_ops(s.body)})")
                    continue
                if isinstance(t, ast.Compare) and len(t.ops) == 1 and isinstance(t.ops[0], ast.Eq) and self.is_name(t.left):
                    out.append(self.switch_de(s))
                    continue
            raise Unrecognised("deserialize statement " + self.seg(s)[:160])
        return "[" + " ".join(out) + "]"

    # ---------------------------------------------------------------- __init__
    def init_stmts(self, stmts) -> str:
        out = []
        for s in stmts:
            if isinstance(s, ast.Expr) and isinstance(s.value, ast.Constant) and isinstance(s.value.value, str):
                continue   # docstring
            if isinstance(s, ast.Pass):
                continue
            if not (isinstance(s, ast.Assign) and len(s.targets) == 1):
                raise Unrecognised("__init__ statement " + self.seg(s))
            a = self.attr_of(s.targets[0], "self")
            if a is None or not a.startswith("_"):
                raise Unrecognised("__init__ target " + self.seg(s))
            a = a[1:]
            v = s.value
            optional = False
            if isinstance(v, ast.IfExp) and isinstance(v.orelse, ast.Constant) and v.orelse.value is None \
                    and isinstance(v.test, ast.Compare) and len(v.test.ops) == 1 and isinstance(v.test.ops[0], ast.IsNot):
                optional, v = True, v.body
            if isinstance(v, ast.Call) and self.is_name(v.func, "len") and len(v.args) == 1:
                of = self.attr_of(v.args[0], "self")
                if of is not None and of.startswith("_"):
                    out.append(f"(lenof {a} {of[1:]} {_b(optional)})")
                    continue
            if isinstance(v, ast.Call) and self.is_name(v.func, "tuple") and len(v.args) == 1 and self.is_name(v.args[0]):
                out.append(f"(assign {a} (tuple {v.args[0].id} {_b(optional)}))")
                continue
            if optional:
                raise Unrecognised("__init__ value " + self.seg(s))
            if self.is_name(v):
                out.append(f"(assign {a} (param {v.id}))")
                continue
            if isinstance(v, ast.Constant) and isinstance(v.value, bool):
                out.append(f"(assign {a} (bool {_b(v.value)}))")
                continue
            if isinstance(v, ast.Constant) and isinstance(v.value, str):
                out.append(f"(assign {a} (ls {_hex(v.value)}))")
                continue
            out.append(f"(assign {a} (pasted {_hex(self.seg(v))}))")
        return "[" + " ".join(out) + "]"


def _find_class(tree: ast.Module, qualified: str):
    body = tree.body
    node = None
    for part in qualified.split("."):
        node = next((n for n in body if isinstance(n, ast.ClassDef) and n.name == part), None)
        if node is None:
            return None
        body = node.body
    return node


def _method(cls: ast.ClassDef, name: str):
    return next((n for n in cls.body if isinstance(n, ast.FunctionDef) and n.name == name), None)


def class_ir(text: str, qualified: str, enum_value) -> str:
    """canonical IR string of the emitted class `qualified` in module text `text` (raises Unrecognised)"""
    tree = ast.parse(text)
    cls = _find_class(tree, qualified)
    if cls is None:
        raise Unrecognised("class " + qualified + " not found")
    rec = _Rec(text, enum_value)
    ser, de, init = _method(cls, "serialize"), _method(cls, "deserialize"), _method(cls, "__init__")
    if ser is None or de is None:
        raise Unrecognised("serialize / deserialize missing in " + qualified)

    def strip_doc(stmts):
        return [s for s in stmts if not (isinstance(s, ast.Expr) and isinstance(s.value, ast.Constant) and isinstance(s.value.value, str))]

    # --- serialize shell: [old_writer_length = len(writer)]; save mode; try: BODY finally: restore
    sb = strip_doc(ser.body)
    oldlen = False
    if sb and isinstance(sb[0], ast.AnnAssign) and rec.is_name(sb[0].target, "old_writer_length"):
        oldlen, sb = True, sb[1:]
    if not (len(sb) == 2 and isinstance(sb[0], ast.AnnAssign) and rec.is_name(sb[0].target, "old_string_sanitization_mode")
            and rec.attr_of(sb[0].value, "writer") == "string_sanitization_mode" and isinstance(sb[1], ast.Try)
            and not sb[1].handlers and len(sb[1].finalbody) == 1):
        raise Unrecognised("serialize shell of " + qualified)
    fin = sb[1].finalbody[0]
    if not (isinstance(fin, ast.Assign) and rec.attr_of(fin.targets[0], "writer") == "string_sanitization_mode"
            and rec.is_name(fin.value, "old_string_sanitization_mode")):
        raise Unrecognised("serialize finally of " + qualified)
    ser_s = rec.ser_ops(sb[1].body)
    # --- deserialize shell
    db = strip_doc(de.body)
    if not (len(db) == 2 and isinstance(db[0], ast.AnnAssign) and rec.is_name(db[0].target, "old_chunked_reading_mode")
            and rec.attr_of(db[0].value, "reader") == "chunked_reading_mode" and isinstance(db[1], ast.Try)
            and not db[1].handlers and len(db[1].finalbody) == 1):
        raise Unrecognised("deserialize shell of " + qualified)
    fin = db[1].finalbody[0]
    if not (isinstance(fin, ast.Assign) and rec.attr_of(fin.targets[0], "reader") == "chunked_reading_mode"
            and rec.is_name(fin.value, "old_chunked_reading_mode")):
        raise Unrecognised("deserialize finally of " + qualified)
    body = db[1].body
    if not (len(body) >= 4 and isinstance(body[0], ast.AnnAssign) and rec.is_name(body[0].target, "reader_start_position")
            and rec.attr_of(body[0].value, "reader") == "position"):
        raise Unrecognised("deserialize prologue of " + qualified)
    res, size, ret = body[-3], body[-2], body[-1]
    if not (isinstance(res, ast.Assign) and rec.is_name(res.targets[0], "result") and isinstance(res.value, ast.Call)
            and rec.dotted(res.value.func) == qualified and not res.value.args
            and all(rec.is_name(k.value, k.arg) for k in res.value.keywords)):
        raise Unrecognised("deserialize construction of " + qualified)
    sz = size.value if isinstance(size, ast.Assign) else None
    if not (isinstance(size, ast.Assign) and rec.attr_of(size.targets[0], "result") == "_byte_size" and isinstance(sz, ast.BinOp)
            and isinstance(sz.op, ast.Sub) and rec.attr_of(sz.left, "reader") == "position" and rec.is_name(sz.right, "reader_start_position")
            and isinstance(ret, ast.Return) and rec.is_name(ret.value, "result")):
        raise Unrecognised("deserialize epilogue of " + qualified)
    de_s = rec.de_ops(body[1:-3])
    deargs = " ".join(k.arg for k in res.value.keywords)
    init_s = rec.init_stmts(init.body) if init is not None else "[]"
    return f"oldlen {_b(oldlen)} ;; ser {ser_s} ;; de {de_s} ;; deargs [{deargs}] ;; init {init_s}"


def enum_ir(text: str, name: str) -> str:
    """`Name under?` is not in the text; members in emitted order: `PyName=ordinal,...` (the form of `gen enums`)"""
    tree = ast.parse(text)
    cls = _find_class(tree, name)
    if cls is None:
        raise Unrecognised("enum " + name + " not found")
    bases = [ast.unparse(b) for b in cls.bases]
    meta = [ast.unparse(k.value) for k in cls.keywords if k.arg == "metaclass"]
    if bases != ["IntEnum"] or meta != ["ProtocolEnumMeta"]:
        raise Unrecognised(f"enum {name}: bases {bases} metaclass {meta}")
    members = []
    for s in cls.body:
        if isinstance(s, ast.Expr) and isinstance(s.value, ast.Constant) and isinstance(s.value.value, str):
            continue
        if isinstance(s, ast.Assign) and len(s.targets) == 1 and isinstance(s.targets[0], ast.Name) and _Rec.const_int(s.value) is not None:
            members.append(f"{s.targets[0].id}={_Rec.const_int(s.value)}")
            continue
        raise Unrecognised(f"enum {name}: statement {ast.unparse(s)[:80]}")
    return ",".join(members)


def packet_ir(text: str, qualified: str) -> str:
    """`Family.Member Action.Member` returned by the emitted `family()` / `action()` static methods"""
    tree = ast.parse(text)
    cls = _find_class(tree, qualified)
    if cls is None:
        raise Unrecognised("class " + qualified + " not found")
    out = []
    for m in ("family", "action"):
        f = _method(cls, m)
        body = [s for s in (f.body if f else []) if not (isinstance(s, ast.Expr) and isinstance(s.value, ast.Constant))]
        if f is None or len(body) != 1 or not isinstance(body[0], ast.Return) or _Rec.dotted(body[0].value) is None:
            raise Unrecognised(f"{qualified}.{m}()")
        out.append(_Rec.dotted(body[0].value))
    # `def write(self, writer): Cls.serialize(writer, self)`
    w = _method(cls, "write")
    body = [s for s in (w.body if w else []) if not (isinstance(s, ast.Expr) and isinstance(s.value, ast.Constant))]
    ok = w is not None and len(body) == 1 and isinstance(body[0], ast.Expr) and isinstance(body[0].value, ast.Call)
    if ok:
        c = body[0].value
        ok = _Rec.dotted(c.func) == qualified + ".serialize" and len(c.args) == 2 and _Rec.is_name(c.args[0], "writer") \
            and _Rec.is_name(c.args[1], "self")
    if not ok:
        raise Unrecognised(f"{qualified}.write()")
    return " ".join(out)
