"""Grammar-directed generation of valid eo-protocol specifications, of values for the generated classes
and of hostile byte strings.

  random_spec(rng, size=4, roundtrip_safe=True, avoid_known_bugs=True) -> [(dir, Xml)]
  catalogue_specs() -> [(title, roundtrip_safe, [(dir, Xml)])]
  describe(files) -> {construct: count}
  SpecInfo(files).bind(genrun) ; .classes() ; .cls(name).random_kwargs(rng, valid=True, lossless=False)
  random_bytes(rng, valid_serialisations) -> [bytes]
"""
from __future__ import annotations

import random
import sys
from dataclasses import dataclass, field as dc_field
from typing import NamedTuple

from . import common
from .genlib import Xml, GenRun, render, render_nosize, ser_bytes, de_obj, do_de, COMMENT_TAG

INT_MAX = {"byte": 255, "char": 252, "short": 64008, "three": 16194276, "int": 4097152080}
INT_SIZE = {"byte": 1, "char": 1, "short": 2, "three": 3, "int": 4}
INSTRUCTIONS = ("field", "array", "length", "dummy", "switch", "chunked", "break")
DIR_ORDER = ["", "net", "pub", "map", "net/client", "net/server", "pub/server"]  # a dir may refer to itself and to earlier dirs


def pascal_to_snake(name: str) -> str:     # same algorithm as protocol_code_generator.util.name_utils
    out = ""
    for i, c in enumerate(name):
        if i > 0 and c.isupper() and ((i + 1 < len(name) and not name[i + 1].isupper()) or name[i - 1].islower()):
            out += "_"
        out += c.lower()
    return out


def snake_to_pascal(name: str) -> str:
    return "".join(p[:1].upper() + p[1:].lower() for p in name.split("_"))


def xml_text(x: Xml):
    """get_text of the generator (without html unescape, we never emit entities in hard-coded text)"""
    res = (x.text or "").strip()
    for c in x.children:
        t = (c.tail or "").strip()
        if t:
            res = res or t
    return res or None


def instructions(x: Xml):
    return [c for c in x.children if c.tag in INSTRUCTIONS]


# --------------------------------------------------------------------------------------------
# elaboration of the parsed XML
# --------------------------------------------------------------------------------------------

class Ty(NamedTuple):
    kind: str   # int bool str blob enum struct
    base: str   # underlying int type (int/bool/enum) | string/encoded_string
    name: str


@dataclass
class It:
    k: str
    name: str | None = None
    t: Ty | None = None
    length: object = None        # None | int literal | str (length field name)
    lenfield: "It | None" = None
    padded: bool = False
    optional: bool = False
    hard: str | None = None
    delimited: bool = False
    trailing: bool = True
    offset: int = 0
    cases: list = dc_field(default_factory=list)
    chunked: bool = False


@dataclass
class Case:
    value: str | None
    default: bool
    body: "Body | None"


@dataclass
class Body:
    cname: str
    items: list


@dataclass
class EnumInfo:
    name: str
    base: str
    members: list   # (name, python name, ordinal)
    dir: str


class SpecInfo:
    def __init__(self, files, run: GenRun | None = None):
        self.files = list(files)
        self.enums: dict[str, EnumInfo] = {}
        self.struct_xml: dict[str, Xml] = {}
        self.bodies: dict[str, Body] = {}
        self.order: list[str] = []
        self.run = run
        for d, root in self.files:
            for e in root.find_all("enum"):
                mem = [(v.get("name"), "None_" if v.get("name") == "None" else v.get("name"), int(xml_text(v)))
                       for v in e.find_all("value")]
                self.enums[e.get("name")] = EnumInfo(e.get("name"), e.get("type"), mem, d)
            for s in root.find_all("struct"):
                self.struct_xml[s.get("name")] = s
        for d, root in self.files:
            for s in root.find_all("struct"):
                self._top(s.get("name"), s)
            for p in root.find_all("packet"):
                suffix = {"net/client": "ClientPacket", "net/server": "ServerPacket"}[d]
                self._top(p.get("family") + p.get("action") + suffix, p)

    def _top(self, cname, elem):
        self.order.append(cname)
        self.bodies[cname] = self._body(elem, cname, False)

    def bind(self, run: GenRun):
        self.run = run
        return self

    def classes(self) -> list[str]:
        return list(self.order)

    def cls(self, name: str) -> "ClassInfo":
        return ClassInfo(self, name)

    def all_class_names(self) -> list[str]:
        return list(self.bodies)

    # ---- types ----
    def resolve(self, tstr: str) -> Ty:
        name, _, under = tstr.partition(":")
        if name in INT_MAX:
            return Ty("int", name, name)
        if name == "bool":
            return Ty("bool", under or "char", "bool")
        if name in ("string", "encoded_string"):
            return Ty("str", name, name)
        if name == "blob":
            return Ty("blob", "", "blob")
        if name in self.enums:
            return Ty("enum", under or self.enums[name].base, name)
        if name in self.struct_xml:
            return Ty("struct", "", name)
        raise KeyError(f"undefined type {tstr}")

    def _body(self, elem: Xml, cname: str, chunked: bool) -> Body:
        body = Body(cname, [])
        self.bodies[cname] = body
        named: dict[str, It] = {}
        self._items(elem, body, named, chunked)
        return body

    def _items(self, elem, body, named, chunked):
        for x in instructions(elem):
            if x.tag == "chunked":
                self._items(x, body, named, True)
                continue
            it = It(x.tag, chunked=chunked)
            if x.tag in ("field", "array", "length", "dummy"):
                it.name = x.get("name")
                it.t = self.resolve(x.get("type"))
                it.optional = (x.get("optional") or "").lower() == "true"   # specs never say optional="false"
                ln = x.get("length")
                if ln is not None:
                    it.length = int(ln) if ln.isdigit() else ln
                    it.lenfield = None if ln.isdigit() else named[ln]
                it.padded = (x.get("padded") or "").lower() == "true"
                it.delimited = (x.get("delimited") or "").lower() == "true"
                it.trailing = (x.get("trailing-delimiter") or "true").lower() == "true"
                it.offset = int(x.get("offset") or 0)
                if x.tag in ("field", "dummy"):
                    it.hard = xml_text(x)
                if it.name is not None:
                    named[it.name] = it
            elif x.tag == "switch":
                it.name = x.get("field")
                it.t = named[it.name].t
                for c in x.find_all("case"):
                    default = (c.get("default") or "").lower() == "true"
                    sub = body.cname + "." + snake_to_pascal(it.name) + "Data" + ("Default" if default else c.get("value"))
                    cb = self._body(c, sub, chunked) if instructions(c) else None
                    it.cases.append(Case(None if default else c.get("value"), default, cb))
            body.items.append(it)


# --------------------------------------------------------------------------------------------
# values
# --------------------------------------------------------------------------------------------

ALPHA_FULL = list("abcXYZ 019!?,.~~\xff\xffy") + ["€", "é", "Δ", "λ", "Ж", "\U0001F600", "Ÿ", "\x00", '"', "\\"]
# every printable ASCII character except '~' (not invertible inside encoded strings), DEL, and a few windows-1252 ones; the
# split points of the EO string transform (0x21/0x22, 0x4F/0x50, 0x7D) are in it
ALPHA_LOSSLESS = [chr(c) for c in range(0x20, 0x7E)] + ["\x7f", "€", "é", "ß", "Ÿ", "\xa0", "\xfe"] + list("P}P}!\"O")


@dataclass
class Obj:
    cname: str
    kw: dict


@dataclass
class EnumRef:
    ename: str
    ordinal: int
    as_member: bool


class ClassInfo:
    def __init__(self, info: SpecInfo, name: str):
        self.info, self.name, self.body = info, name, info.bodies[name]

    @property
    def pyclass(self):
        return self.info.run.get_class(self.name)

    def random_kwargs(self, rng, valid: bool = True, lossless: bool = False):
        """valid=True -> kwargs ; valid=False -> (kwargs, description of the single violation)"""
        for attempt in range(30):
            vg = ValueGen(self.info, rng, lossless)
            kw = vg.body(self.body, self.name)
            if valid:
                return vg.build(kw)
            if not vg.sites:
                return vg.build(kw), "none-possible"
            d, key, what, fn = rng.choice(vg.sites)
            d[key] = fn()
            try:
                return vg.build(kw), what
            except Exception:  # noqa: BLE001 - the violation made a *nested* constructor fail: pick another one
                continue
        return vg.build(vg.body(self.body, self.name)), "none-possible"


class ValueGen:
    def __init__(self, info: SpecInfo, rng, lossless: bool):
        self.info, self.rng, self.lossless = info, rng, lossless
        self.sites: list = []   # (container, key, description, thunk -> new value)
        # some "lossless" objects carry y-diaeresis: it round-trips wherever the string is neither sanitised nor padded, and
        # only the theorem's domain predicate (asked of the driver per pair) knows where that is
        self.with_yuml = lossless and rng.random() < 0.3
        # a fifth of the objects draw every string from one base text (holding y-diaeresis unless the object must be
        # lossless without it), so the same text recurs in several fields of one object — sanitised and unsanitised
        # positions, fixed and free lengths (a per-text cache that one position poisons for another shows only then)
        self.shared_base = None
        if rng.random() < 0.2:
            a = (ALPHA_LOSSLESS + (["\xff"] if self.with_yuml else [])) if lossless else ALPHA_FULL
            base = [rng.choice(a) for _ in range(rng.choice([1, 2, 3, 5]))]
            if (not lossless) or self.with_yuml:
                base[rng.randrange(len(base))] = "\xff"
            self.shared_base = "".join(base)

    # ---- building real objects ----
    def build(self, v):
        if isinstance(v, dict):
            return {k: self.build(x) for k, x in v.items()}
        if isinstance(v, list):
            return [self.build(x) for x in v]
        if isinstance(v, Obj):
            return self.info.run.get_class(v.cname)(**self.build(v.kw))
        if isinstance(v, EnumRef):
            return self.info.run.get_class(v.ename)(v.ordinal) if v.as_member else v.ordinal
        return v

    # ---- leaves ----
    def int_(self, base):
        m = INT_MAX[base]
        r = self.rng
        if base == "byte" and self.lossless:
            m = 254   # a raw 0xFF byte is a chunk break for every chunked reader downstream: outside the round-trip domain
        h = self.hint(m)
        if h is not None:
            return h
        return r.choice([0, 1, m - 1, m, r.randrange(m + 1), r.randrange(min(m, 300) + 1), r.randrange(min(m, 10) + 1)])

    def hint(self, hi, lo=0, cap=None):
        """a number next to one of the integers on which the emitted text and the model's instruction list differ
        (gencheck.ir_tie), when the specification has such a difference"""
        hints = getattr(self.info, "hints", None)
        if not hints or self.rng.random() >= 0.35:
            return None
        v = self.rng.choice(hints) + self.rng.choice([-1, 0, 0, 1])
        if cap is not None and v > cap:
            return None
        return max(lo, min(hi, v))

    def string(self, n):
        if self.shared_base is not None:
            return (self.shared_base * (n // len(self.shared_base) + 1))[:n]
        a = (ALPHA_LOSSLESS + (["\xff", "\xff"] if self.with_yuml else [])) if self.lossless else ALPHA_FULL
        return "".join(self.rng.choice(a) for _ in range(n))

    def enum(self, t: Ty, avoid=()):
        e, r = self.info.enums[t.name], self.rng
        members = [m for m in e.members if m[2] not in avoid and m[2] <= INT_MAX[t.base]]
        if members and r.random() < 0.6:
            return EnumRef(t.name, r.choice(members)[2], r.random() < 0.7)
        for _ in range(50):
            n = r.choice([0, 1, INT_MAX[t.base], r.randrange(INT_MAX[t.base] + 1)])
            if n not in avoid:
                return EnumRef(t.name, n, r.random() < 0.4)
        return EnumRef(t.name, members[0][2], True) if members else 0

    def count(self, it: It, nonempty=False, small=True):
        r = self.rng
        if isinstance(it.length, int):
            return it.length
        if it.lenfield is not None:
            lo, hi = max(0, it.lenfield.offset), INT_MAX[it.lenfield.t.base] + it.lenfield.offset
            if it.lenfield.t.base == "byte" and self.lossless:
                hi -= 1   # keep the raw length byte below 0xFF (see int_)
            n = r.choice([lo, lo + 1, lo + r.randrange(5), lo + r.randrange(9)])
            if not small and r.random() < 0.04 and hi <= 70000:
                n = hi
            if small and r.random() < 0.02 and hi <= 300:
                n = hi
            if hi <= 300 and r.random() < (0.15 if it.lenfield.offset else 0.03):
                # the neighbourhood of the limit max(type) + offset, on both sides of max(type) - offset as well
                k = abs(it.lenfield.offset)
                n = r.choice([hi, hi - 1, hi - k, hi - k + 1, hi - 2 * k, hi - 2 * k + 1, hi - 2 * k - 1])
            h = self.hint(hi, lo, cap=400)
            if h is not None:
                n = h
            n = max(lo, min(hi, n))
            return max(n, 1) if nonempty and hi >= 1 else n
        n = r.choice([0, 1, 2, r.randrange(4 if small else 9)])
        h = self.hint(400, 0, cap=400)
        if h is not None:
            n = h
        return max(n, 1) if nonempty else n

    def value(self, t: Ty, it: It | None, path: str, nonempty=False):
        """value of type t; `it` carries length/padded for a non-array field (None for array elements)"""
        r = self.rng
        if t.kind == "int":
            return self.int_(t.base)
        if t.kind == "bool":
            return r.random() < 0.5
        if t.kind == "enum":
            return self.enum(t)
        if t.kind == "blob":
            n = max(1, r.randrange(6)) if nonempty else r.randrange(6)
            return bytes(r.choice([0, 1, 0x41, 0xFE, r.randrange(255)] + ([] if self.lossless else [0xFF])) for _ in range(n))
        if t.kind == "struct":
            return Obj(t.name, self.body(self.info.bodies[t.name], path))
        if it is None or it.length is None:
            return self.string(max(1, r.randrange(9)) if nonempty else r.choice([0, 1, 3, r.randrange(9)]))
        if isinstance(it.length, int) and it.padded:
            return self.string(r.choice([0, it.length, r.randrange(it.length + 1)]))
        return self.string(self.count(it, nonempty=nonempty, small=False))

    # ---- a body -> kwargs (tree of dict / Obj / EnumRef / leaves) ----
    def body(self, b: Body, path: str) -> dict:
        r, kw = self.rng, {}
        # optional presence: within every run of optional items (runs end at <break>) a prefix is present
        present, run = {}, []
        for it in b.items + [It("break")]:
            if it.k == "break":
                k = r.choice([0, len(run), r.randrange(len(run) + 1)])
                for i, o in enumerate(run):
                    present[id(o)] = i < k
                run = []
            elif it.optional and it.k in ("field", "array", "length"):
                run.append(it)
        # switch selections
        forced, chosen = {}, {}
        by_name = {it.name: it for it in b.items if it.k in ("field", "length") and it.name}
        for sw in (it for it in b.items if it.k == "switch"):
            f = by_name[sw.name]
            default = next((c for c in sw.cases if c.default), None)
            if f.optional and not present.get(id(f), True):
                chosen[sw.name] = default
                continue
            pick = r.choice([c for c in sw.cases if not c.default] + [default])   # None = no match / default
            if pick is None or pick.default:
                used = {c.value for c in sw.cases if not c.default}
                forced[sw.name] = self._unmatched(f.t, used)
                chosen[sw.name] = default
            else:
                forced[sw.name] = self._case_value(f.t, pick.value)
                chosen[sw.name] = pick
        switched = {sw.name for sw in b.items if sw.k == "switch"}
        for it in b.items:
            p = f"{path}.{it.name}"
            if it.k == "field" and it.name is not None:
                if it.hard is not None:
                    kw[it.name] = (int(it.hard) if it.t.kind == "int" and it.hard.isdigit() else
                                   it.hard == "true" if it.t.kind == "bool" else it.hard)
                elif it.optional and not present[id(it)]:
                    kw[it.name] = None
                elif it.name in forced:
                    kw[it.name] = forced[it.name]
                else:
                    kw[it.name] = self.value(it.t, it, p, nonempty=self.lossless and it.optional)
                    self._field_sites(kw, it, p, it.name in switched)
            elif it.k == "array":
                if it.optional and not present[id(it)]:
                    kw[it.name] = None
                    continue
                ne = self.lossless and it.delimited
                n = self.count(it, nonempty=self.lossless and it.optional)
                kw[it.name] = [self.value(it.t, None, f"{p}[{i}]", nonempty=ne) for i in range(n)]
                self._array_sites(kw, it, p)
            elif it.k == "switch":
                c = chosen[it.name]
                key = it.name + "_data"
                kw[key] = Obj(c.body.cname, self.body(c.body, f"{path}.{key}")) if c is not None and c.body else None
                others = [o for o in it.cases if o.body is not None and o is not c]
                if others:
                    o = others[r.randrange(len(others))]
                    self.sites.append((kw, key, f"{path}.{key}: case data of class {o.body.cname} for "
                                       f"{'no match' if c is None else 'default' if c.default else 'case ' + c.value}",
                                       lambda o=o, path=path, key=key: Obj(o.body.cname, ValueGen(self.info, self.rng, True).body(o.body, f"{path}.{key}"))))
        return kw

    def _case_value(self, t: Ty, text: str):
        if t.kind == "enum":
            e = self.info.enums[t.name]
            for name, _, ordinal in e.members:
                if name == text:
                    return EnumRef(t.name, ordinal, self.rng.random() < 0.6)
            return EnumRef(t.name, int(text), self.rng.random() < 0.3)
        return int(text)

    def _unmatched(self, t: Ty, used: set):
        if t.kind == "enum":
            e = self.info.enums[t.name]
            avoid = {m[2] for m in e.members if m[0] in used} | {int(u) for u in used if u.isdigit()}
            return self.enum(t, avoid)
        avoid = {int(u) for u in used}
        for _ in range(100):
            n = self.int_(t.base)
            if n not in avoid:
                return n
        return next(n for n in range(INT_MAX[t.base] + 1) if n not in avoid)

    # ---- violation sites ----
    def _field_sites(self, kw, it: It, p: str, is_switch_field: bool):
        r, S = self.rng, self.sites
        if is_switch_field:
            return
        if not it.optional:
            S.append((kw, it.name, f"{p}: required field None", lambda: None))
        if it.t.kind == "int":
            lim = INT_MAX[it.t.base] + 1
            S.append((kw, it.name, f"{p}: {it.t.base} out of range", lambda: lim + r.choice([0, 5])))
        if it.t.kind == "enum":
            # an enum value whose ordinal does not fit the field's wire type (the override, when the field spells one)
            lim = INT_MAX[it.t.base] + 1
            S.append((kw, it.name, f"{p}: enum {it.t.base} out of range", lambda: EnumRef(it.t.name, lim + r.choice([0, 5]), False)))
        if it.t.kind == "str" and it.length is not None:
            cur = kw[it.name]
            if isinstance(it.length, int):
                n = it.length + 1 if it.padded or it.length == 0 else it.length + r.choice([-1, 1])
                S.append((kw, it.name, f"{p}: string length {n} for {'padded' if it.padded else 'fixed'} {it.length}",
                          lambda: (cur + self.string(n))[:n] if n > len(cur) else cur[:n]))
            else:
                hi = INT_MAX[it.lenfield.t.base] + it.lenfield.offset
                if hi + 1 <= 70000:
                    S.append((kw, it.name, f"{p}: string length {hi + 1} over length-field limit {hi}",
                              lambda: (cur * ((hi + 1) // max(1, len(cur)) + 1) + "x" * (hi + 1))[:hi + 1]))

    def _array_sites(self, kw, it: It, p: str):
        r, S = self.rng, self.sites
        if not it.optional:
            S.append((kw, it.name, f"{p}: required array None", lambda: None))
        cur = kw[it.name]
        mk = lambda: self.value(it.t, None, p + "[+]", nonempty=True)
        if isinstance(it.length, int):
            n = it.length + (1 if it.length == 0 else r.choice([-1, 1]))
            S.append((kw, it.name, f"{p}: array length {n} for fixed {it.length}",
                      lambda: cur[:n] if n < len(cur) else cur + [mk()]))
        elif it.lenfield is not None:
            hi = INT_MAX[it.lenfield.t.base] + it.lenfield.offset
            if hi + 1 <= 300:
                S.append((kw, it.name, f"{p}: array length {hi + 1} over length-field limit {hi}",
                          lambda: cur + [mk() for _ in range(hi + 1 - len(cur))]))
        if it.t.kind == "int" and cur:
            i = r.randrange(len(cur))
            lim = INT_MAX[it.t.base] + 1
            S.append((cur, i, f"{p}[{i}]: {it.t.base} out of range", lambda: lim + r.choice([0, 5])))
        if it.t.kind == "enum" and cur:
            i = r.randrange(len(cur))
            lim = INT_MAX[it.t.base] + 1
            S.append((cur, i, f"{p}[{i}]: enum {it.t.base} out of range", lambda: EnumRef(it.t.name, lim + r.choice([0, 5]), False)))


def random_bytes(rng, valid_serialisations, cap_prefixes: int = 40) -> list:
    """hostile inputs: valid serialisations, their prefixes, mutations, junk-extended, uniformly random"""
    out, r = [], rng
    hot = [0x00, 0xFE, 0xFF, 0xFF, 0x01, 0xFD]
    prefixes = 0
    for s in valid_serialisations:
        s = bytes(s)
        out.append(s)
        cuts = list(range(len(s)))
        if prefixes + len(cuts) > cap_prefixes:
            cuts = sorted(r.sample(cuts, max(0, cap_prefixes - prefixes)))
        prefixes += len(cuts)
        out += [s[:i] for i in cuts]
        for _ in range(3):
            b = bytearray(s)
            for _ in range(r.randint(1, 3)):
                v = r.choice(hot) if r.random() < 0.7 else r.randrange(256)
                if b and r.random() < 0.6:
                    b[r.randrange(len(b))] = v
                else:
                    b.insert(r.randrange(len(b) + 1), v)
            out.append(bytes(b))
        out.append(s + bytes(r.choice(hot) if r.random() < 0.5 else r.randrange(256) for _ in range(r.randint(1, 6))))
    for _ in range(8):
        out.append(bytes(r.randrange(256) for _ in range(r.randrange(41))))
    return out


# --------------------------------------------------------------------------------------------
# random specifications
# --------------------------------------------------------------------------------------------

WORDS_A = ["Item", "Map", "Char", "Guild", "Shop", "Quest", "Spell", "Npc", "Warp", "Chest", "Board", "Party",
           "Trade", "Bank", "Skill", "Door", "Tile", "Drop", "Coords", "Stat"]
WORDS_B = ["Info", "Entry", "Record", "Update", "State", "Header", "Pair", "Block", "Part", "Node"]
FIELD_NAMES = ["x", "y", "kind", "amount", "level", "name", "title", "flags", "mode", "slot", "gold", "hp", "tp",
               "exp", "color", "rank", "tag", "note", "motd", "icon", "seed", "speed", "player_id", "item_type",
               "sub_kind", "map_x", "max_hp", "guild_tag", "a", "b2", "reply_code"]
MEMBER_NAMES = ["Alpha", "Beta", "Gamma", "Delta", "Open", "Closed", "Male", "Female", "Low", "High", "Admin", "None"]
FAMILIES = ["Talk", "Walk", "Shop", "Bank", "Warp"]
ACTIONS = ["Request", "Reply", "Open", "Close", "Ping"]
COMMENTS = ["plain comment", "a < b & c", "two\n    lines", "The 'quoted' \"text\"", "ends with colon:"]
HARD_STRINGS = ["k", "ok", "NO", "hello world", "a-b_c", "x y", "Zz9"]


@dataclass
class SInfo:
    name: str
    dir: str
    gbounded: bool = True
    closed: bool = True       # self-delimiting in any context (round-trip sense)
    min_size: int = 0
    ff: bool = False          # may emit a 0xFF byte that no next_chunk() consumes
    ch: bool = False          # contains a chunked section
    lead: bool = False        # always starts with >= 1 byte that is not a chunk break
    depth: int = 0


def _x(tag, attrs=(), children=(), text=None):
    return Xml(tag, [(k, v) for k, v in (attrs.items() if isinstance(attrs, dict) else attrs) if v is not None],
               text, None, children)


class _Gen:
    def __init__(self, rng, size, safe, akb):
        self.rng, self.size, self.safe, self.akb = rng, max(1, size), safe, akb
        self.enums: dict[str, EnumInfo] = {}
        self.structs: dict[str, SInfo] = {}
        self.used: set = set()

    def can_ref(self, frm: str, to: str) -> bool:
        return DIR_ORDER.index(to) <= DIR_ORDER.index(frm)

    def type_name(self):
        r = self.rng
        while True:
            n = r.choice(WORDS_A) + r.choice(WORDS_B) + (str(r.randrange(2, 10)) if r.random() < 0.3 else "")
            k = r.random()
            if k < 0.08:      # runs of capitals and capitals after digits: snake_case(name) does not round-trip to the name
                n = r.choice(["NPC", "EIF", "ID", "HP", "TP"]) + n
            elif k < 0.16:
                n = n + r.choice(["ID", "2D", "HP", "3DView", "XY"])
            elif k < 0.20:
                n = r.choice(WORDS_A) + r.choice(["ID", "NPC", "2D"]) + r.choice(WORDS_B)
            sn = pascal_to_snake(n)
            if n not in self.used and ("snake:" + sn) not in self.used:
                self.used.add(n)
                self.used.add("snake:" + sn)
                return n

    def comment(self, p=0.15):
        return [_x("comment", text=self.rng.choice(COMMENTS))] if self.rng.random() < p else []

    def make_enum(self, d, name=None, members=None):
        r = self.rng
        base = r.choice(["char", "char", "short", "byte", "three", "int"])
        name = name or self.type_name()
        if members is None:
            members = r.sample(MEMBER_NAMES, r.randint(1, 5))
        pool = list(range(0, min(INT_MAX[base], 12) + 1)) + [INT_MAX[base]]
        ords = r.sample(pool, len(members))
        self.enums[name] = EnumInfo(name, base, [(m, m, o) for m, o in zip(members, ords)], d)
        return _x("enum", {"name": name, "type": base}, self.comment() + [
            _x("value", {"name": m}, self.comment(0.1), text=str(o)) for m, o in zip(members, ords)])


class _Body:
    """builds the instruction list of one class body (struct, packet or case)"""

    def __init__(self, G: _Gen, d: str, chunked=False, reached_opt=False, seen_ff=False, after_chunk=False, level=0):
        self.G, self.d, self.r = G, d, G.rng
        self.ctx_chunked = chunked        # chunked_reading_enabled of the generator's context
        self.reached_opt = reached_opt
        self.dead = False                 # nothing may follow (dummy / unclosable open tail)
        self.opt_blocked = False          # optional reached only inside a case: a later optional field hits a known bug
        self.has_dummy = False
        self.names: set = set()
        self.switchable: list = []        # (name, Ty-like tuple (kind, base, enum name), optional)
        self.stack: list[list] = [[]]
        self.level = level
        # round-trip bookkeeping
        self.open = None                  # None | 'opt' | 'open'
        self.seen_ff, self.ff, self.ch = seen_ff, False, False
        self.after_chunk = after_chunk
        self.min_size, self.lead, self.depth, self.count = 0, None, 0, 0

    # ---- helpers ----
    @property
    def safe(self):
        return self.G.safe

    def name(self):
        for _ in range(100):
            n = self.r.choice(FIELD_NAMES)
            if n not in self.names:
                self.names.add(n)
                return n
        n = f"f{len(self.names)}"
        self.names.add(n)
        return n

    def put(self, x: Xml, size=0, lead=False, ff=False, ch=False, open_=None, optional=False):
        self.stack[-1].append(x)
        self.count += 1
        if self.lead is None:
            self.lead = lead and not optional
        if not optional:
            self.min_size += size
        self.ff |= ff
        self.seen_ff |= ff
        self.ch |= ch
        if optional:
            self.reached_opt = True
            self.open = "open" if open_ else "opt"
        elif open_:
            self.open = "open"

    def may_ff(self, ff, ch=False):
        """round-trip admissibility of an item that may emit stray 0xFF / contains a chunked section"""
        if not self.safe:
            return True
        if ff and (self.ctx_chunked or self.in_chunk):
            return False
        if ch and self.seen_ff:
            return False
        return True

    @property
    def in_chunk(self):
        return self.ctx_chunked or len(self.stack) > 1

    def want_optional(self, allowed=True):
        if self.reached_opt:
            return True
        if not allowed:
            return False
        return self.r.random() < (0.10 if self.safe else 0.15)

    def open_ok(self):
        """may an open (unbounded / optional) item be placed here (round-trip mode)?"""
        return not self.safe or (not self.after_chunk)

    # ---- items ----
    def scalar_type(self):
        """(type string, Ty, size, ff)"""
        r, G = self.r, self.G
        c = r.random()
        enums = [e for e in G.enums.values() if G.can_ref(self.d, e.dir) and e.name not in ("PacketFamily", "PacketAction")]
        if c < 0.55 or (not enums and c < 0.8):
            b = r.choice(["byte", "char", "char", "short", "three", "int"])
            return b, Ty("int", b, b), INT_SIZE[b], b == "byte"
        if c < 0.8:
            e = r.choice(enums)
            if r.random() < 0.3:
                b = r.choice([k for k in INT_MAX if INT_MAX[k] >= max(m[2] for m in e.members)])
                return f"{e.name}:{b}", Ty("enum", b, e.name), INT_SIZE[b], b == "byte"
            return e.name, Ty("enum", e.base, e.name), INT_SIZE[e.base], e.base == "byte"
        if r.random() < 0.4:
            b = r.choice(["byte", "char", "short", "three", "int"])
            return f"bool:{b}", Ty("bool", b, "bool"), INT_SIZE[b], False
        return "bool", Ty("bool", "char", "bool"), 1, False

    def struct_choices(self, pred):
        G = self.G
        return [s for s in G.structs.values() if G.can_ref(self.d, s.dir) and s.depth < 3 and pred(s)]

    def add_scalar(self):
        ts, ty, size, ff = self.scalar_type()
        if not self.may_ff(ff):
            return False
        opt = self.want_optional()
        if opt and not self.open_ok():
            return False
        n = self.name()
        self.put(_x("field", {"name": n, "type": ts, "optional": "true" if opt else None}, self.G.comment()),
                 size=size, lead=True, ff=ff, optional=opt)
        if ty.kind in ("int", "enum") and (not opt or not self.safe):
            self.switchable.append((n, ty, opt))
        return True

    def add_string(self):
        r = self.r
        ts = r.choice(["string", "string", "encoded_string"])
        mode = r.choice(["fixed", "padded", "ref", "free", "free"])
        opt = self.want_optional()
        if opt and (not self.open_ok() or (mode == "ref" and self.G.akb)):
            return False
        if mode == "free" and not self.open_ok():
            return False
        attrs = {"name": None, "type": ts}
        size, lead, ff, open_ = 0, False, False, False
        if mode in ("fixed", "padded"):
            n = r.choice([1, 2, 3, 5, 8, 12])
            attrs["length"] = str(n)
            size, lead = n, mode == "fixed"
            if mode == "padded":
                attrs["padded"] = "true"
                ff = True
        elif mode == "ref":
            if not self.may_ff(False):
                return False
            ln = self.add_length(opt)
            if ln is None:
                return False
            attrs["length"] = ln
            if r.random() < 0.3:
                attrs["padded"] = "true"
        else:
            open_ = True
        if not self.may_ff(ff):
            return False
        attrs["name"] = self.name()
        if opt:
            attrs["optional"] = "true"
        self.put(_x("field", attrs, self.G.comment()), size=size, lead=lead, ff=ff, open_=open_, optional=opt)
        return True

    def add_length(self, opt):
        """emit a <length> (and maybe one plain field after it); returns its name"""
        r = self.r
        b = r.choice(["char", "char", "short", "three", "int", "byte"])
        if not self.may_ff(b == "byte"):
            b = "char"
        off = r.choice([0, 0, 0, 1, 2, 3, -1, -2])
        n = self.name()
        self.put(_x("length", {"name": n, "type": b, "offset": str(off) if off else None,
                               "optional": "true" if opt else None}, self.G.comment(0.05)),
                 size=INT_SIZE[b], lead=True, ff=b == "byte", optional=opt)
        if r.random() < 0.25 and not opt:
            self.add_scalar_plain()
        return n

    def add_scalar_plain(self):
        b = self.r.choice(["char", "short", "int"])
        n = self.name()
        self.put(_x("field", {"name": n, "type": b}), size=INT_SIZE[b], lead=True)
        self.switchable.append((n, Ty("int", b, b), False))

    def add_blob(self):
        opt = self.want_optional()
        if not self.may_ff(True) or not self.open_ok():
            return False
        self.put(_x("field", {"name": self.name(), "type": "blob", "optional": "true" if opt else None}),
                 ff=True, open_=True, optional=opt)
        return True

    def add_struct(self):
        opt = self.want_optional()
        need_lead = opt and self.safe
        cands = self.struct_choices(lambda s: self.may_ff(s.ff, s.ch) and (s.closed or self.open_ok())
                                    and (not need_lead or s.lead))
        if not cands or (opt and not self.open_ok()):
            return False
        s = self.r.choice(cands)
        self.put(_x("field", {"name": self.name(), "type": s.name, "optional": "true" if opt else None}, self.G.comment()),
                 size=s.min_size, lead=s.lead, ff=s.ff, ch=s.ch, open_=not s.closed, optional=opt)
        self.depth = max(self.depth, s.depth + 1)
        return True

    def add_hardcoded(self):
        r = self.r
        if self.reached_opt:
            if self.G.akb or r.random() < 0.5:
                return False
        named = (not self.G.akb and r.random() < 0.4) or self.reached_opt
        opt = self.reached_opt
        k = r.choice(["int", "int", "bool", "str", "strn"])
        attrs = {"name": self.name() if named else None}
        size, open_ = 1, False
        if k == "int":
            b = r.choice(["char", "short", "three", "int", "byte"])
            if not self.may_ff(b == "byte"):
                b = "char"
            text = str(r.choice([0, 1, 5, INT_MAX[b], r.randrange(INT_MAX[b] + 1)]))
            attrs["type"], size = b, INT_SIZE[b]
            ff = b == "byte"
        elif k == "bool":
            attrs["type"], text, ff = r.choice(["bool", "bool:short"]), r.choice(["true", "false"]), False
            size = 2 if attrs["type"].endswith("short") else 1
        else:
            text, ff = r.choice(HARD_STRINGS), False
            attrs["type"] = r.choice(["string", "encoded_string"])
            if k == "strn":
                attrs["length"], size = str(len(text)), len(text)
                if r.random() < 0.3:
                    attrs["padded"] = "true"
            else:
                if not self.open_ok():
                    return False
                size, open_ = len(text), True
        if not self.may_ff(ff):
            return False
        if opt:
            attrs["optional"] = "true"
        if r.random() < 0.3:
            x = _x("field", attrs, [Xml("comment", text="hard-coded", tail=text)])
        else:
            x = _x("field", attrs, text=r.choice([text, f"\n      {text}\n    "]) if k != "str" else text)
        self.put(x, size=size, lead=True, ff=ff, open_=open_, optional=opt)
        return True

    def add_array(self):
        r, G = self.r, self.G
        opt = self.want_optional(allowed=not G.akb)
        if opt and (G.akb or not self.open_ok()):
            return False
        delimited = self.in_chunk and r.random() < 0.6
        lmode = r.choice(["lit", "ref", "none"])
        if lmode == "none" and not self.open_ok():
            return False
        trailing = True
        if delimited and r.random() < 0.35 and not (self.safe and lmode == "none"):
            trailing = False
        # element type
        c = r.random()
        e_open, e_lead, e_ff, e_ch, e_size = False, True, False, False, 1
        if c < 0.45:
            ts, ty, e_size, e_ff = self.scalar_type()
        elif c < 0.6 and delimited:
            ts = r.choice(["string", "encoded_string"] + ([] if self.safe else ["blob"]))
            e_open, e_lead, e_size = True, True, 0    # values are non-empty in lossless mode
        else:
            def ok(s):
                if s.min_size < 1 or (s.ff and s.ch and self.safe):
                    return False
                if not delimited and not s.gbounded:
                    return False
                if self.safe and not delimited and not s.closed:
                    return False
                # "until nothing remains" loops stop at an element that starts with a chunk break
                # (e.g. absent optionals followed by the element's own <break/>)
                if self.safe and lmode == "none" and not s.lead:
                    return False
                return self.may_ff(s.ff, s.ch)
            cands = self.struct_choices(ok)
            if not cands:
                return False
            s = r.choice(cands)
            ts, e_open, e_lead, e_ff, e_ch, e_size = s.name, not s.closed, s.lead, s.ff, s.ch, s.min_size
            self.depth = max(self.depth, s.depth + 1)
        if not self.may_ff(e_ff, e_ch):
            return False
        attrs = {"name": None, "type": ts}
        n = 0
        if lmode == "lit":
            n = r.choice([1, 2, 3, 4])
            attrs["length"] = str(n)
        elif lmode == "ref":
            ln = self.add_length(opt)
            attrs["length"] = ln
        attrs["name"] = self.name()
        if opt:
            attrs["optional"] = "true"
        if delimited:
            attrs["delimited"] = "true"
            if not trailing:
                attrs["trailing-delimiter"] = "false"
        elif r.random() < 0.1 and self.in_chunk:
            attrs["trailing-delimiter"] = r.choice(["true", "false"])   # ignored without delimited
        open_ = lmode == "none" or (delimited and not trailing and e_open) or (not delimited and e_open)
        if open_ and not self.open_ok():
            return False
        self.put(_x("array", attrs, G.comment()), size=n * e_size + (n if delimited and trailing else 0),
                 lead=n > 0 and e_lead, ff=e_ff, ch=e_ch, open_=open_, optional=opt)
        return True

    def add_dummy(self):
        r = self.r
        if self.safe and self.count > 0:
            return False
        k = r.choice(["int", "int", "bool", "str"])
        if k == "int":
            b = r.choice(["char", "short", "byte"])
            if not self.may_ff(b == "byte"):
                b = "char"
            x, size, open_ = _x("dummy", {"type": b}, text=str(r.choice([0, 1, INT_MAX[b]]))), INT_SIZE[b], False
        elif k == "bool":
            x, size, open_ = _x("dummy", {"type": "bool"}, text=r.choice(["true", "false"])), 1, False
        else:
            if not self.open_ok():
                return False
            t = r.choice(HARD_STRINGS)
            x, size, open_ = _x("dummy", {"type": "string"}, text=t), len(t), True
        first = self.count == 0
        self.put(x, size=size if first else 0, lead=first, open_=open_ and first, ff=(x.get("type") == "byte"))
        self.dead = self.has_dummy = True
        return True

    def add_break(self):
        if not self.in_chunk:
            return False
        self.put(_x("break"), size=1, lead=False)
        self.reached_opt = self.opt_blocked = False
        self.open = None
        return True

    def add_chunked(self):
        if self.level > 3 or not self.may_ff(False, True):
            return False
        if self.in_chunk and (self.safe or self.r.random() < 0.7):
            return False
        was = self.in_chunk
        self.ch = True
        self.stack.append([])
        self.fill(self.r.randint(0 if not self.safe else 1, 2 + self.G.size // 2))
        if (self.open or self.opt_blocked) and not self.dead and (self.opt_blocked or self.r.random() < 0.6):
            self.add_break()
        inner = self.stack.pop()
        self.stack[-1].append(_x("chunked", children=self.G.comment(0.05) + inner))
        self.count += 1
        if not was:
            self.after_chunk = True
            if self.safe and self.open:
                self.dead = True
        return True

    def add_switch(self):
        r, G = self.r, self.G
        if self.level >= 2 or not self.switchable:
            return False
        if self.safe and self.open:
            return False
        i = r.randrange(len(self.switchable))
        fname, ty, fopt = self.switchable.pop(i)
        ncases = r.randint(1, 3)
        values = []
        if ty.kind == "int":
            pool = list(range(0, min(INT_MAX[ty.base], 9) + 1)) + [INT_MAX[ty.base]]
            values = [str(v) for v in r.sample(pool, min(ncases, len(pool)))]
        else:
            e = G.enums[ty.name]
            names = [m[0] for m in e.members if m[2] <= INT_MAX[ty.base]]
            values = r.sample(names, min(len(names), ncases))
            free = [v for v in list(range(0, min(INT_MAX[ty.base], 20) + 1)) if v not in {m[2] for m in e.members}]
            if free and (r.random() < 0.3 or not values):
                values.append(str(r.choice(free)))
            r.shuffle(values)
        cases = [(v, False) for v in values]
        if r.random() < 0.4:
            cases.append((None, True))
        xs, any_opt, any_dummy, any_open = [], False, False, False
        only_bare = self.reached_opt and G.akb
        for v, default in cases:
            sub = _Body(G, self.d, chunked=self.in_chunk, reached_opt=self.reached_opt, seen_ff=self.seen_ff,
                        after_chunk=self.after_chunk, level=self.level + 1)
            if r.random() < 0.75:
                if only_bare:
                    if r.random() < 0.4:
                        sub.add_dummy()
                else:
                    sub.fill(r.randint(1, 1 + G.size // 2))
            any_opt |= sub.reached_opt
            any_dummy |= sub.has_dummy
            any_open |= sub.open is not None
            self.ff |= sub.ff
            self.seen_ff |= sub.seen_ff
            self.ch |= sub.ch
            self.depth = max(self.depth, sub.depth)
            self.after_chunk |= sub.after_chunk
            xs.append(_x("case", {"default": "true"} if default else {"value": v}, G.comment(0.1) + sub.stack[0]))
        self.stack[-1].append(_x("switch", {"field": fname}, xs))
        self.count += 1
        if any_opt and not self.reached_opt and G.akb:
            self.opt_blocked = True
        self.reached_opt |= any_opt
        if any_dummy:
            self.dead = self.has_dummy = True
        if any_open:
            self.open = "open"
        return True

    # ---- driver ----
    def fill(self, n):
        r = self.r
        for _ in range(n):
            if self.dead:
                return
            if self.opt_blocked:
                if not (self.in_chunk and self.add_break()):
                    self.dead = len(self.stack) == 1
                    return
                continue
            if self.safe and self.open == "open":
                if self.in_chunk and r.random() < 0.7:
                    self.add_break()
                    continue
                if len(self.stack) == 1:
                    self.dead = True
                return
            if self.reached_opt:
                opts = [(5, self.add_scalar), (2, self.add_string), (1, self.add_struct), (1, self.add_break),
                        (1, self.add_blob)]
                if not self.safe:
                    opts += [(1, self.add_switch), (1, self.add_array), (0.5, self.add_dummy), (0.5, self.add_chunked),
                             (0.5, self.add_hardcoded)]
            else:
                opts = [(6, self.add_scalar), (3, self.add_string), (2.5, self.add_struct), (3, self.add_array),
                        (2.5, self.add_switch), (1.5, self.add_chunked), (1, self.add_hardcoded),
                        (0.6, self.add_blob), (0.3 if self.count else 1.0, self.add_dummy),
                        (1.5 if self.in_chunk else 0, self.add_break)]
            for _ in range(6):
                fn = r.choices([f for _, f in opts], [w for w, _ in opts])[0]
                if fn():
                    break


def g_bounded(elem: Xml, G: _Gen) -> bool:
    """TypeFactory._is_bounded"""
    flat = []

    def walk(x):
        flat.append(x)
        if x.tag == "chunked":
            for c in instructions(x):
                walk(c)
        elif x.tag == "switch":
            for case in x.find_all("case"):
                for c in instructions(case):
                    walk(c)
    for c in instructions(elem):
        walk(c)

    def tb(ts, has_len):
        name = ts.split(":")[0]
        if name in ("string", "encoded_string"):
            return has_len
        if name == "blob":
            return False
        if name in G.structs:
            return G.structs[name].gbounded
        return True
    res = True
    for x in flat:
        if not res:
            res = x.tag == "break"
            continue
        if x.tag == "field":
            res = tb(x.get("type"), x.get("length") is not None)
        elif x.tag == "array":
            res = tb(x.get("type"), False) and x.get("length") is not None
        elif x.tag == "dummy":
            res = tb(x.get("type"), False)
    return res


def pretty(x: Xml, depth=0) -> Xml:
    """indentation whitespace where it does not change the meaning"""
    kids = [pretty(c, depth + 1) for c in x.children]
    if not kids:
        return x
    pad = "\n" + "  " * (depth + 1)
    kids = [c.replace(tail=(c.tail or "") + (pad if i + 1 < len(kids) else "\n" + "  " * depth)) if not (c.tail or "").strip()
            else c for i, c in enumerate(kids)]
    return x.replace(text=pad if x.text is None else x.text, children=kids)


def random_spec(rng, size: int = 4, roundtrip_safe: bool = True, avoid_known_bugs: bool = True):
    G = _Gen(rng, size, roundtrip_safe, avoid_known_bugs)
    r = rng
    packets = r.random() < 0.5
    dirs = r.sample(DIR_ORDER, r.randint(1, 4))
    if packets:
        need = ["net", r.choice(["net/client", "net/server"])]
        others = [d for d in dirs if d not in need]
        dirs = need + others[:r.randint(0, 2)]
    dirs = [d for d in DIR_ORDER if d in dirs]
    content: dict[str, list] = {d: [] for d in dirs}
    for _ in range(1 + G.size // 2):
        d = r.choice(dirs)
        content[d].append(G.make_enum(d))
    fams = acts = []
    if packets:
        fams, acts = r.sample(FAMILIES, r.randint(1, 3)), r.sample(ACTIONS, r.randint(1, 3))
        if r.random() < 0.2:
            acts.append("None")
        content["net"].append(G.make_enum("net", "PacketFamily", fams))
        content["net"].append(G.make_enum("net", "PacketAction", acts))

    def make_body(d):
        while True:
            b = _Body(G, d)
            b.fill(r.randint(1, 2 + G.size))
            if b.count:
                return b
    for _ in range(r.randint(G.size, 2 * G.size)):
        d = r.choice(dirs)
        name = G.type_name()
        b = make_body(d)
        elem = _x("struct", {"name": name}, G.comment() + b.stack[0])
        G.structs[name] = SInfo(name, d, g_bounded(elem, G), b.open is None, b.min_size, b.ff, b.ch, bool(b.lead), b.depth)
        content[d].append(elem)
    if packets:
        for d in [x for x in dirs if x in ("net/client", "net/server")]:
            combos = r.sample([(f, a) for f in fams for a in acts], min(len(fams) * len(acts), r.randint(1, 3)))
            for f, a in combos:
                b = make_body(d)
                content[d].append(_x("packet", {"family": f, "action": a}, G.comment() + b.stack[0]))
    files = []
    for d in dirs:
        kids = content[d]
        if r.random() < 0.3:
            r.shuffle(kids)
        if r.random() < 0.2:
            kids = [Xml(COMMENT_TAG, text=" generated by specgen ")] + kids
        root = _x("protocol", children=kids)
        files.append((d, pretty(root) if r.random() < 0.5 else root))
    return files


# --------------------------------------------------------------------------------------------
# description / self-test
# --------------------------------------------------------------------------------------------

def describe(files) -> dict:
    h: dict[str, int] = {}

    def c(k, n=1):
        h[k] = h.get(k, 0) + n
    enums = {e.get("name") for _, root in files for e in root.find_all("enum")}

    def tkind(ts):
        name, _, under = ts.partition(":")
        k = name if name in INT_MAX or name in ("bool", "string", "encoded_string", "blob") else \
            "enum" if name in enums else "struct"
        return f"type:{k}" + (":override" if under else "")

    def walk(x, depth, chunked):
        h["max-depth"] = max(h.get("max-depth", 0), depth)
        for k in x.children:
            if k.tag == COMMENT_TAG:
                c("xml-comment")
                continue
            c(k.tag)
            if k.tag in ("field", "array", "length", "dummy"):
                c(tkind(k.get("type")))
                for a in ("optional", "padded", "delimited"):
                    if k.get(a):
                        c(f"{k.tag}:{a}")
                if k.get("trailing-delimiter") == "false" and k.get("delimited"):
                    c("array:no-trailing-delimiter")
                if k.get("length") is not None:
                    c(f"{k.tag}:length-" + ("literal" if k.get("length").isdigit() else "ref"))
                elif k.tag == "array":
                    c("array:length-none")
                if k.get("offset"):
                    c("length:offset" + ("+" if int(k.get("offset")) > 0 else "-"))
                if k.tag == "field" and xml_text(k) is not None:
                    c("field:hardcoded-" + ("named" if k.get("name") else "unnamed"))
            if k.tag == "switch" and depth > 0:
                c("switch:nested")
            if k.tag == "switch" and chunked:
                c("switch:in-chunked")
            if k.tag == "case":
                c("case:default" if k.get("default") else "case:value")
                if not instructions(k):
                    c("case:empty")
            if k.tag in ("struct", "packet", "switch", "case", "chunked", "enum", "value"):
                walk(k, depth + (k.tag in ("case", "chunked")), chunked or k.tag == "chunked")
    for d, root in files:
        c("file")
        c("dir:" + (d or "(root)"))
        walk(root, 0, False)
    return dict(sorted(h.items()))


STAT_KEYS = ["specs", "accepted", "classes", "objects", "roundtrips", "known-bug-hits", "invalid-kwargs", "hostile-inputs"]
KNOWN_BUG_ERRORS = ("TypeError", "UnboundLocalError", "NameError")


def check_spec(files, safe: bool, akb: bool, rng, stats: dict, failures: list, label: str, objs_per_class: int = 5):
    """generate, load, construct, serialize (and round-trip when `safe`); returns True when clean"""
    def fail(msg):
        failures.append(f"{label}: {msg}")
        return False
    with GenRun(files) as g:
        if g.error is not None:
            return fail(f"generator rejected: {type(g.error).__name__}: {g.error}")
        stats["accepted"] += 1
        try:
            g.load()
        except Exception as e:  # noqa: BLE001
            return fail(f"import failed: {type(e).__name__}: {e}")
        info = SpecInfo(g.parsed, g)
        ok = True
        for cname in info.classes():
            stats["classes"] += 1
            ci = info.cls(cname)
            cls = ci.pyclass
            sers = []
            for _ in range(objs_per_class):
                try:
                    kw = ci.random_kwargs(rng, valid=True, lossless=safe)
                    obj = cls(**kw)
                    data = ser_bytes(cls, obj)
                except Exception as e:  # noqa: BLE001
                    if not akb and common.exc_class(e) in KNOWN_BUG_ERRORS:
                        stats["known-bug-hits"] += 1
                        continue
                    ok = fail(f"{cname}: construct/serialize {type(e).__name__}: {e}")
                    continue
                stats["objects"] += 1
                sers.append(data)
                if not safe:
                    continue
                try:
                    back, _ = de_obj(cls, data)
                except BaseException as e:  # noqa: BLE001
                    ok = fail(f"{cname}: deserialize {type(e).__name__}: {e} data={data.hex()}")
                    continue
                a, b = render_nosize(obj), render_nosize(back)
                if a == b and back.byte_size == len(data):
                    stats["roundtrips"] += 1
                else:
                    ok = fail(f"{cname}: round-trip mismatch data={data.hex()}\n    orig {a}\n    back {b} size {back.byte_size}")
            if akb:     # smoke test of the violation and hostile-input generators (outcomes are only counted)
                kw, what = ci.random_kwargs(rng, valid=False)
                stats["invalid-kwargs"] += what != "none-possible"
                for data in rng.sample(hostile := random_bytes(rng, sers[:2]), min(12, len(hostile))):
                    res = do_de(cls, data, rng.random() < 0.3, timeout=0.25).split()
                    stats["hostile-inputs"] += 1
                    stats["hostile-" + (res[1] if res[0] == "err" else "ok")] = stats.get("hostile-" + (res[1] if res[0] == "err" else "ok"), 0) + 1
        return ok


def selftest(seeds=range(200), verbose=False):
    stats = dict.fromkeys(STAT_KEYS, 0)
    failures, hist = [], {}
    for seed in seeds:
        rng = random.Random(seed)
        safe, akb = seed % 2 == 0, seed % 4 != 3
        files = random_spec(rng, size=2 + seed % 4, roundtrip_safe=safe, avoid_known_bugs=akb)
        stats["specs"] += 1
        for k, v in describe(files).items():
            hist[k] = max(hist.get(k, 0), v) if k == "max-depth" else hist.get(k, 0) + v
        n = len(failures)
        check_spec(files, safe, akb, rng, stats, failures, f"seed {seed} safe={int(safe)} akb={int(akb)}")
        if verbose and len(failures) > n:
            print("\n".join(failures[n:n + 3]))
    return stats, hist, failures


def main(argv):
    seeds = range(int(argv[1])) if len(argv) > 1 else range(200)
    stats, hist, failures = selftest(seeds)
    cstats = dict.fromkeys(STAT_KEYS, 0)
    cfail: list = []
    for title, safe, files in catalogue_specs():
        cstats["specs"] += 1
        check_spec(files, safe, True, random.Random(7), cstats, cfail, f"catalogue '{title}'", 12)
        for k, v in describe(files).items():
            hist[k] = max(hist.get(k, 0), v) if k == "max-depth" else hist.get(k, 0) + v
    print("random specs :", stats)
    print("catalogue    :", cstats)
    print("constructs   :", hist)
    for f in (failures + cfail)[:40]:
        print("FAIL", f)
    print(f"{len(failures) + len(cfail)} failures")
    return 1 if failures or cfail else 0


_NET = """<protocol>
  <enum name="PacketFamily" type="byte"><value name="Talk">1</value><value name="Walk">2</value></enum>
  <enum name="PacketAction" type="byte"><value name="Request">1</value><value name="Reply">2</value><value name="None">0</value></enum>
  <enum name="Direction" type="char"><comment>facing</comment>
    <value name="Down">0</value><value name="Left">1</value><value name="Up">2</value><value name="Right">3</value></enum>
  <struct name="Coords"><field name="x" type="char"/><field name="y" type="char"/></struct>
</protocol>"""

_CATALOGUE = [
    ("scalars, overrides, hard-coded fields", True, [("", """<protocol>
  <enum name="Gender" type="char"><value name="Female">0</value><value name="Male">1</value></enum>
  <enum name="Wide" type="three"><value name="None">0</value><value name="Far">16194276</value></enum>
  <struct name="Scalars">
    <field name="a" type="byte"/><field name="b" type="char"/><field name="c" type="short"/>
    <field name="d" type="three"/><field name="e" type="int"/><field name="f" type="bool"/>
    <field name="g" type="bool:short"/><field name="h" type="Gender"/><field name="i2" type="Gender:short"/>
    <field name="w" type="Wide"/><field name="w2" type="Wide:int"/>
    <field type="char">5</field><field type="short"><comment>c</comment>64008</field><field type="bool">true</field>
    <field type="string" length="2">ok</field><field type="bool:three">false</field>
  </struct>
</protocol>""")]),
    ("strings: fixed, padded, encoded, length fields with offsets", True, [("pub", """<protocol>
  <struct name="Strings">
    <field name="fixed" type="string" length="3"/>
    <field name="enc_fixed" type="encoded_string" length="4"/>
    <length name="n1" type="char" offset="2"/>
    <field name="mid" type="short"/>
    <field name="by_len" type="string" length="n1"/>
    <length name="n2" type="short" offset="-1"/>
    <field name="enc_len" type="encoded_string" length="n2" padded="true"/>
    <field name="pad" type="string" length="6" padded="true"/>
    <field name="enc_pad" type="encoded_string" length="5" padded="true"/>
    <field type="encoded_string" length="5">hello</field>
    <field name="rest" type="encoded_string"/>
  </struct>
</protocol>""")]),
    ("arrays: literal, length field, to the end, struct and enum elements", True, [("", """<protocol>
  <enum name="Color" type="short"><value name="Red">1</value><value name="Blue">300</value></enum>
  <struct name="Pt"><field name="x" type="char"/><field name="y" type="short"/></struct>
  <struct name="Named"><length name="n" type="char"/><field name="name" type="string" length="n"/></struct>
  <struct name="Arrays">
    <array name="three_ints" type="int" length="3"/>
    <length name="count" type="char" offset="1"/>
    <array name="pts" type="Pt" length="count"/>
    <length name="count2" type="short" offset="-2"/>
    <array name="names" type="Named" length="count2"/>
    <array name="colors" type="Color:three" length="2"/>
    <array name="flags" type="bool:short" length="2"/>
    <array name="tail" type="Named"/>
  </struct>
  <struct name="FixedTail"><field name="k" type="char"/><array name="tail" type="Pt"/></struct>
</protocol>""")]),
    ("chunked: delimited struct arrays with and without trailing delimiter, breaks", True, [("map", """<protocol>
  <struct name="Line"><field name="id" type="short"/><field name="text" type="string"/></struct>
  <struct name="Cell"><field name="v" type="char"/></struct>
  <struct name="Chunky">
    <field name="version" type="char"/>
    <chunked>
      <field name="title" type="string"/><break/>
      <array name="lines" type="Line" length="2" delimited="true"/>
      <length name="n" type="char"/>
      <array name="more" type="Line" length="n" delimited="true" trailing-delimiter="false"/><break/>
      <array name="cells" type="Cell"/><break/>
      <array name="words" type="string" delimited="true"/><break/>
      <array name="nums" type="short" length="2" delimited="true" trailing-delimiter="false"/><break/>
      <field name="motd" type="encoded_string"/>
    </chunked>
  </struct>
</protocol>""")]),
    ("switches: enum names, numerals, default, member None, empty cases, nested, in chunked", True, [("", """<protocol>
  <enum name="Kind" type="char"><value name="None">0</value><value name="Item">1</value><value name="Npc">2</value>
    <value name="Spell">3</value></enum>
  <struct name="Switchy">
    <field name="kind" type="Kind"/>
    <field name="sub_kind" type="short"/>
    <chunked>
      <switch field="kind">
        <case value="None"/>
        <case value="Item"><field name="id" type="short"/><field name="name" type="string"/><break/>
          <field name="mode" type="char"/>
          <switch field="mode">
            <case value="1"><field name="extra" type="string"/><break/></case>
            <case value="2"/>
            <case default="true"><field name="other" type="int"/></case>
          </switch>
        </case>
        <case value="Npc"><comment>npc data</comment><array name="ids" type="short"/><break/></case>
        <case value="9"><field name="nine" type="char"/></case>
        <case default="true"><field name="dflt" type="char"/></case>
      </switch>
      <switch field="sub_kind">
        <case value="0"/>
        <case value="64008"><field name="big" type="three"/></case>
      </switch>
      <field name="tail" type="string"/>
    </chunked>
  </struct>
</protocol>""")]),
    ("optional tails", True, [("pub", """<protocol>
  <struct name="OptTail"><field name="a" type="char"/><field name="b" type="short" optional="true"/>
    <field name="c" type="string" length="2" optional="true"/><field name="d" type="string" optional="true"/></struct>
  <struct name="OptChunks"><chunked>
    <field name="a" type="char"/><field name="b" type="char" optional="true"/><break/>
    <field name="c" type="string" optional="true"/><break/>
    <field name="inner" type="OptTail"/><break/>
    <field name="e" type="int" optional="true"/>
  </chunked></struct>
</protocol>""")]),
    ("dummy-only bodies", True, [("", """<protocol>
  <struct name="JustDummy"><dummy type="char">0</dummy></struct>
  <struct name="StringDummy"><comment>like the connection ping</comment><dummy type="string">k</dummy></struct>
  <struct name="BoolDummy"><dummy type="bool">true</dummy></struct>
  <struct name="DummyUser"><array name="ds" type="JustDummy" length="2"/><field name="kind" type="char"/>
    <field name="b" type="BoolDummy"/>
    <switch field="kind"><case value="1"><dummy type="short">300</dummy></case><case value="2"><field name="v" type="char"/></case>
      <case default="true"><dummy type="string">zz</dummy></case></switch></struct>
  <struct name="DummyLast"><field name="n" type="char"/><field name="last" type="StringDummy"/></struct>
  <struct name="DummyAfterConstant"><field type="char">5</field><dummy type="short">0</dummy></struct>
  <struct name="DummyAfterBreak"><chunked><field type="string">hi</field><break/><dummy type="char">7</dummy></chunked></struct>
  <struct name="DummyAfterEmptyArray"><array name="xs" type="char"/><dummy type="char">9</dummy></struct>
  <struct name="DummyInCaseAfterConstant"><field name="kind" type="char"/>
    <switch field="kind"><case value="1"><field type="string">ok</field><dummy type="char">3</dummy></case></switch></struct>
</protocol>""")]),
    ("blob last", True, [("pub", """<protocol>
  <struct name="WithBlob"><field name="id" type="short"/><field name="raw" type="byte"/><field name="content" type="blob"/></struct>
  <struct name="BlobHolder"><field name="n" type="char"/><field name="inner" type="WithBlob"/></struct>
</protocol>""")]),
    ("packets in both directions", True, [("net", _NET), ("net/client", """<protocol>
  <packet family="Talk" action="Request"><comment>say something</comment><field name="message" type="string"/></packet>
  <packet family="Walk" action="Request"><field name="direction" type="Direction"/><field name="timestamp" type="three"/>
    <field name="coords" type="Coords"/></packet>
  <packet family="Walk" action="None"><dummy type="char">0</dummy></packet>
</protocol>"""), ("net/server", """<protocol>
  <struct name="Nearby"><field name="id" type="short"/><field name="coords" type="Coords"/><field name="direction" type="Direction:short"/></struct>
  <packet family="Talk" action="Reply"><chunked><field name="player_name" type="string"/><break/><field name="message" type="string"/></chunked></packet>
  <packet family="Walk" action="Reply"><chunked><array name="players" type="Nearby" delimited="true"/></chunked></packet>
  <packet family="Talk" action="Request"><field name="code" type="char"/>
    <switch field="code"><case value="1"><field name="reason" type="string"/></case><case value="2"><field name="seconds" type="short"/></case></switch></packet>
</protocol>""")]),
    ("cross-directory references", True, [("", """<protocol>
  <enum name="Element" type="char"><value name="Fire">1</value><value name="Ice">2</value></enum>
  <struct name="Version"><field name="major" type="char"/><field name="minor" type="char"/></struct>
</protocol>"""), ("pub", """<protocol>
  <struct name="Record"><field name="version" type="Version"/><field name="element" type="Element"/>
    <length name="name_size" type="char"/><field name="name" type="string" length="name_size"/></struct>
</protocol>"""), ("pub/server", """<protocol>
  <struct name="RecordFile"><field name="version" type="Version"/><length name="n" type="short"/>
    <array name="records" type="Record" length="n"/></struct>
</protocol>"""), ("map", """<protocol>
  <struct name="MapHeader"><field type="string" length="3">EMF</field><field name="version" type="Version"/>
    <array name="elements" type="Element" length="2"/><field name="first" type="Record"/></struct>
</protocol>""")]),
    ("comments, whitespace, XML comments", True, [("", """<protocol>
  <!-- an XML comment -->
  <enum name="Mode" type="char">
    <comment>a &lt; b &amp; c
      second line</comment>
    <value name="Off">
      0
    </value>
    <value name="On"><comment>enabled</comment>1</value>
  </enum>
  <struct name="Commented">
    <comment>Struct comment "quoted"</comment>
    <field name="mode" type="Mode"><comment>the mode</comment></field>
    <!-- between fields -->
    <field type="char"><comment>hard-coded after comment</comment>
      7
    </field>
    <array name="xs" type="char" length="2"><comment>two numbers</comment></array>
    <length name="n" type="char"><comment>size</comment></length>
    <field name="s" type="string" length="n"><comment>sized</comment></field>
  </struct>
</protocol>""")]),
    ("ambiguous wire format (valid, not round-trip safe)", False, [("", """<protocol>
  <struct name="Greedy"><field name="first" type="string"/><field name="n" type="char"/><field name="opt" type="char" optional="true"/></struct>
  <struct name="DummyAfter"><field name="s" type="string"/><dummy type="char">9</dummy></struct>
  <struct name="RawBeforeChunk"><field name="raw" type="byte"/><chunked><field name="s" type="string"/><break/><field name="t" type="string"/></chunked></struct>
  <struct name="FreeDelimited"><chunked><array name="ws" type="string" delimited="true" trailing-delimiter="false"/><break/><field name="k" type="char"/></chunked></struct>
</protocol>""")]),
    ("sized strings of different lengths in structs used as elements of length-less arrays (element fixed size)", True, [("", """<protocol>
  <struct name="TagA"><field name="t" type="string" length="4"/></struct>
  <struct name="EntryB"><field name="code" type="string" length="2"/><field name="n" type="char"/></struct>
  <struct name="EntryC"><field name="code" type="encoded_string" length="3" padded="true"/><field name="w" type="short"/><field type="string" length="1">x</field></struct>
  <struct name="Ledger"><field name="head" type="TagA"/><array name="entries" type="EntryB"/></struct>
  <struct name="Ledger2"><field name="head" type="TagA"/><field name="e" type="EntryB"/><array name="entries" type="EntryC"/></struct>
</protocol>""")]),
    ("nested chunked sections with strings after the inner section; optionals across breaks", True, [("map", """<protocol>
  <struct name="Nest">
    <chunked>
      <field name="a" type="string"/><break/>
      <chunked><field name="b" type="char"/></chunked>
      <field name="c" type="string"/><break/>
      <field name="k" type="char"/>
      <switch field="k"><case value="1"><chunked><field name="p" type="string" length="2"/></chunked><field name="q" type="string"/></case></switch>
      <break/>
    </chunked>
    <field name="tail" type="string"/>
  </struct>
  <struct name="OptBreaks">
    <chunked>
      <field name="o1" type="char" optional="true"/><field name="o2" type="string" optional="true"/><break/>
      <field name="o3" type="short" optional="true"/><field name="o4" type="string" optional="true"/><break/>
      <field name="o5" type="string" optional="true"/>
    </chunked>
  </struct>
</protocol>""")]),
    ("nested chunked section closed inside an open one, string right after it", True, [("", """<protocol>
  <struct name="Nest2">
    <field name="v" type="char"/>
    <chunked><field name="a" type="string" length="2"/><chunked><field name="b" type="char"/></chunked><field name="c" type="string"/></chunked>
  </struct>
  <struct name="CaseChunk">
    <field name="k" type="char"/>
    <switch field="k"><case value="1"><chunked><field name="s" type="string"/><break/><field name="u" type="char"/></chunked></case>
      <case value="2"><field name="w" type="short"/></case></switch>
    <field name="t" type="string" length="2"/>
  </struct>
  <struct name="Holder"><chunked><field name="c" type="CaseChunk"/><field name="z" type="string"/></chunked></struct>
  <struct name="Nest3">
    <chunked><field name="k" type="char"/>
      <switch field="k"><case value="1"><chunked><field name="p" type="char"/></chunked><field name="q" type="string" length="3"/></case></switch>
      <field name="c" type="string"/></chunked>
  </struct>
</protocol>""")]),
    ("delimited arrays without trailing delimiter followed by a break; counted delimited arrays", True, [("pub", """<protocol>
  <struct name="Line"><field name="id" type="char"/><field name="text" type="string"/></struct>
  <struct name="Party">
    <chunked>
      <field name="name" type="string"/><break/>
      <length name="n" type="char"/>
      <array name="lines" type="Line" length="n" delimited="true" trailing-delimiter="false"/><break/>
      <field name="motto" type="string"/><break/>
      <array name="fixed_lines" type="Line" length="2" delimited="true" trailing-delimiter="false"/><break/>
      <field name="level" type="char"/><break/>
      <array name="tr" type="Line" length="2" delimited="true"/>
      <field name="after" type="char"/>
    </chunked>
  </struct>
</protocol>""")]),
    ("optional chains restart at a break, also behind a switch whose case holds an optional", False, [("pub", """<protocol>
  <struct name="Stale">
    <chunked>
      <field name="a" type="char" optional="true"/><break/>
      <field name="k" type="char"/>
      <switch field="k"><case value="1"><field name="z" type="char" optional="true"/></case></switch>
      <field name="b" type="char" optional="true"/>
    </chunked>
  </struct>
  <struct name="Stale2">
    <chunked>
      <field name="a" type="string" optional="true"/><field name="a2" type="char" optional="true"/><break/>
      <field name="k" type="char"/>
      <switch field="k"><case value="1"><array name="z" type="char" optional="true"/></case><case default="true"/></switch>
      <field name="b" type="string" optional="true"/><break/>
      <field name="c" type="short" optional="true"/>
    </chunked>
  </struct>
</protocol>""")]),
    ("optional length field separated from its referent by a break (known finding C03 de:TypeError:optional-length-absent)", False, [("pub", """<protocol>
  <struct name="OptLenArray">
    <chunked>
      <length name="n" type="char" optional="true"/><break/>
      <array name="xs" type="char" length="n"/>
    </chunked>
  </struct>
  <struct name="OptLenString">
    <chunked>
      <field name="id" type="char"/>
      <length name="n" type="char" optional="true"/><break/>
      <field name="s" type="string" length="n" optional="true"/>
    </chunked>
  </struct>
</protocol>""")]),
]


_ALL_DIRS = ["", "net", "net/client", "net/server", "map", "pub", "pub/server"]


def _all_pairs_spec(order, title):
    """every directory declares an enum and a struct; the struct (and one packet per packet directory) refers to the enum
    and the struct of every directory EARLIER in `order` (and to its own enum) — a layered tree, as the real protocol is:
    references between directories never form a cycle (a cycle of directories is a cycle of star-importing Python packages
    and cannot be imported; see DESIGN 8.4).  With the two orders below every ordered pair of directories occurs as
    (importing file, imported file), including pairs whose package paths diverge and meet again (net/server <-> pub/server)."""
    tag = {d: "".join(w.capitalize() for w in (d or "root").split("/")) for d in order}
    files = []
    for i, d in enumerate(order):
        kids = [f'<enum name="Kind{tag[d]}" type="char"><value name="A">1</value><value name="B">2</value></enum>']
        if d == "net":
            kids.append('<enum name="PacketFamily" type="char"><value name="Talk">1</value></enum>'
                        '<enum name="PacketAction" type="char"><value name="Tell">1</value><value name="Open">2</value></enum>')
        refs = "".join(f'<field name="k_{tag[e].lower()}" type="Kind{tag[e]}"/>' for e in order[:i + 1])
        refs += "".join(f'<field name="s_{tag[e].lower()}" type="Ref{tag[e]}"/>' for e in order[:i])
        kids.append(f'<struct name="Ref{tag[d]}">{refs}</struct>')
        if d in ("net/client", "net/server"):
            kids.append(f'<packet family="Talk" action="Tell">{refs}<field name="s_own" type="Ref{tag[d]}"/></packet>')
        files.append((d, "<protocol>" + "".join(kids) + "</protocol>"))
    if "net" not in order[:1] and any(d in ("net/client", "net/server") for d in order) and order.index("net") > min(
            order.index(d) for d in ("net/client", "net/server")):
        pass   # packets only need PacketFamily / PacketAction to exist somewhere in the tree
    return (title, True, files)


_LAYERED = ["", "pub", "pub/server", "map", "net", "net/client", "net/server"]


def _inverted_layering_spec():
    """a map type refers to a type of net/server, which declares a packet (open finding C18 export:partial-init)"""
    return ("KNOWN[C18:export:partial-init] a map type refers to a net/server type", False, [
        ("net", '<protocol><enum name="PacketFamily" type="char"><value name="Talk">1</value></enum>'
                '<enum name="PacketAction" type="char"><value name="Tell">1</value></enum></protocol>'),
        ("net/server", '<protocol><enum name="KindSrv" type="char"><value name="A">1</value></enum>'
                       '<packet family="Talk" action="Tell"><field name="k" type="KindSrv"/></packet></protocol>'),
        ("map", '<protocol><struct name="MapUser"><field name="k" type="KindSrv"/></struct></protocol>')])


def catalogue_specs():
    """[(title, roundtrip_safe, files)] -- together they use every construct of the grammar"""
    return [(t, safe, [(d, Xml.parse(x)) for d, x in files]) for t, safe, files in
            [_all_pairs_spec(_LAYERED, "layered tree: every directory refers to every earlier one"),
             _inverted_layering_spec()] + _CATALOGUE]


if __name__ == "__main__":
    sys.exit(main(sys.argv))
