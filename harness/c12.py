"""C12 — sequence starts: every outcome of every random draw, by substituting the random source."""
from __future__ import annotations

from . import common
from .common import Ctx

FILES = ["src/eolib/packet/sequence_start.py", "src/eolib/data/eo_numeric_limits.py"]
RULE = ("the module's random source is replaced by a scripted one that records each requested range and replays a "
        "chosen outcome; all outcomes are enumerated depth-first (INIT 57,751, PING 442,764, ACCOUNT_REPLY 240). Each "
        "outcome: requested ranges, value, seq1, seq2 and the from-values reconstruction are compared with the model "
        "and checked against the documented field ranges. distinct = (kind, value//64, whether seq1_min is clamped, "
        "boundary draw or not)")
ASSUMPTIONS = ["random.randrange(0, n) returns any integer of [0, n) and raises ValueError iff n <= 0",
               "int(x / 7) is exact truncating division on |x| < 2^53 (validated exhaustively on the domain by this check)"]


class Script:
    """Stands in for the `random` module inside sequence_start."""

    def __init__(self):
        self.plan: list[int] = []
        self.asked: list[tuple[int, int]] = []

    def _draw(self, lo, hi):
        i = len(self.asked)
        self.asked.append((lo, hi))
        if hi <= lo:
            raise ValueError("empty range for randrange()")
        r = self.plan[i] if i < len(self.plan) else lo
        if not lo <= r < hi:
            r = lo
        return r

    def randrange(self, start, stop=None, step=1):
        if stop is None:
            start, stop = 0, start
        if step != 1:
            raise common.CheckAbort("scripted random source: randrange step != 1 is not supported")
        return self._draw(start, stop)

    def randint(self, a, b):
        return self._draw(a, b + 1)

    def __getattr__(self, name):
        raise common.CheckAbort(f"scripted random source: random.{name} is not supported by the harness")


def mods():
    common.load_eolib()
    return common.imp("eolib.packet.sequence_start")


def outcomes(m, gen, depth):
    """DFS over the decision tree of `gen()`; yields (plan, asked ranges, result or exception)."""
    script = Script()
    m.random = script
    stack = [[]]
    while stack:
        plan = stack.pop()
        script.plan, script.asked = plan, []
        try:
            res = gen()
            err = None
        except common.CheckAbort:
            raise
        except Exception as ex:  # noqa: BLE001
            res, err = None, ex
        asked = list(script.asked)
        if err is None and len(asked) > len(plan):
            # first visit of this node: expand the first undecided draw
            lo, hi = asked[len(plan)]
            for r in range(hi - 1, lo - 1, -1):
                stack.append(plan + [r])
            continue
        yield plan, asked, res, err


def check_init(s, plan) -> str | None:
    if not 0 <= s.value < 1757:
        return f"value {s.value} outside 0..1756"
    if not (0 <= s.seq1 <= 252 and 0 <= s.seq2 <= 252):
        return f"wire components seq1={s.seq1} seq2={s.seq2} do not fit 0..252"
    return None


def _reconstruct(fn, why):
    """the peer's from-values constructor on generated wire components: -> (value or None, reason of failure or None)"""
    if why is not None:
        return None, why
    try:
        return fn().value, None
    except Exception as ex:  # noqa: BLE001 - the property says the value is reproduced, so any exception is a failure
        return None, f"from-values reconstruction raised {type(ex).__name__}: {ex}"


def run_kind(ctx: Ctx, m, kind: str):
    d = ctx.driver
    cls = {"init": m.InitSequenceStart, "ping": m.PingSequenceStart, "account": m.AccountReplySequenceStart}[kind]
    n = 0
    lines, impl = [], []
    fail = None
    for plan, asked, res, err in outcomes(m, cls.generate, 2):
        n += 1
        if err is not None:
            fail = (plan, f"{cls.__name__}.generate() raised {type(err).__name__}: {err} (draws so far {plan}, ranges requested {asked})")
            break
        why = None
        if kind == "init":
            why = check_init(res, plan)
            rec, why = _reconstruct(lambda: m.InitSequenceStart.from_init_values(res.seq1, res.seq2), why)
            tup = (res.value, res.seq1, res.seq2, rec)
            lines.append(f"seq init {plan[0]} {plan[1]}" if len(plan) == 2 else "ping")
            ctx.sig((kind, res.value // 64, res.value <= 232, plan[-1] in (0, asked[-1][1] - 1)))
        elif kind == "ping":
            if not 0 <= res.value < 1757:
                why = f"value {res.value} outside 0..1756"
            elif not (0 <= res.seq1 < 253 ** 2 and 0 <= res.seq2 < 253):
                why = f"wire components seq1={res.seq1} seq2={res.seq2} do not fit a short and a char"
            rec, why = _reconstruct(lambda: m.PingSequenceStart.from_ping_values(res.seq1, res.seq2), why)
            tup = (res.value, res.seq1, res.seq2, rec)
            lines.append(f"seq ping {plan[0]} {plan[1]}" if len(plan) == 2 else "ping")
            ctx.sig((kind, res.value // 64, plan[-1] in (0, asked[-1][1] - 1)))
        else:
            if not 0 <= res.value < 253:
                why = f"value {res.value} does not fit a char"
            rec, why = _reconstruct(lambda: m.AccountReplySequenceStart.from_value(res.value), why)
            tup = (res.value, rec)
            lines.append(f"seq account {plan[0]}" if len(plan) == 1 else "ping")
            ctx.sig((kind, res.value // 16))
        if why is None and rec != res.value:
            why = f"from-values reconstruction gives {rec}, generated value is {res.value}"
        if why:
            fail = (plan, f"{cls.__name__}: outcome of draws {plan} (ranges {asked}): {why}")
            break
        impl.append(("ok " + " ".join(str(x) for x in tup), asked, plan))
    if fail:
        ctx.violation("property-fails", fail[1], {"input": {"kind": kind, "draws": fail[0]}})
        return False
    ans = d.ask(lines)
    # requested ranges, from the model
    for (a, asked, plan), b, line in zip(impl, ans, lines):
        if a != b:
            ctx.violation("model-impl-disagree", f"{kind} outcome of draws {plan}: impl {a}, model {b}; every outcome satisfies "
                          "the property (exhaustive oracle)", {"input": {"kind": kind, "draws": plan}, "impl": a, "model": b,
                          "correspondence": "Seq.*Generate vs sequence_start.generate",
                          "theorems_no_longer_tied": common.load_registry()["C12"]["theorems"]}, found_input=False)
            return False
    # compare the requested ranges with the model's
    if kind == "init":
        r1 = int(d.ask1("seq init range1").split()[1])
        seen1 = {asked[0] for _, asked, _ in impl}
        want = {(0, r1)}
        rng2 = {}
        for _, asked, plan in impl:
            rng2[plan[0]] = asked[1]
        model2 = d.ask([f"seq init range2 {v}" for v in sorted(rng2)])
        ok = seen1 == want and all(rng2[v] == (0, int(b.split()[1])) for v, b in zip(sorted(rng2), model2))
    elif kind == "ping":
        r1 = int(d.ask1("seq ping range1").split()[1])
        r2 = int(d.ask1("seq ping range2").split()[1])
        ok = all(asked == [(0, r1), (0, r2)] for _, asked, _ in impl)
    else:
        r = int(d.ask1("seq account range").split()[1])
        ok = all(asked == [(0, r)] for _, asked, _ in impl)
    if not ok:
        ctx.violation("model-impl-disagree", f"{kind}: the ranges requested from the random source differ from the model's "
                      "(every outcome still satisfies the property)", {"input": {"kind": kind},
                      "correspondence": "draw ranges of Seq.*Generate vs sequence_start.generate"}, found_input=False)
        return False
    ctx.part(f"{kind} outcomes", n, True)
    ctx.count(f"outcomes.{kind}", n)
    a, asked, plan = impl[len(impl) // 2]
    ctx.sample({"kind": kind, "draws": plan, "ranges": asked, "value seq1 seq2 reconstructed": a})
    return True


def run(ctx: Ctx):
    m = mods()
    real_random = m.random
    try:
        for kind in ("account", "init", "ping"):
            if not run_kind(ctx, m, kind):
                return
        # from_* on arbitrary wire values (correspondence only)
        rng = ctx.rng
        pairs = [(rng.randrange(0, 253), rng.randrange(0, 253)) for _ in range(2000)]
        ans = ctx.driver.ask([f"seq frominit {a} {b}" for a, b in pairs] + [f"seq fromping {a} {b}" for a, b in pairs])
        for i, (a, b) in enumerate(pairs):
            try:
                s = m.InitSequenceStart.from_init_values(a, b)
                p = m.PingSequenceStart.from_ping_values(a, b)
                got = (f"ok {s.value} {s.seq1} {s.seq2} {s.value}", f"ok {p.value} {p.seq1} {p.seq2} {p.value}")
            except Exception as ex:  # noqa: BLE001
                got = (f"err {type(ex).__name__}",) * 2
            if got[0] != ans[i] or got[1] != ans[len(pairs) + i]:
                ctx.violation("model-impl-disagree", f"from_init_values/from_ping_values({a},{b}) differ from the model",
                              {"input": {"seq1": a, "seq2": b}, "correspondence": "Seq.from*Values"}, found_input=False)
                return
        ctx.part("from_*_values on random wire values", 2 * len(pairs), False)
        ctx.exhaustive = True
    finally:
        m.random = real_random


def oracle_sweep(ctx: Ctx) -> bool:
    n0 = len(ctx.violations)
    run(ctx)
    return len(ctx.violations) > n0


def replay(ctx: Ctx, doc: dict) -> int:
    m = mods()
    kind, plan = doc["input"]["kind"], doc["input"].get("draws", [])
    cls = {"init": m.InitSequenceStart, "ping": m.PingSequenceStart, "account": m.AccountReplySequenceStart}[kind]
    script = Script()
    script.plan = plan
    m.random = script
    try:
        s = cls.generate()
        print(f"{kind} draws={plan} ranges={script.asked} value={s.value} seq1={getattr(s,'seq1',None)} seq2={getattr(s,'seq2',None)}")
    except Exception as ex:  # noqa: BLE001
        print(f"{kind} draws={plan} ranges={script.asked} raised {type(ex).__name__}: {ex}")
        return 1
    # the property on this outcome: ranges, field fit, reconstruction by the peer's from-values constructor
    why = None
    if kind == "init":
        why = check_init(s, plan)
        rec, why = _reconstruct(lambda: m.InitSequenceStart.from_init_values(s.seq1, s.seq2), why)
    elif kind == "ping":
        if not 0 <= s.value < 1757:
            why = f"value {s.value} outside 0..1756"
        elif not (0 <= s.seq1 < 253 ** 2 and 0 <= s.seq2 < 253):
            why = f"wire components seq1={s.seq1} seq2={s.seq2} do not fit a short and a char"
        rec, why = _reconstruct(lambda: m.PingSequenceStart.from_ping_values(s.seq1, s.seq2), why)
    else:
        if not 0 <= s.value < 253:
            why = f"value {s.value} does not fit a char"
        rec, why = _reconstruct(lambda: m.AccountReplySequenceStart.from_value(s.value), why)
    if why is None and rec != s.value:
        why = f"from-values reconstruction gives {rec}, generated value is {s.value}"
    if why:
        print("  reproduced:", why)
        return 1
    return 0
