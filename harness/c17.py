"""C17 — see harness/genprops.py (run_c17), harness/mutspec.py and DESIGN.md §3."""
from . import gencheck, genprops

FILES = gencheck.GEN_FILES
RULE = genprops.RULES["C17"]
ASSUMPTIONS = ["the catalogue of grammar rules is the one listed in DESIGN §3 C17 (rules the code does not enforce and the property does not name are not demanded)"]
run = genprops.run_c17
replay = genprops.replay_c17


def oracle_sweep(ctx):
    n0 = len(ctx.violations)
    run(ctx)
    return any(v["kind"] == "property-fails" for v in ctx.violations[n0:])
