import sys, random; sys.path.insert(0,'/var/tmp/agentG')
from harness.genlib import *
def probe(title, xml, cname=None, kw=None, data=None):
    with GenRun([("", Xml.parse(xml))]) as g:
        if g.error: print(title, '=> generator:', type(g.error).__name__, g.error); return
        try: g.load()
        except Exception as e: print(title, '=> import:', type(e).__name__, e); return
        if cname:
            cls=g.get_class(cname)
            try:
                o=cls(**(kw or {})); r=do_ser(cls,o)
                print(title,'=> ser', r, '| de', do_de(cls, data if data is not None else bytes.fromhex(r.split()[1].replace('-','')) if r.startswith('ok') else b'', timeout=1)[:80])
            except Exception as e: print(title,'=> new', type(e).__name__, e)
        else: print(title,'=> ok')
probe('A empty struct','<protocol><struct name="Empty"/></protocol>')
probe('B opt in case then opt','<protocol><struct name="Bb"><field name="k" type="char"/><switch field="k"><case value="1"><field name="a" type="char" optional="true"/></case></switch><field name="z" type="char" optional="true"/></struct></protocol>','Bb',{'k':0})
probe('C huge length','<protocol><struct name="Cc"><length name="n" type="int"/><array name="xs" type="char" length="n"/></struct></protocol>','Cc',{'xs':[1]}, bytes([0xfd,0xfd,0xfd,0xfd]))
probe('D leading zero','<protocol><struct name="Dd"><field type="char">007</field></struct></protocol>','Dd')
probe('D2 unicode digit','<protocol><struct name="Dd"><field type="char">\u00b2</field></struct></protocol>','Dd')
probe('D3 case 01','<protocol><struct name="Dd"><field name="k" type="char"/><switch field="k"><case value="01"><field name="a" type="char"/></case></switch></struct></protocol>','Dd',{'k':1})
probe('G zero-size elements','<protocol><struct name="Zz"><chunked/></struct><struct name="Gg"><array name="xs" type="Zz"/></struct></protocol>','Gg',{'xs':[]}, b'\x01')
probe('G2 zero-size while','<protocol><struct name="Zz"><field name="s" type="string" length="0"/><field name="o" type="Zz2"/></struct><struct name="Zz2"><chunked/></struct><struct name="Gg"><field name="k" type="char"/><switch field="k"><case value="1"><array name="xs" type="Zz"/></case></switch></struct></protocol>','Gg',{'k':0}, b'\x02\x01')
probe('H backslash comment','<protocol><struct name="Hh"><comment>path C:\\users\\x</comment><field name="a" type="char"/></struct></protocol>','Hh',{'a':1})
probe('H2 triple quote comment','<protocol><struct name="Hh"><comment>say """hi"""</comment><field name="a" type="char"/></struct></protocol>','Hh',{'a':1})
probe('I unreferenced length','<protocol><struct name="Ii"><length name="n" type="char"/><field name="a" type="char"/></struct></protocol>','Ii',{'a':1})
probe('K enum member True','<protocol><enum name="Ee" type="char"><value name="True">1</value></enum></protocol>')
probe('L hardcoded string with quote','<protocol><struct name="Ll"><field type="string">say "hi"</field></struct></protocol>','Ll')
probe('M negative wire length','<protocol><struct name="Mm"><length name="n" type="char" offset="2"/><field name="s" type="string" length="n"/></struct></protocol>','Mm',{'s':'a'})
