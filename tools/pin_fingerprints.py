#!/venv/bin/python
"""Record the source fingerprints of the modelled files (per property) for the current /repo tree.
Run after model and code were compared at thorough depth.  A differing fingerprint only escalates depth."""
import importlib, json, os, sys
if os.path.realpath(sys.executable) != os.path.realpath('/venv/bin/python') and os.path.exists('/venv/bin/python'):
    os.execv('/venv/bin/python', ['/venv/bin/python'] + sys.argv)   # ast.dump differs between interpreter versions: pin with the checks' interpreter
HERE = os.path.dirname(os.path.dirname(os.path.abspath(__file__)))
sys.path.insert(0, HERE)
from harness import common
out = {}
for i in range(1, 21):
    pid = f"C{i:02d}"
    try:
        mod = importlib.import_module(f"harness.{pid.lower()}")
    except Exception as e:
        print(pid, "skip", e); continue
    out[pid] = common.fingerprint(getattr(mod, "FILES", []))
os.makedirs(os.path.join(HERE, "pins"), exist_ok=True)
json.dump(out, open(os.path.join(HERE, "pins", "source_fingerprints.json"), "w"), indent=1)
print("pinned", len(out))
