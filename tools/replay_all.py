#!/usr/bin/env python3
"""tools/replay_all.py [ids...] — for seeded changes: apply, run the quick check, then run the reported replay with the patch
(must exit 1: the violation reproduces) and without it (must exit 0).  Default: the last live variant of every property."""
import json, os, re, subprocess, sys

def sh(cmd, **kw):
    return subprocess.run(cmd, shell=True, capture_output=True, text=True, errors="replace", **kw)

root = "/verif/seeded"
ids = sys.argv[1:]
if not ids:
    last = {}
    for d in sorted(os.listdir(root)):
        mp = os.path.join(root, d, "meta.json")
        if os.path.exists(mp) and not json.load(open(mp)).get("obsolete"):
            last[d.split("-")[0]] = d
    ids = sorted(last.values())
assert sh("git -C /repo status --porcelain").stdout.strip() == "", "/repo not clean"
bad = []
for sid in ids:
    prop = json.load(open(os.path.join(root, sid, "meta.json")))["property"]
    try:
        sh(f"git -C /repo apply {os.path.join(root, sid, 'patch.diff')}")
        out = sh(f"cd /verif && timeout 1500 ./check {prop} --tier quick 2>&1", timeout=1600).stdout
        m = re.search(r"VIOLATION property=\S+ replay=(\S+)( no-failing-input-found)?", out)
        if not m:
            print(sid, "no violation reported"); bad.append(sid); continue
        path, nofound = m.group(1), bool(m.group(2))
        rp = sh(f"cd /verif && timeout 600 ./check {prop} --replay {path} >/dev/null 2>&1; echo $?").stdout.strip()
    finally:
        sh("git -C /repo checkout -- . && git -C /repo clean -fdq && python3 /verif/harness/importgraph.py --regenerate && git -C /verif checkout -- evidence")
    rc = sh(f"cd /verif && timeout 600 ./check {prop} --replay {path} >/dev/null 2>&1; echo $?").stdout.strip()
    ok = (rp == "1" or nofound) and rc == "0"
    print(sid, f"replay with patch: {rp}  clean: {rc}", "(no failing input was claimed)" if nofound else "", "" if ok else "  <-- MISMATCH", flush=True)
    if not ok:
        bad.append(sid)
print("mismatches:", bad)
