#!/usr/bin/env python3
"""tools/refactor.py <src_dir> <id> [checks...]
Confirm a behaviour-preserving change (patch.diff + diff_test.py + meta.json) and run checks against it: none may raise an alarm.
 1. /repo must be clean
 2. git -C /repo apply patch.diff ; the 140 baseline tests still pass ; diff_test.py reports no difference
 3. run the quick checks named (default: the property of meta.json); record exit status, VIOLATION lines, source-tie status
 4. git -C /repo checkout -- .   (always)
Stores the change under /verif/seeded/<id>/ with the results added to meta.json."""
import json, os, shutil, subprocess, sys

def sh(cmd, **kw):
    return subprocess.run(cmd, shell=True, capture_output=True, text=True, errors="replace", **kw)

def main():
    src, sid = sys.argv[1], sys.argv[2]
    meta = json.load(open(os.path.join(src, "meta.json")))
    checks = sys.argv[3:] or [meta["property"]]
    assert sh("git -C /repo status --porcelain").stdout.strip() == "", "/repo not clean"
    res = {"tests_with_patch": None, "diff_test": None, "checks": {}}
    try:
        a = sh(f"git -C /repo apply {os.path.join(src, 'patch.diff')}")
        if a.returncode != 0:
            print("patch does not apply:", a.stderr); return 2
        t = sh("cd /repo && /venv/bin/python -m pytest -q -p no:cacheprovider --continue-on-collection-errors 2>&1 | tail -1", timeout=900)
        res["tests_with_patch"] = t.stdout.strip()
        d = sh(f"cd {src} && /venv/bin/python diff_test.py /repo 2>&1 | tail -3", timeout=1800)
        res["diff_test"] = {"rc": sh(f"cd {src} && /venv/bin/python diff_test.py /repo >/dev/null 2>&1; echo $?", timeout=1800).stdout.strip(), "tail": d.stdout[-400:]}
        for c in checks:
            k = subprocess.run(f"cd /verif && timeout 1500 ./check {c} --tier quick 2>&1 | grep -v '^KNOWN\\|^WARNING' | cut -c1-400 | tail -4; exit ${{PIPESTATUS[0]}}",
                               shell=True, capture_output=True, text=True, executable="/bin/bash", timeout=1600)
            out = k.stdout.strip()
            tie = None
            try:
                tie = json.load(open(f"/verif/evidence/{c}.json"))["coverage"].get("source_tie", {}).get("established")
            except Exception:
                pass
            res["checks"][c] = {"exit": k.returncode, "alarm": "VIOLATION" in out, "source_tie_established": tie, "output": out[-500:]}
    finally:
        sh("git -C /repo checkout -- . && git -C /repo clean -fdq && python3 /verif/harness/importgraph.py --regenerate && python3 /verif/harness/py2lean.py >/dev/null && git -C /verif checkout -- evidence")
    ok = "140 passed" in (res["tests_with_patch"] or "") and res["diff_test"]["rc"] == "0"
    res["confirmed_behaviour_preserving"] = ok
    meta["verification"] = res
    dst = os.path.join("/verif/seeded", sid)
    os.makedirs(dst, exist_ok=True)
    for f in ("patch.diff", "diff_test.py"):
        shutil.copy(os.path.join(src, f), dst)
    meta["what_was_run"] = ["baseline pytest with the patch applied", "diff_test.py /repo (original vs changed, must report no difference)",
                            *[f"./check {c} --tier quick with the patch applied to /repo (must exit 0 without a VIOLATION line)" for c in checks]]
    json.dump(meta, open(os.path.join(dst, "meta.json"), "w"), indent=1)
    print(json.dumps({"id": sid, "confirmed": ok, "checks": {c: {"exit": v["exit"], "alarm": v["alarm"], "tie": v["source_tie_established"]} for c, v in res["checks"].items()}}))
    for c, v in res["checks"].items():
        print(c, "->", v["output"][-300:])
    return 0

if __name__ == "__main__":
    sys.exit(main())
