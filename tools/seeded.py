#!/usr/bin/env python3
"""tools/seeded.py <src_dir> <id> [checks...]
Confirm a seeded change (patch.diff + demo.py + meta.json) and run checks against it:
 1. /repo must be clean; demo passes on /repo
 2. git -C /repo apply patch.diff ; the 140 baseline tests still pass ; demo fails
 3. run the quick checks named (default: the property of meta.json) and record who catches it
 4. git -C /repo checkout -- .   (always)
Stores the confirmed change under /verif/seeded/<id>/ with the results added to meta.json."""
import json, os, shutil, subprocess, sys

def sh(cmd, **kw):
    return subprocess.run(cmd, shell=True, capture_output=True, text=True, errors="replace", **kw)

def main():
    src, sid = sys.argv[1], sys.argv[2]
    meta = json.load(open(os.path.join(src, "meta.json")))
    checks = sys.argv[3:] or [meta["property"]]
    assert sh("git -C /repo status --porcelain").stdout.strip() == "", "/repo not clean"
    res = {"demo_on_clean": None, "tests_with_patch": None, "demo_with_patch": None, "checks": {}}
    demo = os.path.join(src, "demo.py")
    r = sh(f"/venv/bin/python {demo} /repo", timeout=300)
    res["demo_on_clean"] = r.returncode
    try:
        a = sh(f"git -C /repo apply {os.path.join(src, 'patch.diff')}")
        if a.returncode != 0:
            print("patch does not apply:", a.stderr); return 2
        t = sh("cd /repo && /venv/bin/python -m pytest -q -p no:cacheprovider --continue-on-collection-errors 2>&1 | tail -1", timeout=900)
        res["tests_with_patch"] = t.stdout.strip()
        r = sh(f"/venv/bin/python {demo} /repo", timeout=300)
        res["demo_with_patch"] = r.returncode
        for c in checks:
            seed = os.environ.get("VERIF_SEED", "0")
            k = sh(f"cd /verif && VERIF_SEED={seed} timeout 1500 ./check {c} --tier quick 2>&1 | grep -v '^KNOWN\\|^WARNING' | cut -c1-400 | tail -4", timeout=1600)
            out = k.stdout.strip()
            res["checks"][c] = {"caught": "VIOLATION" in out, "with_failing_input": "VIOLATION" in out and "no-failing-input-found" not in out,
                                "output": out[-600:]}
    finally:
        sh("git -C /repo checkout -- . && git -C /repo clean -fdq && python3 /verif/harness/importgraph.py --regenerate && python3 /verif/harness/py2lean.py >/dev/null && git -C /verif checkout -- evidence")
    ok = res["demo_on_clean"] == 0 and res["demo_with_patch"] not in (0, None) and "140 passed" in (res["tests_with_patch"] or "")
    res["confirmed"] = ok
    meta["verification"] = res
    dst = os.path.join("/verif/seeded", sid)
    os.makedirs(dst, exist_ok=True)
    for f in ("patch.diff", "demo.py"):
        shutil.copy(os.path.join(src, f), dst)
    meta["what_was_run"] = ["/venv/bin/python demo.py /repo (clean: exit 0; patched: exit 1)", "baseline pytest with the patch applied",
                            *[f"./check {c} --tier quick with the patch applied to /repo" for c in checks]]
    json.dump(meta, open(os.path.join(dst, "meta.json"), "w"), indent=1)
    print(json.dumps({"id": sid, "confirmed": ok, "checks": {c: (v["caught"], v["with_failing_input"]) for c, v in res["checks"].items()}}))
    for c, v in res["checks"].items():
        print(c, "->", v["output"][-300:])
    return 0

if __name__ == "__main__":
    sys.exit(main())
