#!/usr/bin/env python3
"""Regenerates MANIFEST.json from the table below (kept in one place so it stays valid)."""
import json, os
HERE = os.path.dirname(os.path.dirname(os.path.abspath(__file__)))
props = [json.loads(l) for l in open(os.path.join(HERE, "properties.jsonl"))]
ids = [p["id"] for p in props]

CLAIMED = {k: (v["technique"], v["text"], v["note"], v["ref"]) for k, v in json.load(open(os.path.join(HERE, "tools", "claims.json"))).items()}
NOT_YET = "machinery for this property is not built yet in this revision (planned, see DESIGN.md §6); not claimed"

checks = []
for pid in ids:
    if pid in CLAIMED:
        tech, text, note, ref = CLAIMED[pid]
        checks.append({
            "property_id": pid,
            "quick_cmd": f"./check {pid} --tier quick",
            "thorough_cmd": f"./check {pid} --tier thorough",
            "evidence_file": f"evidence/{pid}.json",
            "replay_cmd_template": f"./check {pid} --replay {{path}}",
            "engine": "lean4-proof+correspondence",
            "level_claimed": {"category": "proof", "text": text, "design_ref": ref},
            "level_note": note,
            "technique": tech,
        })
manifest = {
 "version": 1,
 "setup_cmd": "python3 harness/importgraph.py --regenerate && (python3 harness/py2lean.py > /dev/null || true) && cd lean && lake build EoVerif driver && (lake build EoVerif.Props.C20 || true) && (lake build EoVerif.Props.SrcNum EoVerif.Props.SrcHash EoVerif.Props.SrcSeq EoVerif.Props.SrcStr EoVerif.Props.SrcEnc EoVerif.Props.SrcEncSwap EoVerif.Props.SrcWriter EoVerif.Props.SrcReader EoVerif.Props.SrcNames EoVerif.Props.SrcPropsC07 EoVerif.Props.SrcPropsC08 EoVerif.Props.SrcPropsC09 EoVerif.Props.SrcPropsC10 EoVerif.Props.SrcPropsC11 EoVerif.Props.SrcPropsC12 EoVerif.Props.SrcPropsC05 EoVerif.Props.SrcPropsC04 EoVerif.Props.SrcPropsC09b EoVerif.Props.SrcPropsC06 EoVerif.Props.SrcPropsC13 EoVerif.Props.SrcPropsC05b EoVerif.Props.SrcPropsC09c EoVerif.Props.SrcPropsC04b EoVerif.Props.SrcPropsC10b || true)",
 "hooks": {
  "guard": "EOLIB_VERIF",
  "enable": "no source hooks are needed: the harness substitutes module attributes (random source, os.walk) from outside; nothing in /repo is guarded",
  "baseline_off_cmd": "cd /repo && /venv/bin/python -m pytest -ra -q -p no:cacheprovider --timeout=900 --continue-on-collection-errors",
  "source_commits": [],
  "add_only": True,
 },
 "engines": [{"name": "lean4-proof+correspondence", "path": "check",
              "serves_properties": sorted(CLAIMED),
              "kind_free_text": "Lean 4 theorems about hand-written executable models (lake build + #print axioms audit), tied to /repo's working tree by a differential correspondence check through a compiled model driver, and for the arithmetic/codec core by a source translator (harness/py2lean.py) whose output is proved equal to the models on every run; direct property oracle for failing-input search"}],
 "checks": checks,
 "notes": "See DESIGN.md. Every check first rebuilds the Lean project (all theorems kernel-checked), audits axioms, then runs the correspondence between the model driver and the code imported from /repo's working tree (VERIF_REPO overrides the path for mutant testing).",
 "not_applicable": [{"property_id": pid, "reason": NOT_YET} for pid in ids if pid not in CLAIMED],
}
json.dump(manifest, open(os.path.join(HERE, "MANIFEST.json"), "w"), indent=1)
print("claimed:", sorted(CLAIMED))
