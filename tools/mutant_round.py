#!/usr/bin/env python3
"""tools/mutant_round.py <round-number> <variant-letter> <Cxx>... — prepare a round of seeded-change agents: one scratch
worktree of /repo per property under /tmp/mut<R>-<Cxx>, the property text in /tmp/prop<R>-<Cxx>.txt and the agent prompt in
/tmp/mutprompt<R>-<Cxx>.txt (nothing from /verif except the property text and the summaries of ideas already used)."""
import json, os, subprocess, sys
R, var, props = sys.argv[1], sys.argv[2], sys.argv[3:]
t = open(os.path.join(os.path.dirname(__file__), "mutant_prompt.txt")).read()
P = {}
for l in open("/verif/properties.jsonl"):
    d = json.loads(l); P[d["id"]] = d
for p in props:
    wt = f"/tmp/mut{R}-{p}"
    if not os.path.exists(wt):
        subprocess.run(["git", "-C", "/repo", "worktree", "add", "-q", wt, "HEAD"], check=True)
    open(f"/tmp/prop{R}-{p}.txt", "w").write(json.dumps({k: P[p][k] for k in ("id", "title", "statement", "quantifier", "anchors")}, indent=1))
    used = []
    for v in "abcdefghijklmnopqrstuvwxyz":
        f = f"/verif/seeded/{p}-{v}/meta.json"
        if os.path.exists(f):
            used.append(f"({v}) " + json.load(open(f))["summary"][:300].replace("\n", " "))
    open(f"/tmp/mutprompt{R}-{p}.txt", "w").write(t.replace("mutR", "mut" + R).replace("propR", "prop" + R).replace("PID", p).replace("VAR", var).replace("USED", " ".join(used)))
    print("prepared", p)
