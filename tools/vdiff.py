"""parse the canonical value rendering into a tree and diff two values (ignoring byte sizes)"""
import sys, json
def parse(ts, i=0):
    t = ts[i]
    if t in ("N","M"): return t, i+1
    if t in ("B","I","S","Y"): return (t, ts[i+1]), i+2
    if t == "T":
        n = int(ts[i+1]); i += 2; out=[]
        for _ in range(n):
            v, i = parse(ts, i); out.append(v)
        return ("T", out), i
    if t == "O":
        cls, n = ts[i+1], int(ts[i+2]); i += 3; fs=[]
        for _ in range(n):
            name = ts[i]; v, i = parse(ts, i+1); fs.append((name, v))
        return ("O", cls, fs, ts[i]), i+1
    raise ValueError(t)
def diff(a, b, path="", out=None):
    out = [] if out is None else out
    if isinstance(a, tuple) and isinstance(b, tuple) and a[0]==b[0]=="O":
        if a[1]!=b[1]: out.append((path,"class",a[1],b[1]))
        for (n1,v1),(n2,v2) in zip(a[2],b[2]): diff(v1,v2,path+"."+n1,out)
    elif isinstance(a, tuple) and isinstance(b, tuple) and a[0]==b[0]=="T":
        if len(a[1])!=len(b[1]): out.append((path,"len",len(a[1]),len(b[1])))
        for k,(x,y) in enumerate(zip(a[1],b[1])): diff(x,y,f"{path}[{k}]",out)
    elif a!=b: out.append((path,a,b))
    return out
if __name__=="__main__":
    d=json.load(open(sys.argv[1]))
    a,_=parse(d["object"].split()); b,_=parse(d["back"].split())
    for x in diff(a,b)[:10]: print(x)
