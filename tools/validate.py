#!/usr/bin/env python3
"""python3-vt tools/validate.py — validate MANIFEST.json and every evidence file against the schemas."""
import json, glob, sys, jsonschema
ok = True
try:
    jsonschema.validate(json.load(open('MANIFEST.json')), json.load(open('/root/.vp/MANIFEST.schema.json')))
    print("MANIFEST ok")
except Exception as e:
    ok = False; print("MANIFEST INVALID", e)
es = json.load(open('/root/.vp/EVIDENCE.schema.json'))
for f in sorted(glob.glob('evidence/*.json')):
    try:
        jsonschema.validate(json.load(open(f)), es); print(f, "ok")
    except Exception as e:
        ok = False; print(f, "INVALID", str(e)[:300])
sys.exit(0 if ok else 1)
