#!/usr/bin/env python3
"""tools/seeded_all.py [ids...] — regression over the confirmed seeded changes: apply each patch to /repo, run the quick
check of its property, undo; prints one line per change and a summary.  /repo must be clean; it is restored afterwards."""
import json, os, subprocess, sys

def sh(cmd, **kw):
    return subprocess.run(cmd, shell=True, capture_output=True, text=True, errors="replace", **kw)

def main():
    root = "/verif/seeded"
    ids = sys.argv[1:] or sorted(d for d in os.listdir(root) if os.path.isdir(os.path.join(root, d)))
    assert sh("git -C /repo status --porcelain").stdout.strip() == "", "/repo not clean"
    res = {}
    for sid in ids:
        d = os.path.join(root, sid)
        meta = json.load(open(os.path.join(d, "meta.json")))
        prop = meta["property"]
        if meta.get("obsolete"):
            print(sid, "obsolete (no longer a violation):", meta["obsolete"][:120], flush=True)
            continue
        try:
            a = sh(f"git -C /repo apply {os.path.join(d, 'patch.diff')}")
            if a.returncode != 0:
                res[sid] = "patch-does-not-apply"
                print(sid, res[sid], flush=True)
                continue
            k = sh(f"cd /verif && timeout 1500 ./check {prop} --tier quick 2>&1 | grep -v '^KNOWN\\|^WARNING' | tail -4", timeout=1600)
            out = k.stdout
            res[sid] = ("caught" if "VIOLATION" in out and "no-failing-input-found" not in out else
                        "caught-no-input" if "VIOLATION" in out else "MISSED")
            print(sid, res[sid], "|", out.strip().splitlines()[-2][:160] if len(out.strip().splitlines()) > 1 else out.strip()[:160], flush=True)
        finally:
            sh("git -C /repo checkout -- . && git -C /repo clean -fdq && python3 /verif/harness/importgraph.py --regenerate && python3 /verif/harness/py2lean.py >/dev/null && git -C /verif checkout -- evidence")
    print(json.dumps({"total": len(res), "caught": sum(v == "caught" for v in res.values()),
                      "caught_no_input": [k for k, v in res.items() if v == "caught-no-input"],
                      "missed": [k for k, v in res.items() if v not in ("caught", "caught-no-input")]}))

if __name__ == "__main__":
    main()
