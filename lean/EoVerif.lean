import EoVerif.Model.Basic
import EoVerif.Model.Num
import EoVerif.Model.Str
import EoVerif.Model.Enc
import EoVerif.Model.Hash
import EoVerif.Model.Seq
import EoVerif.Spec.Num
import EoVerif.Props.C07
