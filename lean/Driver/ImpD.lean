import Driver.Util
import EoVerif.Model.Imports
namespace Driver
open EoVerif EoVerif.Imp

def unTok (s : String) : String := if s == "-" then "" else s
def mn (s : String) : MName := s.splitOn "."

partial def pStmts : Nat → List String → List Stmt → Option (List Stmt × List String)
  | 0, ts, acc => some (acc.reverse, ts)
  | n + 1, "S" :: t :: ts, acc => pStmts n ts (.star (mn t) :: acc)
  | n + 1, "F" :: t :: k :: ts, acc => do
    let k ← k.toNat?
    let rec names (k : Nat) (ts : List String) (a : List (String × String)) : Option (List (String × String) × List String) :=
      match k, ts with
      | 0, ts => some (a.reverse, ts)
      | k + 1, x :: y :: ts => names k ts ((x, y) :: a)
      | _, _ => none
    let (nm, ts) ← names k ts []
    pStmts n ts (.fromImp (mn t) nm :: acc)
  | n + 1, "I" :: t :: a :: ts, acc => pStmts n ts (.imp (mn t) (if a == "-" then none else some a) :: acc)
  | n + 1, "D" :: k :: ts, acc => pStmts n ts (.define k :: acc)
  | n + 1, "A" :: k :: ts, acc => do
    let k ← k.toNat?
    pStmts n (ts.drop k) (.setAll (ts.take k) :: acc)
  | n + 1, "R" :: k :: t :: ts, acc => pStmts n ts (.rebind k (mn t) :: acc)
  | _, _, _ => none

partial def pGraph : Nat → List String → Graph → Option Graph
  | 0, _, acc => some acc.reverse
  | n + 1, "M" :: name :: k :: ts, acc => do
    let k ← k.toNat?
    let (ss, ts) ← pStmts k ts []
    pGraph n ts (⟨mn name, ss⟩ :: acc)
  | _, _, _ => none

def objStr : Obj → String
  | .module m => "m:" ++ m.dotted
  | .defn h n => "d:" ++ h.dotted ++ ":" ++ n
  | .ext _ => "x"

/-- `imp eval <first> <graph>` → every eolib module's namespace, modules and names sorted -/
def handleImp : List String → String
  | "eval" :: first :: n :: ts =>
    match n.toNat?.bind (fun n => pGraph n ts []) with
    | none => "bad-op"
    | some g =>
      let (s, fs) := eval g (mn first) 200000
      let mods := ((s.mods.filter (fun p => p.1.isEolib)).map (fun p => (p.1.dotted, p.2))).toArray.qsort (fun a b => a.1 < b.1) |>.toList
      let render (p : String × ModState) : String :=
        p.1 ++ " " ++ ",".intercalate ((p.2.ns.toArray.qsort (fun a b => a.1 < b.1)).toList.map (fun (k, v) => k ++ "=" ++ objStr v))
      (match s.err with | some e => "err " ++ (e.replace " " "_") | none => if fs.isEmpty then "ok" else "fuel") ++ " | " ++ " | ".intercalate (mods.map render)
  | _ => "bad-op"

end Driver
