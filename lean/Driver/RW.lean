import Driver.Util
import EoVerif.Model.Writer
import EoVerif.Model.Reader
import Std.Data.HashMap
/-! Driver commands for the writer / reader / cp1252 models (C04, C05, C06, C09). -/
namespace Driver
open EoVerif

def parseBool (s : String) : Option Bool :=
  if s == "1" then some true else if s == "0" then some false else none

def parseWOp : List String → Option Writer.Op
  | ["byte", v] => v.toInt?.map .addByte
  | ["bytes", h] => (parseHex h).map .addBytes
  | ["char", v] => v.toInt?.map .addChar
  | ["short", v] => v.toInt?.map .addShort
  | ["three", v] => v.toInt?.map .addThree
  | ["int", v] => v.toInt?.map .addInt
  | ["str", s] => (parseCps s).map .addString
  | ["fstr", s, l, p] => do
    let s ← parseCps s; let l ← l.toInt?; let p ← parseBool p
    pure (.addFixedString s l p)
  | ["estr", s] => (parseCps s).map .addEncodedString
  | ["festr", s, l, p] => do
    let s ← parseCps s; let l ← l.toInt?; let p ← parseBool p
    pure (.addFixedEncodedString s l p)
  | ["san", b] => (parseBool b).map .setSan
  | _ => none

def b01 (b : Bool) : String := if b then "1" else "0"

def writerState (w : Writer) : String := s!"len {w.data.length} san {b01 w.san} data {toHex w.data}"

def parseROp : List String → Option Reader.Op
  | ["byte"] => some .getByte
  | ["bytes", n] => n.toNat?.map .getBytes
  | ["char"] => some .getChar
  | ["short"] => some .getShort
  | ["three"] => some .getThree
  | ["int"] => some .getInt
  | ["str"] => some .getString
  | ["fstr", l, p] => do let l ← l.toInt?; let p ← parseBool p; pure (.getFixedString l p)
  | ["estr"] => some .getEncodedString
  | ["festr", l, p] => do let l ← l.toInt?; let p ← parseBool p; pure (.getFixedEncodedString l p)
  | ["chunked", b] => (parseBool b).map .setChunked
  | ["next"] => some .nextChunk
  | _ => none

def valStr : Reader.Val → String
  | .none => "N"
  | .int v => s!"i{v}"
  | .bytes bs => "y" ++ toHex bs
  | .str s => "s" ++ cpsToStr s

def readerState (r : Reader) : String := s!"pos {r.pos} rem {r.remaining} chunked {b01 r.chunked}"

abbrev Readers := Std.HashMap Nat Reader

def parseOptInt (s : String) : Option (Option Int) :=
  if s == "-" then some none else s.toInt?.map some

def handleReader (rs : Readers) : List String → Readers × String
  | ["clear"] => ({}, "ok")
  | [id, "copy", nid] => match id.toNat?, nid.toNat? with
    | some id, some nid => match rs.get? id with
      | some r => (rs.insert nid r, "ok")
      | none => (rs, "bad-id")
    | _, _ => (rs, "bad-op")
  | ["new", id, h] => match id.toNat?, parseHex h with
    | some id, some bs => (rs.insert id (Reader.new bs), "ok")
    | _, _ => (rs, "bad-op")
  | [id, "slice", i, l, nid] => match id.toNat?, parseOptInt i, parseOptInt l, nid.toNat? with
    | some id, some i, some l, some nid =>
      match rs.get? id with
      | some r => match r.slice i l with
        | .ok s => (rs.insert nid s, s!"ok len {s.data.length}")
        | .error e => (rs, s!"err {e}")
      | none => (rs, "bad-id")
    | _, _, _, _ => (rs, "bad-op")
  | id :: rest => match id.toNat?, parseROp rest with
    | some id, some op =>
      match rs.get? id with
      | some r =>
        let (r', out) := r.step op
        (rs.insert id r', (match out with | .ok v => "ok " ++ valStr v | .error e => s!"err {e}") ++ " " ++ readerState r')
      | none => (rs, "bad-id")
    | _, _ => (rs, "bad-op")
  | _ => (rs, "bad-op")

def handleCp : List String → String
  | ["enc", c] => match c.toNat? with
    | some c => s!"ok {Ansi.encodeCp c}"
    | none => "bad-op"
  | ["dec", b] => match b.toNat? with
    | some b => s!"ok {Ansi.decodeByte b}"
    | none => "bad-op"
  | ["crc", "enc", lo, hi] => match lo.toNat?, hi.toNat? with
    | some lo, some hi => Id.run do
      let mut c := crcInit
      for cp in [lo:hi] do
        c := crcByte c (Ansi.encodeCp cp).toUInt8
      return s!"ok {crcFinish c}"
    | _, _ => "bad-op"
  | _ => "bad-op"

end Driver
