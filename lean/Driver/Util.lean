import EoVerif.Model.Basic
/-! Line-protocol helpers for the driver: hex, ints, CRC-32. -/
namespace Driver
open EoVerif

def hexDigit (c : Char) : Option Nat :=
  if '0' ≤ c ∧ c ≤ '9' then some (c.toNat - '0'.toNat)
  else if 'a' ≤ c ∧ c ≤ 'f' then some (c.toNat - 'a'.toNat + 10)
  else if 'A' ≤ c ∧ c ≤ 'F' then some (c.toNat - 'A'.toNat + 10)
  else none

def parseHexChars : List Char → Option (List Nat)
  | [] => some []
  | a :: b :: rest => do
    let x ← hexDigit a
    let y ← hexDigit b
    let r ← parseHexChars rest
    pure ((x * 16 + y) :: r)
  | _ => none

/-- `-` is the empty byte string. -/
def parseHex (s : String) : Option (List Nat) :=
  if s == "-" then some [] else parseHexChars s.toList

def hexChar (n : Nat) : Char := if n < 10 then Char.ofNat (n + 48) else Char.ofNat (n + 87)

def toHex (bs : List Nat) : String :=
  if bs.isEmpty then "-" else
    String.ofList (bs.foldr (fun b acc => hexChar (b / 16 % 16) :: hexChar (b % 16) :: acc) [])

/-- comma separated hex code points, `-` for empty -/
def parseCps (s : String) : Option (List Nat) :=
  if s == "-" then some [] else
    (s.splitOn ",").mapM (fun t => do
      let ds ← t.toList.mapM hexDigit
      pure (ds.foldl (fun a d => a * 16 + d) 0))

def natToHexStr (n : Nat) : String :=
  if n < 16 then String.singleton (hexChar n) else natToHexStr (n / 16) ++ String.singleton (hexChar (n % 16))

def cpsToStr (cps : List Nat) : String :=
  if cps.isEmpty then "-" else ",".intercalate (cps.map natToHexStr)

def crcTable : Array UInt32 := Id.run do
  let mut t : Array UInt32 := Array.mkEmpty 256
  for i in [0:256] do
    let mut c : UInt32 := i.toUInt32
    for _ in [0:8] do
      c := if c &&& 1 == 1 then (c >>> 1) ^^^ 0xEDB88320 else c >>> 1
    t := t.push c
  return t

@[inline] def crcByte (crc : UInt32) (b : UInt8) : UInt32 :=
  (crcTable[((crc ^^^ b.toUInt32) &&& 0xFF).toNat]!) ^^^ (crc >>> 8)

def crcBytes (crc : UInt32) (bs : List Nat) : UInt32 :=
  bs.foldl (fun c b => crcByte c b.toUInt8) crc

/-- little-endian two's complement 64-bit bytes of an integer -/
def crcInt64 (crc : UInt32) (v : Int) : UInt32 := Id.run do
  let u : UInt64 := if v ≥ 0 then v.toNat.toUInt64 else (0 : UInt64) - ((-v).toNat.toUInt64)
  let mut c := crc
  for k in [0:8] do
    c := crcByte c ((u >>> (8 * k).toUInt64) &&& 0xFF).toUInt8
  return c

def crcInit : UInt32 := 0xFFFFFFFF
def crcFinish (c : UInt32) : Nat := (c ^^^ 0xFFFFFFFF).toNat

def exceptStr {α} (f : α → String) : Except PyErr α → String
  | .ok a => "ok " ++ f a
  | .error e => "err " ++ toString e

end Driver
