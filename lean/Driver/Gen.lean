import Driver.RW
import Driver.IRPrint
import EoVerif.Model.GenExec
import EoVerif.Spec.Protocol
import EoVerif.Lemmas.RoundTripDefs
import EoVerif.Spec.WellFormed
import EoVerif.Spec.WellFormedTypes
import EoVerif.Spec.WellFormedTyped
import EoVerif.Props.C02
import EoVerif.Props.C03b
/-! Driver commands for the generator model (C01–C03, C15–C19). -/
namespace Driver
open EoVerif EoVerif.Gen

abbrev P (α : Type) := List String → Option (α × List String)

def pStr : P String
  | t :: rest =>
    if t.startsWith "=" then
      match parseHexChars (t.drop 1).toString.toList with
      | some bs => match String.fromUTF8? (ByteArray.mk (bs.map (·.toUInt8)).toArray) with
        | some s => some (s, rest)
        | none => none
      | none => none
    else none
  | [] => none

def pOStr : P (Option String)
  | "-" :: rest => some (none, rest)
  | ts => (pStr ts).map (fun (s, r) => (some s, r))

def pNat : P Nat
  | t :: rest => t.toNat?.map (·, rest)
  | [] => none

partial def pXml : P Xml
  | "E" :: ts => do
    let (tag, ts) ← pStr ts
    let (na, ts) ← pNat ts
    let rec attrs (n : Nat) (ts : List String) (acc : List (String × String)) : Option (List (String × String) × List String) :=
      match n with
      | 0 => some (acc.reverse, ts)
      | n + 1 => do
        let (k, ts) ← pStr ts
        let (v, ts) ← pStr ts
        attrs n ts ((k, v) :: acc)
    let (as, ts) ← attrs na ts []
    let (text, ts) ← pOStr ts
    let (tail, ts) ← pOStr ts
    let (nc, ts) ← pNat ts
    let rec kids (n : Nat) (ts : List String) (acc : List Xml) : Option (List Xml × List String) :=
      match n with
      | 0 => some (acc.reverse, ts)
      | n + 1 => do
        let (c, ts) ← pXml ts
        kids n ts (c :: acc)
    let (cs, ts) ← kids nc ts []
    pure (Xml.mk tag as text tail cs, ts)
  | _ => none

def pForest (ts : List String) : Option (List ProtoFile) := do
  let (n, ts) ← pNat ts
  let rec go (n : Nat) (ts : List String) (acc : List ProtoFile) : Option (List ProtoFile) :=
    match n, ts with
    | 0, _ => some acc.reverse
    | n + 1, "F" :: ts => do
      let (dir, ts) ← pStr ts
      let (x, ts) ← pXml ts
      go n ts (⟨if dir.isEmpty then "." else dir, x⟩ :: acc)
    | _, _ => none
  go n ts []

partial def pValue : P Value
  | "N" :: ts => some (.none, ts)
  | "M" :: ts => some (.missing, ts)
  | "B" :: b :: ts => (parseBool b).map (fun x => (.bool x, ts))
  | "I" :: n :: ts => n.toInt?.map (fun x => (.int x, ts))
  | "S" :: s :: ts => (parseCps s).map (fun x => (.str x, ts))
  | "Y" :: h :: ts => (parseHex h).map (fun x => (.bytes x, ts))
  | "T" :: n :: ts => do
    let n ← n.toNat?
    let rec go (n : Nat) (ts : List String) (acc : List Value) : Option (List Value × List String) :=
      match n with
      | 0 => some (acc.reverse, ts)
      | n + 1 => do
        let (v, ts) ← pValue ts
        go n ts (v :: acc)
    let (vs, ts) ← go n ts []
    pure (.tuple vs, ts)
  | "O" :: cls :: n :: ts => do
    let n ← n.toNat?
    let rec goF (n : Nat) (ts : List String) (acc : List (String × Value)) : Option (List (String × Value) × List String) :=
      match n, ts with
      | 0, _ => some (acc.reverse, ts)
      | n + 1, name :: ts => do
        let (v, ts) ← pValue ts
        goF n ts ((name, v) :: acc)
      | _, _ => none
    let (fs, ts) ← goF n ts []
    match ts with
    | bs :: ts => bs.toInt?.map (fun b => (.obj cls fs b, ts))
    | [] => none
  | _ => none

partial def valueStr : Value → String
  | .none => "N"
  | .missing => "M"
  | .bool b => "B " ++ b01 b
  | .int n => s!"I {n}"
  | .str s => "S " ++ cpsToStr s
  | .bytes b => "Y " ++ toHex b
  | .tuple vs => s!"T {vs.length}" ++ String.join (vs.map (fun v => " " ++ valueStr v))
  | .obj c fs b => s!"O {c} {fs.length}" ++ String.join (fs.map (fun (n, v) => " " ++ n ++ " " ++ valueStr v)) ++ s!" {b}"

def fileKindStr : FileKind → String
  | .enum => "enum" | .struct => "struct" | .packet => "packet" | .init => "init"

def sanitizeMsg (m : String) : String := String.ofList (m.toList.map (fun c => if c == ' ' then '_' else c))

structure GenState where
  out : Option GenOutput := none
  spec : Option Spec.TSpec := none
  files : List ProtoFile := []

def handleGen (gs : GenState) : List String → GenState × String
  | "load" :: ts =>
    match pForest ts with
    | none => (gs, "bad-op")
    | some files =>
      match compile files with
      | .error m => ({ out := none, spec := Spec.elabSpec files, files := files }, "err " ++ sanitizeMsg m)
      | .ok o => ({ out := some o, spec := Spec.elabSpec files, files := files }, s!"ok {o.classes.length}" ++ String.join (o.classes.map (fun c => " " ++ c.name)))
  | ["wf"] =>
    -- the verdicts of the declarative checkers the C17 theorems are stated over, and of the domain of `ser_conforms`
    let roots := gs.files.map (·.root)
    let ctxOk := gs.files.all (fun f => (f.root.findall "struct" ++ f.root.findall "packet").all Spec.wfClass)
    (gs, s!"ok context {b01 ctxOk} decls {b01 (Spec.declsWF roots)} packets {b01 (Spec.packetsWF (gs.files.map (fun f => (f.dir, f.root))))}" ++
         s!" typed {b01 (Spec.typedSpec roots)} fragmentde {b01 (FragmentDe gs.files)} fragment {b01 (Fragment gs.files)}")
  | ["files"] =>
    match gs.out with
    | none => (gs, "no-spec")
    | some o => (gs, "ok " ++ " | ".intercalate (o.files.map (fun f =>
        f.path ++ " " ++ fileKindStr f.kind ++ " " ++ ",".intercalate f.names ++ " ; " ++ ";;".intercalate f.imports)))
  | ["enums"] =>
    match gs.out with
    | none => (gs, "no-spec")
    | some o => (gs, "ok " ++ " | ".intercalate (o.enums.map (fun e =>
        e.name ++ " " ++ e.under.name ++ " " ++ ",".intercalate (e.values.map (fun v => s!"{v.pyName}={v.ordinal}")))))
  | ["meta", cls] =>
    match gs.out.bind (·.findClass? cls) with
    | none => (gs, "no-class")
    | some c =>
      let fk : FieldKind → String | .normal => "n" | .length => "l" | .caseData => "c"
      (gs, "ok fields " ++ ",".intercalate (c.fields.map (fun f => f.name ++ ":" ++ fk f.kind ++ (if f.isArray then "a" else "")))
        ++ " params " ++ ",".intercalate (c.params.map (fun p => p.name ++ ":" ++ b01 p.hasDefault))
        ++ " getters " ++ ",".intercalate c.getters ++ " setters " ++ ",".intercalate c.setters
        ++ " packet " ++ (match c.packet with
          | some p => s!"{p.family}:{p.familyOrdinal}:{p.action}:{p.actionOrdinal}"
          | none => "-"))
  | ["ir", cls] =>
    -- the instruction IR of a class, for the structural tie with the emitted Python text (harness/pyir.py)
    match gs.out.bind (·.findClass? cls) with
    | none => (gs, "no-class")
    | some c => (gs, "ok " ++ classIRStr c)
  | "new" :: cls :: n :: ts =>
    match gs.out.bind (·.findClass? cls), n.toNat? with
    | some c, some n =>
      let rec go (n : Nat) (ts : List String) (acc : List (String × Value)) : Option (List (String × Value)) :=
        match n, ts with
        | 0, _ => some acc.reverse
        | n + 1, name :: ts => match pValue ts with
          | some (v, ts) => go n ts ((name, v) :: acc)
          | none => none
        | _, _ => none
      match go n ts [] with
      | none => (gs, "bad-op")
      | some args =>
        match construct c args with
        | .ok v => (gs, "ok " ++ valueStr v)
        | .error e => (gs, s!"err {e}")
    | _, _ => (gs, "no-class")
  | "ser" :: cls :: san :: ts =>
    match gs.out, parseBool san, pValue ts with
    | some o, some san, some (v, _) =>
      let (w, r) := execSer o o.depth cls v { san := san }
      (gs, match r with
        | .ok () => s!"ok {toHex w.data} san {b01 w.san}"
        | .error e => s!"err {e} data {toHex w.data} san {b01 w.san}")
    | none, _, _ => (gs, "no-spec")
    | _, _, _ => (gs, "bad-op")
  | ["de", cls, chunked, h] =>
    match gs.out, parseBool chunked, parseHex h with
    | some o, some ch, some bs =>
      let r0 := ((Reader.new bs).step (.setChunked ch)).1
      let (r, res) := execDe o o.depth cls r0
      (gs, match res with
        | .ok v => s!"ok {valueStr v} pos {r.pos} chunked {b01 r.chunked}"
        | .error e => s!"err {e} pos {r.pos} chunked {b01 r.chunked}")
    | none, _, _ => (gs, "no-spec")
    | _, _, _ => (gs, "bad-op")
  | "wire" :: cls :: san :: ts =>
    match gs.spec, parseBool san, pValue ts with
    | some t, some san, some (v, _) =>
      (gs, match Spec.wireClass t (t.classes.length + 1) cls v san with
        | some bs => s!"ok {toHex bs}"
        | none => "refuse")
    | none, _, _ => (gs, "no-spec")
    | _, _, _ => (gs, "bad-op")
  | "rtdomain" :: cls :: ts =>
    -- is (spec, class, value) inside the domain of the machine-checked round-trip theorem (Props/C01.lean)?
    match gs.spec, pValue ts with
    | some t, some (v, _) =>
      let u := (Spec.RT.okClass t (t.classes.length + 1) cls false true true).isSome
      let r := Spec.RT.rtClass t (t.classes.length + 1) cls v false
      (gs, s!"ok unambiguous {b01 u} rtvalue {b01 r}")
    | none, _ => (gs, "no-spec")
    | _, _ => (gs, "bad-op")
  | ["rspec", cls, chunked, h] =>
    match gs.spec, parseBool chunked, parseHex h with
    | some t, some ch, some bs =>
      (gs, match Spec.readClass t (t.classes.length + 1) cls ⟨bs, 0, ch, 0⟩ with
        | .ok (r, v) => s!"ok {valueStr v} pos {r.pos} chunked {b01 r.chunked}"
        | .error .negativeLength => "err ValueError"
        | .error .diverges => "err Diverges")
    | none, _, _ => (gs, "no-spec")
    | _, _, _ => (gs, "bad-op")
  | _ => (gs, "bad-op")

end Driver
