import Driver.Core
import Driver.RW
import Driver.Gen
import Driver.EnumD
import Driver.ImpD
/-! One request per line on stdin, one canonical answer per line on stdout. -/
open Driver EoVerif

structure DState where
  sqr : Seq.Sequencer := Seq.Sequencer.new 0
  w : Writer := {}
  rs : Readers := {}
  gen : GenState := {}
  enums : Enums := {}

def step (st : DState) (line : String) : DState × String :=
  match (line.trimAscii.toString.splitOn " ").filter (· ≠ "") with
  | "num" :: rest => (st, handleNum rest)
  | "str" :: rest => (st, handleStr rest)
  | "enc" :: rest => (st, handleEnc rest)
  | "hash" :: rest => (st, handleHash rest)
  | "seq" :: rest => (st, handleSeq rest)
  | ["sqr", "new", v] => match v.toInt? with
    | some v => ({ st with sqr := Seq.Sequencer.new v }, "ok")
    | none => (st, "bad-op")
  | ["sqr", "next"] =>
    let (s', out) := st.sqr.step .next
    ({ st with sqr := s' }, match out with | some v => s!"ok {v}" | none => "ok")
  | ["sqr", "set", v] => match v.toInt? with
    | some v => ({ st with sqr := (st.sqr.step (.setStart v)).1 }, "ok")
    | none => (st, "bad-op")
  | ["w", "new"] => ({ st with w := {} }, "ok")
  | "w" :: rest => match parseWOp rest with
    | some op =>
      let (w', out) := st.w.step op
      ({ st with w := w' }, (match out with | .ok () => "ok" | .error e => s!"err {e}") ++ " " ++ writerState w')
    | none => (st, "bad-op")
  | "r" :: rest =>
    let (rs', out) := handleReader st.rs rest
    ({ st with rs := rs' }, out)
  | "cp1252" :: rest => (st, handleCp rest)
  | "imp" :: rest => (st, handleImp rest)
  | "enum" :: rest =>
    let (e', out) := handleEnum st.enums rest
    ({ st with enums := e' }, out)
  | "gen" :: rest =>
    let (g', out) := handleGen st.gen rest
    ({ st with gen := g' }, out)
  | ["ping"] => (st, "pong")
  | _ => (st, "bad-op")

partial def loop (hin : IO.FS.Stream) (hout : IO.FS.Stream) (st : DState) : IO Unit := do
  let line ← hin.getLine
  if line.isEmpty then return ()
  if line.trimAscii.toString == "flush" then
    hout.flush
    loop hin hout st
  else
    let (st', out) := step st line
    hout.putStrLn out
    loop hin hout st'

def main : IO Unit := do
  let hin ← IO.getStdin
  let hout ← IO.getStdout
  loop hin hout {}
  hout.flush
