import EoVerif.Model.GenIR
import Driver.Util
/-! Canonical S-expression rendering of the instruction IR (`gen ir <class>`), compared by `harness/pyir.py` with
    what it recognises in the Python text the real generator emitted. -/
namespace Driver
open EoVerif EoVerif.Gen

def strHex (s : String) : String :=
  if s.isEmpty then "-" else toHex (s.toUTF8.toList.map (·.toNat))

def lenEStr : LenE → String
  | .lit n => s!"(lit {n})"
  | .field f => s!"(fld {f})"

def ioKindStr : IOKind → String
  | .int k => s!"(int {k.name})"
  | .str e l p => s!"(str {if e then 1 else 0} {match l with | none => "-" | some x => lenEStr x} {if p then 1 else 0})"
  | .blob => "(blob)"
  | .struct c => s!"(struct {c})"

def vExprStr : VExpr → String
  | .litInt n => s!"(li {n})"
  | .litStr s => s!"(ls {strHex s})"
  | .field n i => s!"(f {n} {if i then 1 else 0})"

def coerceStr : Coerce → String
  | .none => "none" | .bool => "bool" | .enum => "enum"

def countEStr : CountE → String
  | .lit n => s!"(lit {n})"
  | .lenField n => s!"(lenfield {n})"
  | .lenOf f => s!"(lenof {f})"

def caseSerStr : CaseSer → String
  | .expectNone d => s!"(none {d})"
  | .expectCls d c => s!"(cls {d} {c})"

def condStr : Option Int → String
  | none => "default"
  | some n => toString n

mutual
partial def serOpStr : SerOp → String
  | .setSan b => s!"(setsan {if b then 1 else 0})"
  | .addBreak => "(break)"
  | .optGuard acc f body => s!"(opt {if acc then 1 else 0} {f} {serOpsStr body})"
  | .noneCheck f => s!"(nonecheck {f})"
  | .lenCheck f gt limit => s!"(lencheck {f} {if gt then "gt" else "ne"} {limit})"
  | .forRange c body => s!"(for {countEStr c} {serOpsStr body})"
  | .ifIdxPos body => s!"(ifidx {serOpsStr body})"
  | .write k v c off => s!"(write {ioKindStr k} {vExprStr v} {coerceStr c} {off})"
  | .dummyGuard body => s!"(dummy {serOpsStr body})"
  | .switch f cases => s!"(switch {f}" ++ String.join (cases.map (fun c => s!" (case {condStr c.cond} {caseSerStr c.body})")) ++ ")"
partial def serOpsStr (ops : List SerOp) : String := "[" ++ " ".intercalate (ops.map serOpStr) ++ "]"
end

def targetStr : Target → String
  | .discard => "(discard)"
  | .var n => s!"(var {n})"
  | .append n => s!"(append {n})"

def countDStr : CountD → String
  | .lit n => s!"(lit {n})"
  | .var n => s!"(var {n})"

def delimStr : Delim → String
  | .none => "none" | .always => "always" | .guarded => "guarded"

def caseDeStr : CaseDe → String
  | .setNone d => s!"(none {d})"
  | .callCls d c => s!"(cls {d} {c})"

mutual
partial def deOpStr : DeOp → String
  | .setChunked b => s!"(setchunked {if b then 1 else 0})"
  | .nextChunk => "(nextchunk)"
  | .optRead n body => s!"(optread {n} {deOpsStr body})"
  | .read t k c off => s!"(read {targetStr t} {ioKindStr k} {coerceStr c} {off})"
  | .initList n => s!"(initlist {n})"
  | .lenVar n size => s!"(lenvar {n} {size})"
  | .forRange c body d => s!"(for {countDStr c} {deOpsStr body} {delimStr d})"
  | .whileRemaining body d => s!"(while {deOpsStr body} {if d then 1 else 0})"
  | .dummyGuard body => s!"(dummy {deOpsStr body})"
  | .declNone n => s!"(declnone {n})"
  | .switch f cases => s!"(switch {f}" ++ String.join (cases.map (fun c => s!" (case {condStr c.cond} {caseDeStr c.body})")) ++ ")"
partial def deOpsStr (ops : List DeOp) : String := "[" ++ " ".intercalate (ops.map deOpStr) ++ "]"
end

def initExprStr : InitExpr → String
  | .param n => s!"(param {n})"
  | .tupleOf n o => s!"(tuple {n} {if o then 1 else 0})"
  | .strLit s => s!"(ls {strHex s})"
  | .pasted t => s!"(pasted {strHex t})"
  | .boolLit b => s!"(bool {if b then 1 else 0})"

def initStmtStr : InitStmt → String
  | .assign a e => s!"(assign {a} {initExprStr e})"
  | .lenOf l o opt => s!"(lenof {l} {o} {if opt then 1 else 0})"

def classIRStr (c : ClassIR) : String :=
  s!"oldlen {if c.needsOldLen then 1 else 0} ;; ser {serOpsStr c.ser} ;; de {deOpsStr c.de} ;; deargs [{" ".intercalate c.deArgs}] ;; init [{" ".intercalate (c.initBody.map initStmtStr)}]"

end Driver
