import Driver.Util
import EoVerif.Model.Num
import EoVerif.Model.Str
import EoVerif.Model.Enc
import EoVerif.Model.Hash
import EoVerif.Model.Seq
/-! Driver commands for the hand-written core library (C07, C08, C10, C11, C12, C13). -/
namespace Driver
open EoVerif

def handleNum : List String → String
  | ["enc", n] => match n.toInt? with
    | some n => exceptStr toHex (Num.encode n)
    | none => "bad-op"
  | ["dec", h] => match parseHex h with
    | some bs => s!"ok {Num.decode bs}"
    | none => "bad-op"
  | ["crc", "enc", lo, hi] => match lo.toNat?, hi.toNat? with
    | some lo, some hi => Id.run do
      let mut c := crcInit
      for n in [lo:hi] do
        match Num.encode n with
        | .ok bs => c := crcBytes c bs
        | .error _ => c := crcByte c 0
      return s!"ok {crcFinish c}"
    | _, _ => "bad-op"
  | ["crc", "rt", lo, hi] => match lo.toNat?, hi.toNat? with
    | some lo, some hi => Id.run do
      -- crc of decode(encode n) as int64 for n in [lo,hi)
      let mut c := crcInit
      for n in [lo:hi] do
        match Num.encode n with
        | .ok bs => c := crcInt64 c (Num.decode bs)
        | .error _ => c := crcInt64 c (-1)
      return s!"ok {crcFinish c}"
    | _, _ => "bad-op"
  | _ => "bad-op"

def handleStr : List String → String
  | ["enc", h] => match parseHex h with
    | some bs => "ok " ++ toHex (Str.encode bs)
    | none => "bad-op"
  | ["dec", h] => match parseHex h with
    | some bs => "ok " ++ toHex (Str.decode bs)
    | none => "bad-op"
  | _ => "bad-op"

def handleEnc : List String → String
  | ["ilv", h] => match parseHex h with
    | some bs => "ok " ++ toHex (Enc.interleave bs)
    | none => "bad-op"
  | ["dlv", h] => match parseHex h with
    | some bs => "ok " ++ toHex (Enc.deinterleave bs)
    | none => "bad-op"
  | ["flip", h] => match parseHex h with
    | some bs => "ok " ++ toHex (Enc.flipMsb bs)
    | none => "bad-op"
  | ["swap", m, h] => match m.toInt?, parseHex h with
    | some m, some bs => exceptStr toHex (Enc.swapMultiples bs m)
    | _, _ => "bad-op"
  | _ => "bad-op"

def handleHash : List String → String
  | ["v", c] => match c.toInt? with
    | some c => s!"ok {Hash.hash c}"
    | none => "bad-op"
  | ["old", c] => match c.toInt? with
    | some c => s!"ok {Hash.hashOld c}"
    | none => "bad-op"
  | ["crc", lo, hi] => match lo.toInt?, hi.toInt? with
    | some lo, some hi => Id.run do
      let mut c := crcInit
      let n := (hi - lo).toNat
      for k in [0:n] do
        c := crcInt64 c (Hash.hash (lo + k))
      return s!"ok {crcFinish c}"
    | _, _ => "bad-op"
  | _ => "bad-op"

def startStr (s : Seq.Start) (recon : Int) : String := s!"ok {s.value} {s.seq1} {s.seq2} {recon}"

def handleSeq : List String → String
  | ["init", "range1"] => s!"range {Seq.draw1}"
  | ["init", "range2", r1] => match r1.toInt? with
    | some r1 => s!"range {Seq.initDraw2 r1}"
    | none => "bad-op"
  | ["init", r1, r2] => match r1.toInt?, r2.toInt? with
    | some r1, some r2 =>
      let s := Seq.initGenerate r1 r2
      startStr s (Seq.fromInitValues s.seq1 s.seq2).value
    | _, _ => "bad-op"
  | ["ping", "range1"] => s!"range {Seq.draw1}"
  | ["ping", "range2"] => s!"range {Seq.pingDraw2}"
  | ["ping", r1, r2] => match r1.toInt?, r2.toInt? with
    | some r1, some r2 =>
      let s := Seq.pingGenerate r1 r2
      startStr s (Seq.fromPingValues s.seq1 s.seq2).value
    | _, _ => "bad-op"
  | ["account", "range"] => s!"range {Seq.accountDraw}"
  | ["account", r] => match r.toInt? with
    | some r => s!"ok {Seq.accountGenerate r} {Seq.fromValue (Seq.accountGenerate r)}"
    | none => "bad-op"
  | ["frominit", a, b] => match a.toInt?, b.toInt? with
    | some a, some b => let s := Seq.fromInitValues a b; startStr s s.value
    | _, _ => "bad-op"
  | ["fromping", a, b] => match a.toInt?, b.toInt? with
    | some a, some b => let s := Seq.fromPingValues a b; startStr s s.value
    | _, _ => "bad-op"
  | ["crc", "init"] => Id.run do
      -- crc over every outcome (value, seq1, seq2, reconstructed) in DFS order
      let mut c := crcInit
      let mut cnt := 0
      for r1 in [0:Seq.draw1.toNat] do
        let n2 := Seq.initDraw2 r1
        c := crcInt64 c n2
        for r2 in [0:n2.toNat] do
          let s := Seq.initGenerate r1 r2
          c := crcInt64 (crcInt64 (crcInt64 (crcInt64 c s.value) s.seq1) s.seq2) (Seq.fromInitValues s.seq1 s.seq2).value
          cnt := cnt + 1
      return s!"ok {crcFinish c} {cnt}"
  | ["crc", "ping"] => Id.run do
      let mut c := crcInit
      let mut cnt := 0
      for r1 in [0:Seq.draw1.toNat] do
        c := crcInt64 c Seq.pingDraw2
        for r2 in [0:Seq.pingDraw2.toNat] do
          let s := Seq.pingGenerate r1 r2
          c := crcInt64 (crcInt64 (crcInt64 (crcInt64 c s.value) s.seq1) s.seq2) (Seq.fromPingValues s.seq1 s.seq2).value
          cnt := cnt + 1
      return s!"ok {crcFinish c} {cnt}"
  | _ => "bad-op"

end Driver
