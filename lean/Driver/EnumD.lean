import Driver.Util
import EoVerif.Model.Enum
import Std.Data.HashMap
namespace Driver
open EoVerif

abbrev Enums := Std.HashMap Nat Enum.Decl

def parseMembers (s : String) : Option (List (String × Int)) :=
  if s == "-" then some [] else
    (s.splitOn ",").mapM (fun t => match t.splitOn ":" with
      | [n, o] => o.toInt?.map (fun o => (n, o))
      | _ => none)

def handleEnum (es : Enums) : List String → Enums × String
  | ["new", id, ms] => match id.toNat?, parseMembers ms with
    | some id, some ms => (es.insert id ⟨ms⟩, "ok")
    | _, _ => (es, "bad-op")
  | [id, "call", n] => match id.toNat?, n.toInt? with
    | some id, some n => match es.get? id with
      | some d =>
        let i := Enum.construct d n
        (es, match i with
          | .member nm o => s!"member {nm} {o} int {i.toInt}"
          | .unrecognized m => s!"unrecognized {m} {i.name} int {i.toInt}")
      | none => (es, "bad-id")
    | _, _ => (es, "bad-op")
  | _ => (es, "bad-op")

end Driver
