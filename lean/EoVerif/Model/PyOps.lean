import EoVerif.Model.Basic
import EoVerif.Model.Ansi
/-!
  The target vocabulary of the source translator (`harness/py2lean.py`).

  `Generated/Src*.lean` is **regenerated from `/repo`'s working tree on every run**: each translated Python
  function becomes one Lean definition written with the combinators below, statement by statement (an
  assignment is a shadowing `let`, an `if` joins the variables it assigns in a tuple, a `for … in range(n)` is
  `forRange` over the variables the body assigns, `while` is `whileLoop` with explicit fuel, every operation
  that can raise takes its continuation).  Nothing here knows about the hand-written models; the theorems of
  `Props/Src*.lean` prove that the translated source *is* the hand-written model.

  Python semantics assumed (trusted base of the translation): unbounded `int`; `//` and `%` are floor division
  and floor remainder (`Int.fdiv`, `Int.fmod`) and raise `ZeroDivisionError` on a zero divisor; `int(a / b)` is
  truncating division (exact for |a|, |b| < 2^26, far above the values the code feeds it; the exhaustive C12
  correspondence checks it on the whole domain); indexing a `bytes`/`bytearray` with an index outside
  `-len ≤ i < len` raises `IndexError` (rendered `Other`), storing a value outside `range(256)` raises
  `ValueError`; `bytes([...])` raises `ValueError` for an element outside `range(256)`;
  `random.randrange(a, b)` returns some `r` with `a ≤ r < b` (the drawn value is a parameter; a draw outside the
  requested range is reported as `ValueError`, which is also what an empty range raises).
-/
namespace EoVerif.Py

abbrev M := Except PyErr

@[inline] def bind {α β} (x : M α) (k : α → M β) : M β :=
  match x with
  | .ok a => k a
  | .error e => .error e

@[simp] theorem bind_ok {α β} (a : α) (k : α → M β) : bind (.ok a) k = k a := rfl
@[simp] theorem bind_error {α β} (e : PyErr) (k : α → M β) : bind (.error e : M α) k = .error e := rfl

/-- `a // b` -/
def floorDiv {α} (a b : Int) (k : Int → M α) : M α :=
  if b = 0 then .error .ZeroDivisionError else k (Int.fdiv a b)

/-- `a % b` -/
def floorMod {α} (a b : Int) (k : Int → M α) : M α :=
  if b = 0 then .error .ZeroDivisionError else k (Int.fmod a b)

/-- `int(a / b)` -/
def truncDiv {α} (a b : Int) (k : Int → M α) : M α :=
  if b = 0 then .error .ZeroDivisionError else k (Int.tdiv a b)

/-- `len(xs)` -/
def len (xs : List Int) : Int := (xs.length : Int)

def normIndex (xs : List Int) (i : Int) : Int := if i < 0 then i + len xs else i

/-- `xs[i]` (load) -/
def getItem {α} (xs : List Int) (i : Int) (k : Int → M α) : M α :=
  let j := normIndex xs i
  if 0 ≤ j ∧ j < len xs then k (xs.getD j.toNat 0) else .error .Other

/-- `xs[i] = v` on a `bytearray` -/
def setItem {α} (xs : List Int) (i v : Int) (k : List Int → M α) : M α :=
  let j := normIndex xs i
  if 0 ≤ j ∧ j < len xs then
    if 0 ≤ v ∧ v < 256 then k (xs.set j.toNat v) else .error .ValueError
  else .error .Other

/-- `bytes([...])` / `bytearray([...])` -/
def mkBytes {α} (vs : List Int) (k : List Int → M α) : M α :=
  if vs.all (fun v => decide (0 ≤ v) && decide (v < 256)) then k vs else .error .ValueError

/-- `bytearray(n)` -/
def zeros {α} (n : Int) (k : List Int → M α) : M α :=
  if n < 0 then .error .ValueError else k (List.replicate n.toNat 0)

/-- `random.randrange(a, b)`; `r` is the value the random source hands back. -/
def randrange {α} (a b r : Int) (k : Int → M α) : M α :=
  if a ≤ r ∧ r < b then k r else .error .ValueError

/-- bitwise `&` and `^` on non-negative operands (the translator only emits them for those; a negative operand
    is reported as `Other`). -/
def bitAnd {α} (a b : Int) (k : Int → M α) : M α :=
  if 0 ≤ a ∧ 0 ≤ b then k (Int.ofNat (a.toNat &&& b.toNat)) else .error .Other
def bitXor {α} (a b : Int) (k : Int → M α) : M α :=
  if 0 ≤ a ∧ 0 ≤ b then k (Int.ofNat (a.toNat ^^^ b.toNat)) else .error .Other

/-- `len(s)` of a `str` (code points) -/
def lenS (s : List Nat) : Int := (s.length : Int)

/-- `bytearray(s, 'windows-1252', 'replace')` — the codec is the table model `Ansi.encode`, validated against CPython for all
    1,114,112 code points on every run of the writer checks. -/
def encodeAnsi (s : List Nat) : List Int := (Ansi.encode s).map Int.ofNat

/-- `s[i]` on a `str`: the character (a code point) -/
def getChar {α} (s : List Nat) (i : Int) (k : Nat → M α) : M α :=
  let j := if i < 0 then i + lenS s else i
  if 0 ≤ j ∧ j < lenS s then k (s.getD j.toNat 0) else .error .Other

/-- `c.isupper()`, `c.islower()`, `c.lower()`, `c.upper()` on one character — **ASCII semantics** (the generator's identifiers;
    text outside ASCII is outside the modelled domain, as in `Model/PyStr.lean`) -/
def chrIsUpper (c : Nat) : Bool := decide (65 ≤ c) && decide (c ≤ 90)
def chrIsLower (c : Nat) : Bool := decide (97 ≤ c) && decide (c ≤ 122)
def chrLower (c : Nat) : Nat := if chrIsUpper c then c + 32 else c
def chrUpper (c : Nat) : Nat := if chrIsLower c then c - 32 else c

/-- `xs.append(v)` on a `bytearray` -/
def append {α} (xs : List Int) (v : Int) (k : List Int → M α) : M α :=
  if 0 ≤ v ∧ v < 256 then k (xs ++ [v]) else .error .ValueError

/-- slice bound `k` of `xs[:k]` / `xs[k:]` clipped the way Python clips it -/
def clip (xs : List Int) (k : Int) : Nat :=
  if k < 0 then (k + len xs).toNat else min k.toNat xs.length

/-- `xs[:k]` -/
def slicePrefix (xs : List Int) (k : Int) : List Int := xs.take (clip xs k)
/-- `xs[k:]` -/
def sliceSuffix (xs : List Int) (k : Int) : List Int := xs.drop (clip xs k)
/-- `xs[:k] = v` on a `bytearray` (the replaced part and `v` need not have the same length) -/
def setPrefix (xs : List Int) (k : Int) (v : List Int) : List Int := v ++ xs.drop (clip xs k)
/-- `xs[k:] = v` -/
def setSuffix (xs : List Int) (k : Int) (v : List Int) : List Int := xs.take (clip xs k) ++ v

/-- `xs[a:b]` -/
def slice (xs : List Int) (a b : Int) : List Int := (xs.drop (clip xs a)).take (clip xs b - clip xs a)

/-- `xs.find(bytes([c]))`: index of the first occurrence, `-1` when there is none -/
def findByteFrom (c : Int) : List Int → Nat → Int
  | [], _ => -1
  | x :: xs, i => if x = c then (i : Int) else findByteFrom c xs (i + 1)
def findByte (xs : List Int) (c : Int) : Int := findByteFrom c xs 0

/-- `bs.decode('windows-1252', 'replace')` (the table model `Ansi.decode`, validated against CPython for all 256 bytes) -/
def decodeAnsi (bs : List Int) : List Nat := Ansi.decode (bs.map Int.toNat)

/-- `for i in range(n): body` over the variables the body assigns (`σ`); the `Bool` is "a `break` was executed". -/
def forRangeGo {σ} (body : Int → σ → M (σ × Bool)) : Nat → Int → σ → M σ
  | 0, _, s => .ok s
  | k + 1, i, s =>
    match body i s with
    | .error e => .error e
    | .ok (s', true) => .ok s'
    | .ok (s', false) => forRangeGo body k (i + 1) s'

def forRange {σ} (n : Int) (s : σ) (body : Int → σ → M (σ × Bool)) : M σ :=
  forRangeGo body n.toNat 0 s

/-- `for i in range(a, b): body` -/
def forRange2 {σ} (a b : Int) (s : σ) (body : Int → σ → M (σ × Bool)) : M σ :=
  forRangeGo body (b - a).toNat a s

/-- `while cond: body`; running out of `fuel` is reported as `Diverges`. -/
def whileLoop {σ} (cond : σ → Bool) (body : σ → M σ) : Nat → σ → M σ
  | 0, s => if cond s then .error .Diverges else .ok s
  | fuel + 1, s =>
    if cond s then
      match body s with
      | .error e => .error e
      | .ok s' => whileLoop cond body fuel s'
    else .ok s

end EoVerif.Py

namespace EoVerif.Py

/-! ### unrolling lemmas for the loop combinators (used by `Props/Src*.lean`) -/

theorem forRangeGo_zero {σ} (body : Int → σ → M (σ × Bool)) (i : Int) (s : σ) :
    forRangeGo body 0 i s = .ok s := rfl

theorem forRangeGo_step {σ} (body : Int → σ → M (σ × Bool)) (k : Nat) (i : Int) (s s' : σ)
    (h : body i s = .ok (s', false)) : forRangeGo body (k + 1) i s = forRangeGo body k (i + 1) s' := by
  simp [forRangeGo, h]

theorem forRangeGo_break {σ} (body : Int → σ → M (σ × Bool)) (k : Nat) (i : Int) (s s' : σ)
    (h : body i s = .ok (s', true)) : forRangeGo body (k + 1) i s = .ok s' := by
  simp [forRangeGo, h]

theorem forRangeGo_error {σ} (body : Int → σ → M (σ × Bool)) (k : Nat) (i : Int) (s : σ) (e : PyErr)
    (h : body i s = .error e) : forRangeGo body (k + 1) i s = .error e := by
  simp [forRangeGo, h]

theorem whileLoop_done {σ} (cond : σ → Bool) (body : σ → M σ) (fuel : Nat) (s : σ) (h : cond s = false) :
    whileLoop cond body fuel s = .ok s := by
  cases fuel <;> simp [whileLoop, h]

theorem whileLoop_step {σ} (cond : σ → Bool) (body : σ → M σ) (fuel : Nat) (s s' : σ) (h : cond s = true)
    (hb : body s = .ok s') : whileLoop cond body (fuel + 1) s = whileLoop cond body fuel s' := by
  simp [whileLoop, h, hb]

theorem getItem_ok {α} (xs : List Int) (i : Int) (k : Int → M α) (h : 0 ≤ i ∧ i < (xs.length : Int)) :
    getItem xs i k = k (xs.getD i.toNat 0) := by
  have h1 : ¬ i < 0 := by omega
  simp [getItem, normIndex, len, h1, h]

theorem setItem_ok {α} (xs : List Int) (i v : Int) (k : List Int → M α) (h : 0 ≤ i ∧ i < (xs.length : Int))
    (hv : 0 ≤ v ∧ v < 256) : setItem xs i v k = k (xs.set i.toNat v) := by
  have h1 : ¬ i < 0 := by omega
  simp [setItem, normIndex, len, h1, h, hv]

theorem zeros_ok {α} (n : Nat) (k : List Int → M α) : zeros (n : Int) k = k (List.replicate n 0) := by
  have h1 : ¬ ((n : Int) < 0) := by omega
  simp [zeros, h1]

theorem len_map_ofNat (bs : List Nat) : len (bs.map Int.ofNat) = (bs.length : Int) := by
  simp [len]

end EoVerif.Py
