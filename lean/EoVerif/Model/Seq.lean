import EoVerif.Model.Basic
/-! Model of `eolib/packet/sequence_start.py` and `packet_sequencer.py`.
    The random source is a parameter: `rangeN` is the `stop` argument handed to
    `random.randrange(0, stop)` and the functions take the drawn values. -/
namespace EoVerif.Seq

def CHAR_MAX : Int := 253

structure Start where
  value : Int
  seq1 : Int
  seq2 : Int
  deriving Repr, DecidableEq

/-- First draw of `InitSequenceStart.generate` / `PingSequenceStart.generate`. -/
def draw1 : Int := 1757

/-- `int(x / 7)` : true division then truncation toward zero (exact on the tiny range used). -/
def seq1Max (value : Int) : Int := (value + 13).tdiv 7
def seq1Min (value : Int) : Int := max 0 ((value - (CHAR_MAX - 1) + 13 + 6).tdiv 7)
/-- Second draw range of `InitSequenceStart.generate`. -/
def initDraw2 (value : Int) : Int := seq1Max value - seq1Min value

def initGenerate (r1 r2 : Int) : Start :=
  let value := r1
  let seq1 := r2 + seq1Min value
  let seq2 := value - seq1 * 7 + 13
  ⟨value, seq1, seq2⟩

def fromInitValues (seq1 seq2 : Int) : Start := ⟨seq1 * 7 + seq2 - 13, seq1, seq2⟩

def pingDraw2 : Int := CHAR_MAX - 1
def pingGenerate (r1 r2 : Int) : Start :=
  let value := r1
  let seq1 := value + r2
  let seq2 := seq1 - value
  ⟨value, seq1, seq2⟩
def fromPingValues (seq1 seq2 : Int) : Start := ⟨seq1 - seq2, seq1, seq2⟩

def accountDraw : Int := 240
def accountGenerate (r : Int) : Int := r
def fromValue (v : Int) : Int := v

/-! ### PacketSequencer -/

structure Sequencer where
  start : Int
  counter : Int
  deriving Repr, DecidableEq

inductive Op where
  | next
  | setStart (v : Int)
  deriving Repr, DecidableEq

def Sequencer.new (start : Int) : Sequencer := ⟨start, 0⟩

def Sequencer.step (s : Sequencer) : Op → Sequencer × Option Int
  | .next => ({ s with counter := (s.counter + 1) % 10 }, some (s.start + s.counter))
  | .setStart v => ({ s with start := v }, none)

end EoVerif.Seq
