import EoVerif.Model.Basic
/-! Model of `eolib/data/string_encoding_utils.py`. -/
namespace EoVerif.Str

/-- One step of `_invert_characters` for a byte `c` with the current value of `flippy`. -/
def invByte (flippy : Bool) (c : Nat) : Nat :=
  if 0x22 ≤ c ∧ c ≤ 0x7E then
    let f : Int := if flippy then (if c ≥ 0x50 then -0x2E else 0x2E) else 0
    ((0x9F : Int) - c - f).toNat
  else c

def invertAux (flippy : Bool) : Bytes → Bytes
  | [] => []
  | c :: cs => invByte flippy c :: invertAux (!flippy) cs

/-- `_invert_characters`: `flippy` starts as `len % 2 == 1` and alternates. -/
def invert (bs : Bytes) : Bytes := invertAux (bs.length % 2 == 1) bs

def encode (bs : Bytes) : Bytes := (invert bs).reverse
def decode (bs : Bytes) : Bytes := invert bs.reverse

end EoVerif.Str
