import EoVerif.Model.Num
import EoVerif.Model.Str
import EoVerif.Model.Ansi
/-! Model of `eolib/data/eo_writer.py`. -/
namespace EoVerif

structure Writer where
  data : Bytes := []
  san : Bool := false
  deriving Repr, DecidableEq

namespace Writer

inductive Op where
  | addByte (v : Int)
  | addBytes (bs : Bytes)
  | addChar (n : Int)
  | addShort (n : Int)
  | addThree (n : Int)
  | addInt (n : Int)
  | addString (s : Ansi.Str)
  | addFixedString (s : Ansi.Str) (length : Int) (padded : Bool)
  | addEncodedString (s : Ansi.Str)
  | addFixedEncodedString (s : Ansi.Str) (length : Int) (padded : Bool)
  | setSan (b : Bool)
  deriving Repr, DecidableEq

/-- `_check_number_size(number, max_value)` -/
def checkNumberSize (number maxValue : Int) : Except PyErr Unit :=
  if number > maxValue then .error .ValueError else .ok ()

/-- `_check_string_length(string, length, padded)`; `len(string)` is the code-point count. -/
def checkStringLength (s : Ansi.Str) (length : Int) (padded : Bool) : Except PyErr Unit :=
  if padded then
    if length ≥ (s.length : Int) then .ok () else .error .ValueError
  else if (s.length : Int) ≠ length then .error .ValueError else .ok ()

/-- `_sanitize_string` -/
def sanitize (san : Bool) (bs : Bytes) : Bytes :=
  if san then bs.map (fun b => if b = 0xFF then 0x79 else b) else bs

/-- `_add_padding(bytes, length)` (only reached with `length ≥ len(bytes)`) -/
def addPadding (bs : Bytes) (length : Int) : Bytes :=
  if (bs.length : Int) = length then bs else bs ++ List.replicate (length.toNat - bs.length) 0xFF

/-- add an encoded integer: limit check, `encode_number` (which itself may raise), first `k` bytes -/
def addNumber (w : Writer) (n maxValue : Int) (k : Nat) : Writer × Except PyErr Unit :=
  match checkNumberSize n maxValue with
  | .error e => (w, .error e)
  | .ok () =>
    match Num.encode n with
    | .error e => (w, .error e)
    | .ok bs => ({ w with data := w.data ++ bs.take k }, .ok ())

def strBytes (w : Writer) (s : Ansi.Str) : Bytes := sanitize w.san (Ansi.encode s)

def step (w : Writer) : Op → Writer × Except PyErr Unit
  | .addByte v =>
    match checkNumberSize v 0xFF with
    | .error e => (w, .error e)
    | .ok () =>
      -- bytearray.append raises ValueError for a negative value
      if v < 0 then (w, .error .ValueError) else ({ w with data := w.data ++ [v.toNat] }, .ok ())
  | .addBytes bs => ({ w with data := w.data ++ bs }, .ok ())
  | .addChar n => addNumber w n (Num.CHAR_MAX - 1) 1
  | .addShort n => addNumber w n (Num.SHORT_MAX - 1) 2
  | .addThree n => addNumber w n (Num.THREE_MAX - 1) 3
  | .addInt n => addNumber w n (Num.INT_MAX - 1) 4
  | .addString s => ({ w with data := w.data ++ strBytes w s }, .ok ())
  | .addFixedString s length padded =>
    match checkStringLength s length padded with
    | .error e => (w, .error e)
    | .ok () =>
      let bs := strBytes w s
      let bs := if padded then addPadding bs length else bs
      ({ w with data := w.data ++ bs }, .ok ())
  | .addEncodedString s => ({ w with data := w.data ++ Str.encode (strBytes w s) }, .ok ())
  | .addFixedEncodedString s length padded =>
    match checkStringLength s length padded with
    | .error e => (w, .error e)
    | .ok () =>
      let bs := strBytes w s
      let bs := if padded then addPadding bs length else bs
      ({ w with data := w.data ++ Str.encode bs }, .ok ())
  | .setSan b => ({ w with san := b }, .ok ())

/-- Run a history; failed operations leave the state as `step` returns it and the run continues
    (the Python caller catches the exception). -/
def run (w : Writer) : List Op → Writer
  | [] => w
  | op :: ops => run (w.step op).1 ops

end Writer
end EoVerif
