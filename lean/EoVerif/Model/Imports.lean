import EoVerif.Model.Basic
/-!
# A small-step model of package initialisation by the CPython import system

Just enough of `importlib` to say what every name of every `eolib` (sub)package is bound to after
`import eolib`: modules are created on first import (parents first), a module's statements run in
order, `from X import *` first loads `X` and then copies every public name currently bound in `X`
(sub-module attributes included), a finished sub-module is bound as an attribute of its parent, and
later bindings overwrite earlier ones.  Partially initialised modules are visible with what they have
bound so far.  The machine is a stack of frames so that invariants can be stated per transition.
-/
namespace EoVerif.Imp

/-- a dotted module name as its list of segments: `eolib.protocol.net` is `["eolib", "protocol", "net"]` -/
abbrev MName := List String

def MName.dotted (m : MName) : String := ".".intercalate m
def MName.isEolib (m : MName) : Bool := m.head? == some "eolib"

inductive Obj where
  /-- the module object of that dotted name -/
  | module (name : MName)
  /-- the class / function / constant defined as `name` in module `home` -/
  | defn (home : MName) (name : String)
  /-- something from outside the package (standard library …) -/
  | ext (tag : String)
  deriving DecidableEq, Repr, Inhabited

inductive Stmt where
  /-- `from target import *` -/
  | star (target : MName)
  /-- `from target import a as x, b as y` -/
  | fromImp (target : MName) (names : List (String × String))
  /-- `import target` (binds the top-level package) / `import target as x` -/
  | imp (target : MName) (asName : Option String)
  /-- `class name` / `def name` / `name = …` at module level -/
  | define (name : String)
  /-- `__all__ = [...]` -/
  | setAll (names : List String)
  /-- `name = sys.modules[target]` -/
  | rebind (name : String) (target : MName)
  deriving DecidableEq, Repr, Inhabited

structure ModSrc where
  name : MName
  body : List Stmt
  deriving DecidableEq, Repr, Inhabited

abbrev Graph := List ModSrc

def Graph.src? (g : Graph) (n : MName) : Option ModSrc := List.find? (·.name == n) g

structure ModState where
  ns : List (String × Obj) := []
  all : Option (List String) := none
  deriving DecidableEq, Repr, Inhabited

def nsGet (ns : List (String × Obj)) (k : String) : Option Obj := (ns.find? (·.1 == k)).map (·.2)
def nsSet (ns : List (String × Obj)) (k : String) (v : Obj) : List (String × Obj) :=
  if ns.any (·.1 == k) then ns.map (fun p => if p.1 == k then (k, v) else p) else ns ++ [(k, v)]

structure St where
  /-- `sys.modules` -/
  mods : List (MName × ModState) := []
  /-- first error (`ModuleNotFoundError`, `ImportError`, `KeyError`), if any -/
  err : Option String := none
  deriving DecidableEq, Repr, Inhabited

def St.mod? (s : St) (m : MName) : Option ModState := (s.mods.find? (·.1 == m)).map (·.2)
def St.loaded (s : St) (m : MName) : Bool := s.mods.any (·.1 == m)
def St.setMod (s : St) (m : MName) (ms : ModState) : St :=
  if s.loaded m then { s with mods := s.mods.map (fun p => if p.1 == m then (m, ms) else p) }
  else { s with mods := s.mods ++ [(m, ms)] }
/-- bind `k := v` in module `m`'s namespace -/
def St.bind (s : St) (m : MName) (k : String) (v : Obj) : St :=
  match s.mod? m with
  | some ms => s.setMod m { ms with ns := nsSet ms.ns k v }
  | none => s
def St.lookup (s : St) (m : MName) (k : String) : Option Obj := (s.mod? m).bind (fun ms => nsGet ms.ns k)

/-- parent package (`[]` for a top-level module) and last segment -/
def splitLast (n : MName) : MName × String := (n.dropLast, n.getLastD "")

def topSegment (n : MName) : String := n.headD ""

inductive Frame where
  /-- import `target` unless already in `sys.modules` (its parent first) -/
  | ensure (target : MName)
  /-- keep executing module `m`'s body -/
  | exec (m : MName) (rest : List Stmt)
  /-- `m`'s body is done: bind it as an attribute of its parent -/
  | finish (m : MName)
  /-- `target` is loaded: copy its public names into `m` -/
  | afterStar (m : MName) (target : MName)
  /-- `target` is loaded (and the sub-modules among `names` have been tried): bind `names` in `m` -/
  | afterFrom (m : MName) (target : MName) (names : List (String × String))
  | afterImp (m : MName) (target : MName) (asName : Option String)
  deriving DecidableEq, Repr, Inhabited

/-- the module a frame executes statements of / binds names in (`none` for `ensure`) -/
def Frame.owner : Frame → Option MName
  | .ensure _ => none
  | .exec m _ => some m
  | .finish m => some m
  | .afterStar m _ => some m
  | .afterFrom m _ _ => some m
  | .afterImp m _ _ => some m

def isPublic (k : String) : Bool := !k.startsWith "_"

/-- names exported by `from target import *` -/
def exported (ms : ModState) : List (String × Obj) :=
  match ms.all with
  | some names => names.filterMap (fun k => (nsGet ms.ns k).map (fun v => (k, v)))
  | none => ms.ns.filter (fun p => isPublic p.1)

/-- one transition -/
def step (g : Graph) (s : St) : List Frame → St × List Frame
  | [] => (s, [])
  | .ensure t :: fs =>
    if s.loaded t then (s, fs)
    else
      let (p, _) := splitLast t
      if p != [] && !s.loaded p then (s, .ensure p :: .ensure t :: fs)
      else match g.src? t with
        | some src => (s.setMod t {}, .exec t src.body :: .finish t :: fs)
        | none =>
          if t.isEolib then ({ s with err := s.err.orElse (fun _ => some ("ModuleNotFoundError " ++ t.dotted)) }, fs)
          else (s.setMod t { ns := [] }, fs)   -- a module outside the package: opaque, already importable
  | .exec _ [] :: fs => (s, fs)
  | .exec m (st :: rest) :: fs =>
    match st with
    | .star t => (s, .ensure t :: .afterStar m t :: .exec m rest :: fs)
    | .fromImp t names =>
      (s, .ensure t :: (names.map (fun nm => Frame.ensure (t ++ [nm.1]))).filter
            (fun f => match f with | .ensure x => (g.src? x).isSome | _ => false)
          ++ .afterFrom m t names :: .exec m rest :: fs)
    | .imp t a => (s, .ensure t :: .afterImp m t a :: .exec m rest :: fs)
    | .define k => (s.bind m k (.defn m k), .exec m rest :: fs)
    | .setAll names =>
      (match s.mod? m with
       | some ms => (s.setMod m { ms with all := some names }, .exec m rest :: fs)
       | none => (s, .exec m rest :: fs))
    | .rebind k t =>
      if s.loaded t then (s.bind m k (.module t), .exec m rest :: fs)
      else ({ s with err := s.err.orElse (fun _ => some ("KeyError " ++ t.dotted)) }, .exec m rest :: fs)
  | .finish m :: fs =>
    let (p, last) := splitLast m
    if p != [] then (s.bind p last (.module m), fs) else (s, fs)
  | .afterStar m t :: fs =>
    match s.mod? t with
    | some ms => ((exported ms).foldl (fun acc (k, v) => acc.bind m k v) s, fs)
    | none => (s, fs)
  | .afterFrom m t names :: fs =>
    (names.foldl (fun acc (k, a) =>
        match acc.lookup t k with
        | some v => acc.bind m a v
        | none =>
          if acc.loaded (t ++ [k]) then acc.bind m a (.module (t ++ [k]))
          else if t.isEolib then { acc with err := acc.err.orElse (fun _ => some ("ImportError " ++ (t ++ [k]).dotted)) }
          else acc.bind m a (.ext (t ++ [k]).dotted)) s, fs)
  | .afterImp m t a :: fs =>
    match a with
    | none => (s.bind m (topSegment t) (if t.isEolib then .module [topSegment t] else .ext (topSegment t)), fs)
    | some x => (s.bind m x (if t.isEolib then .module t else .ext t.dotted), fs)

def run (g : Graph) : Nat → St × List Frame → St × List Frame
  | 0, c => c
  | _ + 1, (s, []) => (s, [])
  | n + 1, (s, fs) => run g n (step g s fs)

/-- `import first` (then `import eolib`) in a fresh interpreter -/
def eval (g : Graph) (first : MName) (fuel : Nat) : St × List Frame :=
  run g fuel ({}, [.ensure first, .ensure ["eolib"]])

/-- attribute access along a dotted path starting from `sys.modules[top]` -/
def resolvePath (s : St) (path : MName) : Option Obj :=
  match path with
  | [] => none
  | top :: segs =>
    segs.foldl (fun (cur : Option Obj) seg =>
      match cur with
      | some (.module m) => s.lookup m seg
      | _ => none) (if s.loaded [top] then some (.module [top]) else none)

end EoVerif.Imp
