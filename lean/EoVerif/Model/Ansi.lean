import EoVerif.Model.Basic
/-! Model of CPython's `windows-1252` codec with the `'replace'` error handler, as used by
    `EoWriter._encode_ansi` / `EoReader._decode_ansi`.  Strings are lists of code points.
    Validated exhaustively against CPython (all 256 bytes, all 1,114,112 code points) on every run
    of the C09/C04 checks. -/
namespace EoVerif.Ansi

abbrev Str := List Nat

/-- bytes 0x80..0x9F → code point (0xFFFD = undefined in cp1252: decoded as U+FFFD by 'replace'). -/
def high : List (Nat × Nat) :=
  [(128, 8364), (129, 65533), (130, 8218), (131, 402), (132, 8222), (133, 8230), (134, 8224),
   (135, 8225), (136, 710), (137, 8240), (138, 352), (139, 8249), (140, 338), (141, 65533),
   (142, 381), (143, 65533), (144, 65533), (145, 8216), (146, 8217), (147, 8220), (148, 8221),
   (149, 8226), (150, 8211), (151, 8212), (152, 732), (153, 8482), (154, 353), (155, 8250),
   (156, 339), (157, 65533), (158, 382), (159, 376)]

def lookupByte (b : Nat) : List (Nat × Nat) → Nat
  | [] => 65533
  | (x, c) :: rest => if x = b then c else lookupByte b rest

def lookupCp (c : Nat) : List (Nat × Nat) → Option Nat
  | [] => none
  | (x, d) :: rest => if d = c ∧ d ≠ 65533 then some x else lookupCp c rest

def decodeByte (b : Nat) : Nat :=
  if b < 0x80 then b else if 0xA0 ≤ b ∧ b < 0x100 then b else lookupByte b high

/-- `none` = not encodable (replaced by `?`). -/
def encodeCp? (c : Nat) : Option Nat :=
  if c < 0x80 then some c else if 0xA0 ≤ c ∧ c < 0x100 then some c else lookupCp c high

def encodeCp (c : Nat) : Nat := (encodeCp? c).getD 0x3F

/-- `bytearray(s, 'windows-1252', 'replace')` : one byte per code point. -/
def encode (s : Str) : Bytes := s.map encodeCp
/-- `bytes.decode('windows-1252', 'replace')` : one code point per byte. -/
def decode (bs : Bytes) : Str := bs.map decodeByte

end EoVerif.Ansi
