import EoVerif.Model.Basic
/-! Model of `eolib/encrypt/server_verification_utils.py`. -/
namespace EoVerif.Hash

/-- `_mod(a, b)` as written in the code on the pinned tree (before the repair):
    floor remainder, minus `b` whenever `a < 0`. -/
def pyModOld (a b : Int) : Int :=
  let result := a.fmod b
  if a < 0 then result - b else result

/-- `_mod(a, b)` after the `fix:` commit: the subtraction only when the remainder is non-zero. -/
def pyMod (a b : Int) : Int :=
  let result := a.fmod b
  if a < 0 ∧ result ≠ 0 then result - b else result

def hashWith (md : Int → Int → Int) (challenge : Int) : Int :=
  let challenge := challenge + 1
  110905
    + (md challenge 9 + 1) * md (11092004 - challenge) ((challenge.fmod 11 + 1) * 119) * 119
    + md challenge 2004

/-- `server_verification_hash` of the current tree. -/
def hash (challenge : Int) : Int := hashWith pyMod challenge
/-- `server_verification_hash` of the pinned (pre-repair) tree. -/
def hashOld (challenge : Int) : Int := hashWith pyModOld challenge

end EoVerif.Hash
