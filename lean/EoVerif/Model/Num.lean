import EoVerif.Model.Basic
/-! Model of `eolib/data/number_encoding_utils.py` (+ `eo_numeric_limits.py`). -/
namespace EoVerif.Num

def CHAR_MAX : Int := 253
def SHORT_MAX : Int := 64009
def THREE_MAX : Int := 16194277
def INT_MAX : Int := 4097152081

/-- The four values `a, b, c, d` computed by `encode_number` before `bytes([a, b, c, d])`.
    `/` and `%` on `Int` are Euclidean, which for the positive divisors used here is exactly
    Python's floor `//` and `%`. -/
def encodeRaw (number : Int) : Int × Int × Int × Int :=
  let value := number
  let (d, value) := if number ≥ THREE_MAX then (value / THREE_MAX + 1, value % THREE_MAX) else (0xFE, value)
  let (c, value) := if number ≥ SHORT_MAX then (value / SHORT_MAX + 1, value % SHORT_MAX) else (0xFE, value)
  let (b, value) := if number ≥ CHAR_MAX then (value / CHAR_MAX + 1, value % CHAR_MAX) else (0xFE, value)
  let a := value + 1
  (a, b, c, d)

def isByte (x : Int) : Bool := decide (0 ≤ x) && decide (x < 256)

/-- `encode_number`: `bytes([...])` raises `ValueError` when a value is outside `range(256)`. -/
def encode (number : Int) : Except PyErr Bytes :=
  let (a, b, c, d) := encodeRaw number
  if isByte a && isByte b && isByte c && isByte d then
    .ok [a.toNat, b.toNat, c.toNat, d.toNat]
  else .error .ValueError

/-- The loop of `decode_number`: at most four iterations (one per weight), stops at the first
    `0xFE`. -/
def decodeAux : Bytes → List Int → Int
  | [], _ => 0
  | _, [] => 0
  | b :: bs, w :: ws => if b = 0xFE then 0 else w * ((b : Int) - 1) + decodeAux bs ws

def decode (bs : Bytes) : Int := decodeAux bs [1, CHAR_MAX, SHORT_MAX, THREE_MAX]

end EoVerif.Num
