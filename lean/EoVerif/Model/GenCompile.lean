import EoVerif.Model.GenIR
/-! Model of the generator proper: `object_code_generator.py`, `field_code_generator.py`,
    `switch_code_generator.py` and the indexing / file part of `code_generator.py`.
    State-passing style: every function threads the `ObjectGenerationContext` (`Ctx`) and the
    `ObjectGenerationData` (`Data`) exactly as the Python mutates them, and raises where it raises. -/
namespace EoVerif.Gen

structure FieldData where
  name : String
  ty : Ty
  offset : Int
  array : Bool
  deriving Repr, Inhabited

/-- `ObjectGenerationContext` -/
structure Ctx where
  chunked : Bool := false
  reachedOptional : Bool := false
  reachedDummy : Bool := false
  needsOldLen : Bool := false
  accessible : List (String × FieldData) := []
  lenRef : List (String × Bool) := []
  deriving Repr, Inhabited

def Ctx.field? (c : Ctx) (name : String) : Option FieldData := (c.accessible.find? (·.1 == name)).map (·.2)
def Ctx.lenRef? (c : Ctx) (name : String) : Option Bool := (c.lenRef.find? (·.1 == name)).map (·.2)
def Ctx.setLenRef (c : Ctx) (name : String) (b : Bool) : Ctx :=
  if c.lenRef.any (·.1 == name) then
    { c with lenRef := c.lenRef.map (fun p => if p.1 == name then (p.1, b) else p) }
  else { c with lenRef := c.lenRef ++ [(name, b)] }
def Ctx.setField (c : Ctx) (fd : FieldData) : Ctx :=
  if c.accessible.any (·.1 == fd.name) then
    { c with accessible := c.accessible.map (fun p => if p.1 == fd.name then (p.1, fd) else p) }
  else { c with accessible := c.accessible ++ [(fd.name, fd)] }

/-- `ObjectGenerationData` (what the properties talk about) -/
structure Data where
  className : String
  fields : List FieldDecl := []
  params : List Param := []
  initBody : List InitStmt := []
  getters : List String := []
  ser : List SerOp := []
  de : List DeOp := []
  deArgs : List String := []
  aux : List ClassIR := []
  imports : List (String × String) := []
  /-- `reached_missing_optional_assigned`: the local has been assigned in this class's `serialize` -/
  rmoAssigned : Bool := false
  deriving Repr, Inhabited

/-- `get_type` with enough fuel for the indexed definitions -/
abbrev TypeEnv := String → Option String → Except GenErr Ty

/-- the parameters `FieldCodeGeneratorBuilder` collects -/
structure FP where
  name : Option String := none
  typeStr : String
  lenStr : Option String := none
  padded : Bool := false
  optional : Bool := false
  hardcoded : Option String := none
  arrayField : Bool := false
  delimited : Bool := false
  trailing : Bool := false
  lengthField : Bool := false
  offset : Int := 0
  deriving Repr, Inhabited

def FP.typeLen (p : FP) : Option String := if p.arrayField then none else p.lenStr

def importByType (t : Ty) : List (String × String) :=
  match t with
  | .enum n path _ _ | .struct n path _ _ =>
    let rel := String.ofList ((path.toList.map (fun c => if c == '/' then '.' else c)).dropWhile (· == '.'))
    let rel := if rel.isEmpty then rel else rel ++ "."
    [(n, "eolib.protocol._generated." ++ rel ++ PyStr.pascalToSnake n)]
  | _ => []

def serErrImport : List (String × String) := [("SerializationError", "eolib.protocol.serialization_error")]

/-- `FieldCodeGenerator._validate` -/
def validateField (tf : TypeEnv) (ctx : Ctx) (p : FP) : Except GenErr Unit := do
  if p.arrayField && p.lengthField then throw "both length field and array field"
  if p.optional && p.name.isNone then throw "optional fields must specify a name"
  if p.arrayField then
    if p.name.isNone then throw "array fields must specify a name"
    if (p.hardcoded.getD "") != "" then throw "array fields may not specify hardcoded values"
    if !p.delimited then
      let t ← tf p.typeStr p.typeLen
      if !t.bounded then throw "unbounded element type forbidden in non-delimited array"
  else
    if p.delimited then throw "only arrays can be delimited"
  if p.lengthField then
    if p.name.isNone then throw "length fields must specify a name"
    if p.hardcoded.isSome then throw "length fields may not specify hardcoded values"
    let t ← tf p.typeStr p.typeLen
    match t with
    | .int _ => pure ()
    | _ => throw "not a numeric type, not allowed for a length field"
  else
    if p.offset != 0 then throw "only length fields can have an offset"
  if p.name.isNone then
    if p.hardcoded.isNone then throw "unnamed fields must specify a hardcoded field value"
    if p.optional then throw "unnamed fields may not be optional"
  match p.hardcoded with
  | none => pure ()
  | some h =>
    let t ← tf p.typeStr p.typeLen
    match t with
    | .str _ _ =>
      match PyStr.tryParseInt p.lenStr with
      | some length => if length != (h.length : Int) then throw "hardcoded string has wrong length"
      | none => pure ()
    | _ => pure ()
    if !t.isBasic then throw "hardcoded field values are not allowed for this type"
    match t with
    | .int _ => if !PyStr.isdigit h then throw "not a valid integer value"
    | .bool _ => if h != "true" && h != "false" then throw "not a valid bool value"
    | _ => pure ()
  match p.name with
  | none => pure ()
  | some n => if (ctx.field? n).isSome then throw s!"cannot redefine {n} field"
  match p.lenStr with
  | none => pure ()
  | some l =>
    if !PyStr.isdigit l && (ctx.lenRef? l).isNone then throw "length attribute must be a numeric literal or a length field"
    if (ctx.lenRef? l).getD false then throw "length field must not be referenced by multiple fields"

/-- `generate_field` -/
def generateField (tf : TypeEnv) (ctx : Ctx) (d : Data) (p : FP) : Except GenErr (Ctx × Data) := do
  match p.name with
  | none => pure (ctx, d)
  | some name =>
    let t ← tf p.typeStr p.typeLen
    let imps : List (String × String) :=
      (if p.arrayField then [("annotations", "__future__"), ("Iterable", "collections.abc")] else [])
      ++ (if p.optional then [("Optional", "typing")] else [])
    let ctx := ctx.setField ⟨name, t, p.offset, p.arrayField⟩
    let d := { d with
      fields := d.fields ++ [⟨name, if p.lengthField then .length else .normal, p.arrayField⟩],
      imports := d.imports ++ imps ++ importByType t }
    if p.lengthField then
      pure (ctx.setLenRef name false, d)
    else
      let expr : InitExpr :=
        match p.hardcoded with
        | none => if p.arrayField then .tupleOf name p.optional else .param name
        | some h => match t with
          | .str _ _ => .strLit h
          | .bool _ => .boolLit (h == "true")
          | _ => .pasted h
      let d := { d with
        getters := d.getters ++ [name],
        params := d.params ++ [⟨name, p.optional⟩],
        initBody := d.initBody ++ [.assign name expr] }
      match p.lenStr with
      | some l =>
        if (ctx.lenRef? l).isSome then
          match ctx.field? l with
          | some lf => pure (ctx.setLenRef l true, { d with initBody := d.initBody ++ [.lenOf lf.name name p.optional] })
          | none => throw "KeyError: length field not accessible"
        else pure (ctx, d)
      | none => pure (ctx, d)

/-- `_check_field_accessible` + the serialize / deserialize length expression -/
def lenExpr (ctx : Ctx) (p : FP) : Except GenErr (Option LenE) :=
  match p.lenStr with
  | none => .ok none
  | some l =>
    if PyStr.isdigit l then .ok (some (.lit ((PyStr.pyInt? l).getD 0)))
    else if (ctx.field? l).isSome then .ok (some (.field l))
    else .error s!"referenced {l} field is not accessible"

/-- the emitted writer/reader call kind for a (real) type -/
def ioKind (t : Ty) (len : Option LenE) (padded : Bool) : IOKind :=
  match t with
  | .int k => .int k
  | .bool u => .int u
  | .enum _ _ u _ => .int u
  | .str e _ => .str e len padded
  | .blob => .blob
  | .struct n _ _ _ => .struct n

def coerceOf (t : Ty) : Coerce :=
  match t with
  | .bool _ => .bool
  | .enum _ _ _ _ => .enum
  | _ => .none

/-- `_get_write_value_expression` -/
def writeValueExpr (t : Ty) (p : FP) : Except GenErr VExpr :=
  match p.name with
  | some n => .ok (.field n p.arrayField)
  | none =>
    let h := p.hardcoded.getD ""
    match t with
    | .int _ => if PyStr.isdigit h then .ok (.litInt ((PyStr.pyInt? h).getD 0)) else .error "not a valid integer value"
    | .bool _ => if h == "false" then .ok (.litInt 0) else if h == "true" then .ok (.litInt 1) else .error "not a valid bool value"
    | .str _ _ => .ok (.litStr h)
    | _ => .error "AssertionError: unhandled BasicType"

/-- `generate_serialize` -/
def generateSerialize (tf : TypeEnv) (ctx : Ctx) (d : Data) (p : FP) : Except GenErr Data := do
  let name := p.name.getD ""
  -- none-check
  let noneChk : List SerOp :=
    if p.optional || p.name.isNone || p.hardcoded.isSome then [] else [.noneCheck name]
  -- length check
  let lenChk : List SerOp :=
    match p.name, p.lenStr with
    | some n, some l =>
      (match ctx.field? l with
       | some fd =>
         let mx := match fd.ty with | .int k => k.maxValue | _ => 0
         [.lenCheck n true (mx + fd.offset)]
       | none => [.lenCheck n p.padded ((PyStr.pyInt? l).getD 0)])
    | _, _ => []
  let usesErr := !noneChk.isEmpty || !lenChk.isEmpty
  -- array loop header
  let arrLen ← if p.arrayField then lenExpr ctx p else pure none
  -- write statement
  let t ← tf p.typeStr p.typeLen
  let v ← writeValueExpr t p
  let scalarLen ← if p.arrayField then pure none else lenExpr ctx p
  let w : SerOp := .write (ioKind t scalarLen p.padded) v (coerceOf t) p.offset
  let structImp := match t with | .struct _ _ _ _ => importByType t | _ => []
  let body : List SerOp :=
    if p.arrayField then
      let count : CountE := match arrLen with
        | some (.lit n) => .lit n
        | some (.field f) => .lenField f
        | none => .lenOf name
      [.forRange count
        ((if p.delimited && !p.trailing then [.ifIdxPos [.addBreak]] else [])
          ++ [w] ++ (if p.delimited && p.trailing then [.addBreak] else []))]
    else [w]
  let inner := noneChk ++ lenChk ++ body
  let ops : List SerOp := if p.optional then [.optGuard (ctx.reachedOptional && d.rmoAssigned) name inner] else inner
  pure { d with
    rmoAssigned := d.rmoAssigned || p.optional,
    ser := d.ser ++ ops,
    imports := d.imports ++ (if usesErr then serErrImport else []) ++ structImp
      ++ (if p.optional then [("cast", "typing")] else []) }

/-- `generate_deserialize` -/
def generateDeserialize (tf : TypeEnv) (ctx : Ctx) (d : Data) (p : FP) : Except GenErr Data := do
  let name := p.name.getD ""
  let t ← tf p.typeStr p.typeLen
  let structImp := match t with | .struct _ _ _ _ => importByType t | _ => []
  let body ←
    if p.arrayField then do
      let le ← lenExpr ctx p
      let (pre, count) : List DeOp × Option CountD :=
        match le with
        | some (.lit n) => ([], some (.lit n))
        | some (.field f) => ([], some (.var f))
        | none =>
          if !p.delimited then
            match t.fixedSize with
            | some sz => ([.lenVar (name ++ "_length") sz], some (.var (name ++ "_length")))
            | none => ([], none)
          else ([], none)
      let rd : DeOp := .read (.append name) (ioKind t none p.padded) (coerceOf t) p.offset
      let loop : DeOp :=
        match count with
        | none => .whileRemaining [rd] p.delimited
        | some c => .forRange c [rd] (if !p.delimited then .none else if !p.trailing then .guarded else .always)
      pure (pre ++ [.initList name, loop])
    else do
      let le ← lenExpr ctx p
      let target : Target := match p.name with | some n => .var n | none => .discard
      pure [DeOp.read target (ioKind t le p.padded) (coerceOf t) p.offset]
  let ops : List DeOp := if p.optional then [.optRead name body] else body
  pure { d with
    de := d.de ++ ops,
    deArgs := d.deArgs ++ (if p.name.isSome && !p.lengthField then [name] else []),
    imports := d.imports ++ structImp }

/-- build (validate) + generate_field + generate_serialize + generate_deserialize -/
def generateAll (tf : TypeEnv) (ctx : Ctx) (d : Data) (p : FP) : Except GenErr (Ctx × Data) := do
  validateField tf ctx p
  let (ctx, d) ← generateField tf ctx d p
  let d ← generateSerialize tf ctx d p
  let d ← generateDeserialize tf ctx d p
  pure (ctx, d)

def lift {α} (e : Except String α) : Except GenErr α := e

/-- `_generate_field` -/
def genFieldInstr (tf : TypeEnv) (ctx : Ctx) (d : Data) (e : Xml) : Except GenErr (Ctx × Data) := do
  let optional := flagAttr e "optional"
  if ctx.reachedOptional && !optional then throw "optional fields may not be followed by non-optional fields"
  let ty ← e.getReq "type"
  let padded := e.getBool "padded"
  let text ← e.getText
  let (ctx, d) ← generateAll tf ctx d
    { name := e.get "name", typeStr := ty, lenStr := e.get "length", padded := padded, optional := optional, hardcoded := text }
  pure (if optional then { ctx with reachedOptional := true } else ctx, d)

/-- `_generate_array` -/
def genArrayInstr (tf : TypeEnv) (ctx : Ctx) (d : Data) (e : Xml) : Except GenErr (Ctx × Data) := do
  let optional := flagAttr e "optional"
  if ctx.reachedOptional && !optional then throw "optional fields may not be followed by non-optional fields"
  let delimited := flagAttr e "delimited"
  if delimited && !ctx.chunked then throw "delimited array outside chunked reading"
  let name ← e.getReq "name"
  let ty ← e.getReq "type"
  let (ctx, d) ← generateAll tf ctx d
    { name := some name, typeStr := ty, lenStr := e.get "length", optional := optional, arrayField := true,
      delimited := delimited, trailing := e.getBool "trailing-delimiter" true }
  pure (if optional then { ctx with reachedOptional := true } else ctx, d)

/-- `_generate_length` -/
def genLengthInstr (tf : TypeEnv) (ctx : Ctx) (d : Data) (e : Xml) : Except GenErr (Ctx × Data) := do
  let optional := flagAttr e "optional"
  if ctx.reachedOptional && !optional then throw "optional fields may not be followed by non-optional fields"
  let name ← e.getReq "name"
  let ty ← e.getReq "type"
  let offset ← e.getInt "offset"
  let (ctx, d) ← generateAll tf ctx d
    { name := some name, typeStr := ty, optional := optional, lengthField := true, offset := offset }
  pure (if optional then { ctx with reachedOptional := true } else ctx, d)

/-- `_generate_dummy` -/
def genDummyInstr (tf : TypeEnv) (ctx : Ctx) (d : Data) (e : Xml) : Except GenErr (Ctx × Data) := do
  let ty ← e.getReq "type"
  let text ← e.getText
  let p : FP := { typeStr := ty, hardcoded := text }
  validateField tf ctx p
  let needsGuards := !d.ser.isEmpty || !d.de.isEmpty
  let d0 : Data := { d with ser := [], de := [] }
  let d1 ← generateSerialize tf ctx d0 p
  let d1 ← generateDeserialize tf ctx d1 p
  let d := { d1 with
    ser := d.ser ++ (if needsGuards then [.dummyGuard d1.ser] else d1.ser),
    de := d.de ++ (if needsGuards then [.dummyGuard d1.de] else d1.de) }
  pure ({ ctx with reachedDummy := true, needsOldLen := ctx.needsOldLen || needsGuards }, d)

/-- `_get_case_value_expression`, as the integer the emitted comparison tests against -/
def caseValue (ctx : Ctx) (fieldName : String) (c : Xml) : Except GenErr Int := do
  match ctx.field? fieldName with
  | none => throw s!"referenced {fieldName} is not accessible"
  | some fd =>
    if fd.array then throw "field referenced by switch must not be an array"
    let v ← c.getReq "value"
    match fd.ty with
    | .int _ => if PyStr.isdigit v then pure ((PyStr.pyInt? v).getD 0) else throw "not a valid integer value"
    | .enum _ _ _ vals =>
      match PyStr.pyInt? v with
      | some ord =>
        if vals.any (·.ordinal == ord) then throw "enum value must be referred to by name" else pure ord
      | none =>
        match vals.find? (·.name == v) with
        | some ev => pure ev.ordinal
        | none => throw "not a valid value for enum type"
    | _ => throw "field referenced by switch must be a numeric or enumeration type"

def caseDataTypeName (clsName fieldName : String) (c : Xml) : Except GenErr String := do
  let iface := PyStr.snakeToPascal fieldName ++ "Data"
  if c.getBool "default" then pure (clsName ++ "." ++ iface ++ "Default")
  else
    let v ← c.getReq "value"
    pure (clsName ++ "." ++ iface ++ v)

/-- assemble a `ClassIR` from the finished `Data` (the `.code` property) -/
def Data.toClass (d : Data) (ctx : Ctx) : ClassIR :=
  { name := d.className, fields := d.fields, params := d.params, initBody := d.initBody,
    getters := d.getters ++ ["byte_size"], needsOldLen := ctx.needsOldLen, ser := d.ser, de := d.de,
    deArgs := d.deArgs,
    imports := d.imports ++ [("EoWriter", "eolib.data.eo_writer"), ("EoReader", "eolib.data.eo_reader")] }

mutual

/-- `ObjectCodeGenerator.generate_instruction` -/
def genInstruction (tf : TypeEnv) (ctx : Ctx) (d : Data) : Xml → Except GenErr (Ctx × Data)
  | .mk tag attrs text tail children =>
    let e := Xml.mk tag attrs text tail children
    if ctx.reachedDummy then .error "<dummy> elements must not be followed by any other elements"
    else if tag == "field" then genFieldInstr tf ctx d e
    else if tag == "array" then genArrayInstr tf ctx d e
    else if tag == "length" then genLengthInstr tf ctx d e
    else if tag == "dummy" then genDummyInstr tf ctx d e
    else if tag == "switch" then
      -- `_generate_switch`
      match e.getReq "field" with
      | .error m => .error m
      | .ok fieldName =>
        -- generate_case_data_interface: names of the non-empty cases are computed first
        match caseNamesCheck d.className fieldName children with
        | .error m => .error m
        | .ok _ =>
          let dataField := fieldName ++ "_data"
          let d := { d with
            fields := d.fields ++ [⟨dataField, .caseData, false⟩],
            getters := d.getters ++ [dataField],
            params := d.params ++ [⟨dataField, true⟩],
            initBody := d.initBody ++ [.assign dataField (.param dataField)],
            de := d.de ++ [.declNone dataField],
            deArgs := d.deArgs ++ [dataField],
            imports := d.imports ++ [("Union", "typing")] }
          match genCases tf ctx d fieldName children true ctx.reachedOptional ctx.reachedDummy [] [] with
          | .error m => .error m
          | .ok (d, ro, rd, sc, dc) =>
            let hasCase := children.any (·.tag == "case")
            -- `generate_unmatched_guard`: without a default case, an `else:` branch refuses case data
            let hasDefault := children.any (fun c => c.tag == "case" && c.getBool "default")
            let sc := if hasCase && !hasDefault then sc ++ [⟨none, .expectNone dataField⟩] else sc
            let d := if hasCase && !hasDefault then { d with imports := d.imports ++ serErrImport } else d
            let d := if hasCase then { d with ser := d.ser ++ [.switch fieldName sc], de := d.de ++ [.switch fieldName dc] } else d
            .ok ({ ctx with reachedOptional := ro, reachedDummy := rd }, d)
    else if tag == "chunked" then
      -- `_generate_chunked`
      let was := ctx.chunked
      let (ctx1, d1) : Ctx × Data :=
        if !was then ({ ctx with chunked := true }, { d with de := d.de ++ [.setChunked true], ser := d.ser ++ [.setSan true] })
        else (ctx, d)
      match genBody tf ctx1 d1 children false with
      | .error m => .error m
      | .ok (ctx2, d2) =>
        if !was then .ok ({ ctx2 with chunked := false }, { d2 with de := d2.de ++ [.setChunked false], ser := d2.ser ++ [.setSan false] })
        else .ok (ctx2, d2)
    else if tag == "break" then
      -- `_generate_break`
      if !ctx.chunked then .error "break instruction outside chunked reading"
      else .ok ({ ctx with reachedOptional := false, reachedDummy := false },
                { d with rmoAssigned := false, ser := d.ser ++ [.addBreak], de := d.de ++ [.nextChunk] })
    else .ok (ctx, d)

/-- a body: `onlyInstr` = `get_instructions(...)` filtering (struct / packet / case bodies);
    `<chunked>` iterates *all* its children -/
def genBody (tf : TypeEnv) (ctx : Ctx) (d : Data) : List Xml → Bool → Except GenErr (Ctx × Data)
  | [], _ => .ok (ctx, d)
  | c :: cs, onlyInstr =>
    if onlyInstr && !(Xml.instructionTags.contains c.tag) then genBody tf ctx d cs onlyInstr
    else
      match genInstruction tf ctx d c with
      | .error m => .error m
      | .ok (ctx', d') => genBody tf ctx' d' cs onlyInstr

/-- the loop over `protocol_cases` of `_generate_switch` (`generate_case` for each `<case>`) -/
def genCases (tf : TypeEnv) (ctx : Ctx) (d : Data) (fieldName : String) :
    List Xml → Bool → Bool → Bool → List SerCase → List DeCase →
    Except GenErr (Data × Bool × Bool × List SerCase × List DeCase)
  | [], _, ro, rd, sc, dc => .ok (d, ro, rd, sc, dc)
  | c :: cs, start, ro, rd, sc, dc =>
    match c with
    | .mk ctag cattrs ctext ctail cchildren =>
      let ce := Xml.mk ctag cattrs ctext ctail cchildren
      if ctag != "case" then genCases tf ctx d fieldName cs start ro rd sc dc
      else
        match caseDataTypeName d.className fieldName ce with
        | .error m => .error m
        | .ok clsName =>
          let caseCtx : Ctx := { ctx with accessible := [], lenRef := [] }
          let dflt := ce.getBool "default"
          let condE : Except GenErr (Option Int) :=
            if dflt then (if start then .error "standalone default case is not allowed" else .ok none)
            else (caseValue ctx fieldName ce).map some
          match condE with
          | .error m => .error m
          | .ok cond =>
            -- `self._field_data` is evaluated for every case (also the default one)
            if (ctx.field? fieldName).isNone then .error s!"referenced {fieldName} is not accessible" else
            let dataField := fieldName ++ "_data"
            let isEmpty := !(cchildren.any (fun x => Xml.instructionTags.contains x.tag))
            if isEmpty then
              let d := { d with imports := d.imports ++ serErrImport }
              genCases tf ctx d fieldName cs false (ro || caseCtx.reachedOptional) (rd || caseCtx.reachedDummy)
                (sc ++ [⟨cond, .expectNone dataField⟩]) (dc ++ [⟨cond, .setNone dataField⟩])
            else
              -- `generate_case_data_type`: a nested class generated with the copied context
              match genBody tf caseCtx { className := clsName } cchildren true with
              | .error m => .error m
              | .ok (caseCtx', cd) =>
                let cls := cd.toClass caseCtx'
                let d := { d with
                  aux := d.aux ++ [cls] ++ cd.aux,
                  imports := d.imports ++ cls.imports ++ serErrImport }
                genCases tf ctx d fieldName cs false (ro || caseCtx'.reachedOptional) (rd || caseCtx'.reachedDummy)
                  (sc ++ [⟨cond, .expectCls dataField clsName⟩]) (dc ++ [⟨cond, .callCls dataField clsName⟩])

/-- `generate_case_data_interface`: `get_case_data_type_name` is evaluated for every non-empty case
    before anything else (a missing `value` attribute raises here) -/
def caseNamesCheck (clsName fieldName : String) : List Xml → Except GenErr Unit
  | [] => .ok ()
  | c :: cs =>
    match c with
    | .mk ctag cattrs ctext ctail cchildren =>
      let ce := Xml.mk ctag cattrs ctext ctail cchildren
      if ctag == "case" && cchildren.any (fun x => Xml.instructionTags.contains x.tag) then
        match caseDataTypeName clsName fieldName ce with
        | .error m => .error m
        | .ok _ => caseNamesCheck clsName fieldName cs
      else caseNamesCheck clsName fieldName cs

end

/-- a struct / packet / case body generated from scratch -/
def genObject (tf : TypeEnv) (clsName : String) (body : Xml) : Except GenErr (List ClassIR) :=
  match genBody tf {} { className := clsName } body.children true with
  | .error m => .error m
  | .ok (ctx, d) => .ok (d.toClass ctx :: d.aux)

/-! ### Files, imports, indexing (`code_generator.py`, `code_block.py`) -/

def dropCommon : List String → List String → List String × List String
  | a :: as, b :: bs => if a == b then dropCommon as bs else (a :: as, b :: bs)
  | as, bs => (as, bs)

def splitDots (s : String) : List String := (PyStr.splitOnChar '.' s.toList []).map String.ofList

/-- `Import.relativize(package_path)` -/
def relativize (imp : String × String) (packagePath : String) : String :=
  let (name, abs) := imp
  let fromPath :=
    if abs.startsWith "eolib." then
      let (a, b) := dropCommon (splitDots abs) (splitDots packagePath)
      String.ofList (List.replicate (b.length + 1) '.') ++ ".".intercalate a
    else abs
  s!"from {fromPath} import {name}"

def insertDesc (s : String) : List String → List String
  | [] => [s]
  | x :: xs => if s == x then x :: xs else if x < s then s :: x :: xs else x :: insertDesc s xs

/-- `CodeBlock.to_string` import section: set of strings, `sorted(reverse=True)`, `from __future__` first -/
def renderImports (imps : List (String × String)) (packagePath : String) : List String :=
  let sorted := (imps.map (relativize · packagePath)).foldl (fun acc s => insertDesc s acc) []
  let (fut, rest) := sorted.partition (·.startsWith "from __future__")
  fut.reverse ++ rest

/-- package path of a generated file's directory: `eolib.protocol._generated[.a.b]` -/
def packagePathOf (dir : String) : String :=
  let parts := ((PyStr.splitOnChar '/' dir.toList []).map String.ofList).filter (fun p => !p.isEmpty && p != ".")
  ".".intercalate (["eolib", "protocol", "_generated"] ++ parts)

def joinPath (dir file : String) : String :=
  if dir.isEmpty || dir == "." then file else dir ++ "/" ++ file

structure ProtoFile where
  /-- directory of `protocol.xml` relative to the input root (`"."` for the root itself) -/
  dir : String
  root : Xml
  deriving Inhabited

/-- `_index_protocol_file` for every file, in walk order -/
def indexFiles : List ProtoFile → Defs → Except GenErr Defs
  | [], defs => .ok defs
  | f :: fs, defs => do
    if f.root.tag != "protocol" then throw "expected a root <protocol> element"
    let rec defineAll (es : List Xml) (defs : Defs) : Except GenErr Defs :=
      match es with
      | [] => .ok defs
      | e :: es =>
        match e.getReq "name" with
        | .error m => .error m
        | .ok n => if (defs.find? n).isSome then .error s!"{n} type cannot be redefined"
                   else defineAll es (defs ++ [(n, ⟨e, f.dir⟩)])
    let defs ← defineAll (f.root.findall "enum") defs
    let defs ← defineAll (f.root.findall "struct") defs
    let rec packets (es : List Xml) (seen : List String) : Except GenErr Unit :=
      match es with
      | [] => .ok ()
      | e :: es =>
        match e.getReq "family", e.getReq "action" with
        | .ok fam, .ok act =>
          let ident := fam ++ "_" ++ act
          if seen.contains ident then .error "packet cannot be redefined in the same file" else packets es (ident :: seen)
        | .error m, _ => .error m
        | _, .error m => .error m
    packets (f.root.findall "packet") []
    indexFiles fs defs

def classFile (dir : String) (kind : FileKind) (clsName : String) (imports : List (String × String)) : GenFile :=
  { path := joinPath dir (PyStr.pascalToSnake clsName ++ ".py"), kind := kind, names := [clsName],
    imports := renderImports imports (packagePathOf dir) }

/-- `_generate_enum` -/
def genEnum (tf : TypeEnv) (e : Xml) : Except GenErr (EnumIR × GenFile) := do
  let n ← e.getReq "name"
  let t ← tf n none
  match t with
  | .enum name path under vals =>
    -- every `<value>`'s name is looked up again (`get_enum_value_by_name`)
    let rec chk (vs : List Xml) : Except GenErr Unit :=
      match vs with
      | [] => .ok ()
      | v :: vs => match v.getReq "name" with
        | .error m => .error m
        | .ok vn => if vals.any (·.name == vn) then chk vs else .error "AttributeError: value not found"
    chk (e.findall "value")
    pure (⟨name, path, under, vals⟩,
      classFile path .enum n [("IntEnum", "enum"), ("ProtocolEnumMeta", "eolib.protocol.protocol_enum_meta")])
  | _ => throw s!"{n} is not a valid EnumType"

/-- `_generate_struct` -/
def genStruct (tf : TypeEnv) (e : Xml) : Except GenErr (List ClassIR × GenFile) := do
  let n ← e.getReq "name"
  let t ← tf n none
  match t with
  | .struct name path _ _ =>
    let cs ← genObject tf name e
    let imports := match cs with | c :: _ => c.imports | [] => []
    pure (cs, classFile path .struct n imports)
  | _ => throw s!"{n} is not a valid StructType"

/-- `_generate_packet` (`dir` = `_packet_paths[packet]`) -/
def genPacket (tf : TypeEnv) (dir : String) (e : Xml) : Except GenErr (List ClassIR × GenFile) := do
  let suffix ← if dir == "net/client" then pure "ClientPacket" else if dir == "net/server" then pure "ServerPacket"
               else throw "cannot create packet name suffix for path"
  let fam ← e.getReq "family"
  let act ← e.getReq "action"
  let clsName := fam ++ act ++ suffix
  let ft ← tf "PacketFamily" none
  let fvals ← match ft with | .enum _ _ _ v => pure v | _ => throw "PacketFamily enum is missing"
  let at_ ← tf "PacketAction" none
  let avals ← match at_ with | .enum _ _ _ v => pure v | _ => throw "PacketAction enum is missing"
  let fv ← match fvals.find? (·.name == fam) with | some v => pure v | none => throw "unknown packet family"
  let av ← match avals.find? (·.name == act) with | some v => pure v | none => throw "unknown packet action"
  let cs ← genObject tf clsName e
  match cs with
  | [] => throw "unreachable"
  | c :: rest =>
    let imports := c.imports ++ [("Packet", "eolib.protocol.net.packet"),
      ("PacketFamily", "eolib.protocol._generated.net.packet_family"),
      ("PacketAction", "eolib.protocol._generated.net.packet_action")]
    let c := { c with packet := some ⟨fv.pyName, fv.ordinal, av.pyName, av.ordinal⟩, imports := imports,
                      getters := c.getters }
    pure (c :: rest, classFile dir .packet clsName imports)

def mapM' {α β} (f : α → Except GenErr β) : List α → Except GenErr (List β)
  | [] => .ok []
  | a :: as => match f a with
    | .error m => .error m
    | .ok b => (mapM' f as).map (b :: ·)

/-- `_generate_source_file` -/
def genFile (tf : TypeEnv) (f : ProtoFile) : Except GenErr GenOutput := do
  let enums ← mapM' (genEnum tf) (f.root.findall "enum")
  let structs ← mapM' (genStruct tf) (f.root.findall "struct")
  let packets ← mapM' (genPacket tf f.dir) (f.root.findall "packet")
  let files := enums.map (·.2) ++ structs.map (·.2) ++ packets.map (·.2)
  let initNames := files.map (fun g => packagePathOf "" ++ "." ++
    String.ofList ((g.path.dropEnd 3).toString.toList.map (fun c => if c == '/' then '.' else c)))
  let initFile : GenFile :=
    { path := joinPath f.dir "__init__.py", kind := .init, names := initNames,
      imports := renderImports (initNames.map (fun p => ("*", p))) (packagePathOf f.dir) }
  pure { classes := (structs.map (·.1)).flatten ++ (packets.map (·.1)).flatten,
         enums := enums.map (·.1), files := files ++ [initFile] }

/-- `ProtocolCodeGenerator.generate`: index every file, then emit every file. -/
def compile (files : List ProtoFile) : Except GenErr GenOutput := do
  let defs ← indexFiles files []
  let tf : TypeEnv := getType defs (4 * defs.length + 16)
  let outs ← mapM' (genFile tf) files
  pure { classes := (outs.map (·.classes)).flatten, enums := (outs.map (·.enums)).flatten,
         files := (outs.map (·.files)).flatten }

end EoVerif.Gen
