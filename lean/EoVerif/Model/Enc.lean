import EoVerif.Model.Basic
/-! Model of `eolib/encrypt/encryption_utils.py`. -/
namespace EoVerif.Enc

/-- Source index of output position `j` for `interleave` on data of length `n`
    (`buffer[j] = data[ilvIdx n j]`, read off the two `while` loops). -/
def ilvIdx (n j : Nat) : Nat := if j % 2 = 0 then j / 2 else n - 1 - (j - 1) / 2

/-- Source index of output position `k` for `deinterleave`. -/
def dlvIdx (n k : Nat) : Nat := if k < (n + 1) / 2 then 2 * k else 2 * (n - 1 - k) + 1

def permute (idx : Nat → Nat → Nat) (d : Bytes) : Bytes :=
  (List.range d.length).map (fun j => d.getD (idx d.length j) 0)

def interleave (d : Bytes) : Bytes := permute ilvIdx d
def deinterleave (d : Bytes) : Bytes := permute dlvIdx d

def flipB (b : Nat) : Nat := if b % 128 ≠ 0 then (if b < 128 then b + 128 else b - 128) else b
def flipMsb (d : Bytes) : Bytes := d.map flipB

/-- One pass of `swap_multiples` for `m > 0`: `run` is the current run of multiples, reversed;
    it is flushed (already reversed) at a non-multiple and at the end of the data. -/
def swapAux (m : Nat) : Bytes → Bytes → Bytes
  | [], run => run
  | x :: xs, run => if x % m = 0 then swapAux m xs (x :: run) else run ++ x :: swapAux m xs []

def swapMultiples (d : Bytes) (multiple : Int) : Except PyErr Bytes :=
  if multiple < 0 then .error .ValueError
  else if multiple = 0 then .ok d
  else .ok (swapAux multiple.toNat d [])

end EoVerif.Enc
