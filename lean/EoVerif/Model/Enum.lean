import EoVerif.Model.Basic
/-! Model of `eolib/protocol/protocol_enum_meta.py`: constructing a protocol enum from an integer.
    The declaration is what the generator guarantees: member names and ordinals are distinct. -/
namespace EoVerif.Enum

structure Decl where
  /-- `(python name, ordinal)` in declaration order -/
  members : List (String × Int)
  deriving Repr, DecidableEq

inductive Inst where
  /-- the declared member (one object per member: identified by its name) -/
  | member (name : String) (ordinal : Int)
  /-- a bare int-derived instance of the enum type -/
  | unrecognized (n : Int)
  deriving Repr, DecidableEq

/-- `EnumClass(n)`: value lookup in `_value2member_map_`, falling back on `ValueError` to a fresh
    pseudo-member; never raises. -/
def construct (d : Decl) (n : Int) : Inst :=
  match d.members.find? (·.2 == n) with
  | some (name, ord) => .member name ord
  | none => .unrecognized n

def Inst.value : Inst → Int
  | .member _ o => o
  | .unrecognized n => n

/-- `int(instance)` -/
def Inst.toInt : Inst → Int := Inst.value

def Inst.name : Inst → String
  | .member nm _ => nm
  | .unrecognized n => s!"Unrecognized({n})"

/-- The state an interpreter keeps for an enum class: its member table. Constructions are a history
    of calls; the table after any history is the table before. -/
def runCalls (d : Decl) : List Int → Decl × List Inst
  | [] => (d, [])
  | n :: ns =>
    let i := construct d n
    let (d', is) := runCalls d ns
    (d', i :: is)

def Decl.wellFormed (d : Decl) : Prop :=
  (d.members.map (·.1)).Nodup ∧ (d.members.map (·.2)).Nodup

end EoVerif.Enum
