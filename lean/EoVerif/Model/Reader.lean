import EoVerif.Model.Num
import EoVerif.Model.Str
import EoVerif.Model.Ansi
/-! Model of `eolib/data/eo_reader.py` (the concrete state, cached break included). -/
namespace EoVerif

structure Reader where
  data : Bytes
  pos : Nat := 0
  chunked : Bool := false
  chunkStart : Nat := 0
  /-- `_next_break`; `-1` = not computed yet -/
  nextBreak : Int := -1
  deriving Repr, DecidableEq

namespace Reader

def new (data : Bytes) : Reader := { data := data }

/-- first index `≥ start` holding 0xFF, else `len` (searching the list from `start`) -/
def findFrom : Bytes → Nat → Nat
  | [], i => i
  | b :: bs, i => if b = 0xFF then i else findFrom bs (i + 1)

/-- `_find_next_break_index` -/
def findNextBreak (r : Reader) : Nat :=
  if r.chunkStart ≤ r.data.length then findFrom (r.data.drop r.chunkStart) r.chunkStart else r.data.length

/-- the `remaining` property -/
def remaining (r : Reader) : Int :=
  if r.chunked then r.nextBreak - min (r.pos : Int) r.nextBreak else (r.data.length : Int) - r.pos

/-- `_read_byte` -/
def readByte (r : Reader) : Reader × Nat :=
  if r.remaining > 0 then ({ r with pos := r.pos + 1 }, r.data.getD r.pos 0) else (r, 0)

/-- `_read_bytes(length)` for a non-negative `length` -/
def readBytes (r : Reader) (length : Nat) : Reader × Bytes :=
  let n := (min (length : Int) r.remaining).toNat
  ({ r with pos := r.pos + n }, (r.data.drop r.pos).take n)

/-- `_remove_padding` -/
def removePadding (bs : Bytes) : Bytes := bs.takeWhile (· ≠ 0xFF)

inductive Op where
  | getByte | getBytes (n : Nat) | getChar | getShort | getThree | getInt
  | getString | getFixedString (length : Int) (padded : Bool)
  | getEncodedString | getFixedEncodedString (length : Int) (padded : Bool)
  | setChunked (b : Bool) | nextChunk
  deriving Repr, DecidableEq

inductive Val where
  | none | int (v : Int) | bytes (bs : Bytes) | str (s : Ansi.Str)
  deriving Repr, DecidableEq

def step (r : Reader) : Op → Reader × Except PyErr Val
  | .getByte => let (r', b) := r.readByte; (r', .ok (.int b))
  | .getBytes n => let (r', bs) := r.readBytes n; (r', .ok (.bytes bs))
  | .getChar => let (r', bs) := r.readBytes 1; (r', .ok (.int (Num.decode bs)))
  | .getShort => let (r', bs) := r.readBytes 2; (r', .ok (.int (Num.decode bs)))
  | .getThree => let (r', bs) := r.readBytes 3; (r', .ok (.int (Num.decode bs)))
  | .getInt => let (r', bs) := r.readBytes 4; (r', .ok (.int (Num.decode bs)))
  | .getString =>
    let (r', bs) := r.readBytes r.remaining.toNat
    (r', .ok (.str (Ansi.decode bs)))
  | .getFixedString length padded =>
    if length < 0 then (r, .error .ValueError) else
    let (r', bs) := r.readBytes length.toNat
    let bs := if padded then removePadding bs else bs
    (r', .ok (.str (Ansi.decode bs)))
  | .getEncodedString =>
    let (r', bs) := r.readBytes r.remaining.toNat
    (r', .ok (.str (Ansi.decode (Str.decode bs))))
  | .getFixedEncodedString length padded =>
    if length < 0 then (r, .error .ValueError) else
    let (r', bs) := r.readBytes length.toNat
    let bs := Str.decode bs
    let bs := if padded then removePadding bs else bs
    (r', .ok (.str (Ansi.decode bs)))
  | .setChunked b =>
    let r' := { r with chunked := b }
    let r' := if r'.nextBreak = -1 then { r' with nextBreak := r'.findNextBreak } else r'
    (r', .ok .none)
  | .nextChunk =>
    if !r.chunked then (r, .error .RuntimeError) else
    let p := r.nextBreak.toNat
    let p := if p < r.data.length then p + 1 else p
    let r' := { r with pos := p, chunkStart := p }
    ({ r' with nextBreak := r'.findNextBreak }, .ok .none)

/-- `slice(index, length)`; `none` = argument omitted. -/
def slice (r : Reader) (index length : Option Int) : Except PyErr Reader :=
  let index : Int := index.getD r.pos
  let length : Int := length.getD (max 0 ((r.data.length : Int) - index))
  if index < 0 then .error .ValueError
  else if length < 0 then .error .ValueError
  else
    let begin_ := (max 0 (min (r.data.length : Int) index)).toNat
    let end_ := begin_ + (min ((r.data.length : Int) - begin_) length).toNat
    .ok (Reader.new ((r.data.drop begin_).take (end_ - begin_)))

end Reader
end EoVerif
