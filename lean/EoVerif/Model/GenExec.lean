import EoVerif.Model.GenCompile
import EoVerif.Model.Writer
import EoVerif.Model.Reader
/-! Execution semantics of the generated classes: `__init__`, `serialize`, `deserialize`, over the
    writer / reader models.  Values are typed-or-None Python values. -/
namespace EoVerif.Gen

inductive Value where
  | none
  | int (v : Int)
  | bool (b : Bool)
  | str (s : List Nat)
  | bytes (bs : Bytes)
  | tuple (vs : List Value)
  /-- instance of a generated class: attributes in annotation order, then `_byte_size` -/
  | obj (cls : String) (fields : List (String × Value)) (byteSize : Int)
  /-- an attribute that was never assigned (reading it raises `AttributeError`) -/
  | missing
  deriving Inhabited

namespace Value

def isNone : Value → Bool | .none => true | _ => false

def attr (v : Value) (name : String) : Value :=
  match v with
  | .obj _ fs _ => ((fs.find? (·.1 == name)).map (·.2)).getD .missing
  | _ => .missing

def cls? : Value → Option String | .obj c _ _ => some c | _ => Option.none

/-- Python `len(v)`; `none` = `TypeError` -/
def len? : Value → Option Nat
  | .str s => some s.length
  | .bytes b => some b.length
  | .tuple vs => some vs.length
  | _ => Option.none

/-- Python truthiness -/
def truthy : Value → Bool
  | .none => false
  | .int v => v != 0
  | .bool b => b
  | .str s => !s.isEmpty
  | .bytes b => !b.isEmpty
  | .tuple vs => !vs.isEmpty
  | _ => true

/-- `int(v)` for the typed domain -/
def toInt? : Value → Option Int
  | .int v => some v
  | .bool b => some (if b then 1 else 0)
  | _ => Option.none

end Value

abbrev Res (σ α : Type) := σ × Except PyErr α

/-! ### `__init__` -/

/-- value of a pasted hard-coded text as a Python expression: a decimal literal is an int, anything
    else is treated as an undefined name (`NameError`) -/
def pastedValue (text : String) : Except PyErr Value :=
  if PyStr.isdigit text then .ok (.int ((PyStr.pyInt? text).getD 0)) else .error .NameError

/-- run the `__init__` body on keyword arguments -/
def runInit (body : List InitStmt) (args : List (String × Value)) : List (String × Value) → Except PyErr (List (String × Value))
  | attrs =>
    let rec go : List InitStmt → List (String × Value) → Except PyErr (List (String × Value))
      | [], attrs => .ok attrs
      | .assign a e :: rest, attrs =>
        let arg (n : String) : Value := ((args.find? (·.1 == n)).map (·.2)).getD .none
        let v : Except PyErr Value :=
          match e with
          | .param n => .ok (arg n)
          | .tupleOf n optional =>
            (match arg n with
             | .tuple vs => .ok (.tuple vs)
             | .none => if optional then .ok .none else .error .TypeError
             | _ => .error .TypeError)
          | .strLit s => .ok (.str (s.toList.map Char.toNat))
          | .pasted t => pastedValue t
          | .boolLit b => .ok (.bool b)
        match v with
        | .error e => .error e
        | .ok v => go rest (attrs ++ [(a, v)])
      | .lenOf l o optional :: rest, attrs =>
        let ov : Value := ((attrs.find? (fun p => p.1 == o)).map (fun p => p.2)).getD Value.missing
        match ov.len? with
        | some n => go rest (attrs ++ [(l, Value.int n)])
        | Option.none => if optional && ov.isNone then go rest (attrs ++ [(l, Value.none)]) else .error .TypeError
    go body attrs

/-- `Cls(**args)`: keyword-only parameters; required ones must be given, unknown ones are rejected;
    the resulting attributes are listed in annotation order (unassigned ones as `missing`). -/
def construct (c : ClassIR) (args : List (String × Value)) : Except PyErr Value :=
  if args.any (fun a => !(c.params.any (·.name == a.1))) then .error .TypeError
  else if c.params.any (fun p => !p.hasDefault && !(args.any (·.1 == p.name))) then .error .TypeError
  else
    match runInit c.initBody args [] with
    | .error e => .error e
    | .ok attrs =>
      .ok (.obj c.name (c.fields.map (fun f => (f.name, ((attrs.find? (·.1 == f.name)).map (·.2)).getD .missing))) 0)

/-! ### `serialize` -/

structure SerSt where
  w : Writer
  /-- the local `reached_missing_optional` (`none` = not assigned yet) -/
  rmo : Option Bool := Option.none
  oldLen : Nat := 0
  idx : Nat := 0

/-- callback for `Cls.serialize(writer, value)` of another generated class -/
abbrev SerCall := String → Value → Writer → Res Writer Unit

def wstep (st : SerSt) (op : Writer.Op) : Res SerSt Unit :=
  let (w', r) := st.w.step op
  ({ st with w := w' }, r)

/-- evaluate the value expression (attribute access, indexing) -/
def evalV (obj : Value) (idx : Nat) : VExpr → Except PyErr Value
  | .litInt n => .ok (.int n)
  | .litStr s => .ok (.str (s.toList.map Char.toNat))
  | .field name indexed =>
    match obj.attr name with
    | .missing => .error .AttributeError
    | v =>
      if indexed then
        match v with
        | .tuple vs => (match vs[idx]? with | some x => .ok x | Option.none => .error .Other)
        | _ => .error .TypeError
      else .ok v

def coerceW (c : Coerce) (v : Value) : Except PyErr Value :=
  match c with
  | .none => .ok v
  | .bool => .ok (.int (if v.truthy then 1 else 0))
  | .enum => match v.toInt? with | some n => .ok (.int n) | Option.none => .error .TypeError

def lenArg (obj : Value) : LenE → Except PyErr Int
  | .lit n => .ok n
  | .field f => match obj.attr f with
    | .int n => .ok n
    | .missing => .error .AttributeError
    | _ => .error .TypeError

/-- one emitted writer call -/
def doWrite (call : SerCall) (obj : Value) (st : SerSt) (kind : IOKind) (v : Value) (offset : Int) : Res SerSt Unit :=
  match kind with
  | .int k =>
    match v with
    | .int n =>
      let n := n - offset
      (match k with
       | .byte => wstep st (.addByte n)
       | .char => wstep st (.addChar n)
       | .short => wstep st (.addShort n)
       | .three => wstep st (.addThree n)
       | .int => wstep st (.addInt n))
    | .bool b =>
      -- a Python bool is an int
      let n := (if b then 1 else 0) - offset
      (match k with
       | .byte => wstep st (.addByte n)
       | .char => wstep st (.addChar n)
       | .short => wstep st (.addShort n)
       | .three => wstep st (.addThree n)
       | .int => wstep st (.addInt n))
    | _ => (st, .error .TypeError)
  | .str encoded len padded =>
    match v with
    | .str s =>
      (match len with
       | Option.none => wstep st (if encoded then .addEncodedString s else .addString s)
       | some le =>
         match lenArg obj le with
         | .error e => (st, .error e)
         | .ok n => wstep st (if encoded then .addFixedEncodedString s n padded else .addFixedString s n padded))
    | _ => (st, .error .TypeError)
  | .blob =>
    match v with
    | .bytes bs => wstep st (.addBytes bs)
    | _ => (st, .error .TypeError)
  | .struct cls =>
    let (w', r) := call cls v st.w
    ({ st with w := w' }, r)

/-- `for i in range(n)` -/
def repeatM {σ} (f : Nat → σ → Res σ Unit) : Nat → Nat → σ → Res σ Unit
  | 0, _, st => (st, .ok ())
  | k + 1, i, st =>
    match f i st with
    | (st', .error e) => (st', .error e)
    | (st', .ok ()) => repeatM f k (i + 1) st'

mutual

def execSerOp (call : SerCall) (obj : Value) : SerOp → SerSt → Res SerSt Unit
  | .setSan b, st => wstep st (.setSan b)
  | .addBreak, st => wstep st (.addByte 0xFF)
  | .optGuard acc f body, st =>
    match obj.attr f with
    | .missing => (st, .error .AttributeError)
    | v =>
      let newE : Except PyErr Bool :=
        if acc then (match st.rmo with
          | Option.none => .error .UnboundLocalError
          | some old => .ok (old || v.isNone))
        else .ok v.isNone
      match newE with
      | .error e => (st, .error e)
      | .ok rmo =>
        let st := { st with rmo := some rmo }
        if rmo then (st, .ok ()) else execSerOps call obj body st
  | .noneCheck f, st =>
    match obj.attr f with
    | .missing => (st, .error .AttributeError)
    | .none => (st, .error .SerializationError)
    | _ => (st, .ok ())
  | .lenCheck f gt limit, st =>
    match obj.attr f with
    | .missing => (st, .error .AttributeError)
    | v =>
      match v.len? with
      | Option.none => (st, .error .TypeError)
      | some n =>
        if (if gt then (n : Int) > limit else (n : Int) ≠ limit) then (st, .error .SerializationError) else (st, .ok ())
  | .forRange count body, st =>
    let nE : Except PyErr Int :=
      match count with
      | .lit n => .ok n
      | .lenField f => (match obj.attr f with
        | .int n => .ok n
        | .missing => .error .AttributeError
        | _ => .error .TypeError)
      | .lenOf f => (match obj.attr f with
        | .missing => .error .AttributeError
        | v => match v.len? with | some n => .ok n | Option.none => .error .TypeError)
    match nE with
    | .error e => (st, .error e)
    | .ok n => repeatM (fun i s => execSerOps call obj body { s with idx := i }) n.toNat 0 st
  | .ifIdxPos body, st => if st.idx > 0 then execSerOps call obj body st else (st, .ok ())
  | .write kind v c offset, st =>
    match evalV obj st.idx v with
    | .error e => (st, .error e)
    | .ok val =>
      match coerceW c val with
      | .error e => (st, .error e)
      | .ok val => doWrite call obj st kind val offset
  | .dummyGuard body, st =>
    if st.w.data.length = st.oldLen then execSerOps call obj body st else (st, .ok ())
  | .switch f cases, st =>
    match obj.attr f with
    | .missing => (st, .error .AttributeError)
    | fv =>
      let sel := cases.find? (fun c => match c.cond with
        | Option.none => true
        | some n => (match fv.toInt? with | some m => m == n | Option.none => false))
      match sel with
      | Option.none => (st, .ok ())
      | some c =>
        match c.body with
        | .expectNone df =>
          (match obj.attr df with
           | .missing => (st, .error .AttributeError)
           | .none => (st, .ok ())
           | _ => (st, .error .SerializationError))
        | .expectCls df cls =>
          (match obj.attr df with
           | .missing => (st, .error .AttributeError)
           | dv =>
             if dv.cls? == some cls then
               let (w', r) := call cls dv st.w
               ({ st with w := w' }, r)
             else (st, .error .SerializationError))

def execSerOps (call : SerCall) (obj : Value) : List SerOp → SerSt → Res SerSt Unit
  | [], st => (st, .ok ())
  | op :: ops, st =>
    match execSerOp call obj op st with
    | (st', .error e) => (st', .error e)
    | (st', .ok ()) => execSerOps call obj ops st'

end

/-- the body of a generated `serialize(writer, data)`:
    `[old_writer_length = len(writer)]; old = writer.mode; try: body finally: writer.mode = old` -/
def serializeBody (call : SerCall) (c : ClassIR) (obj : Value) (w : Writer) : Res Writer Unit :=
  let oldSan := w.san
  let (st, r) := execSerOps call obj c.ser { w := w, oldLen := w.data.length }
  ({ st.w with san := oldSan }, r)

/-- `Cls.serialize` with call depth bounded by `fuel` (generated classes cannot be cyclic) -/
def execSer (o : GenOutput) : Nat → SerCall
  | 0 => fun _ _ w => (w, .error .Diverges)
  | fuel + 1 => fun cls obj w =>
    match o.findClass? cls with
    | Option.none => (w, .error .NameError)
    | some c =>
      -- `data` of another class (or None) makes the first attribute access fail
      serializeBody (execSer o fuel) c obj w

/-! ### `deserialize` -/

structure DeSt where
  r : Reader
  env : List (String × Value) := []
  startPos : Nat := 0
  idx : Nat := 0

abbrev DeCall := String → Reader → Res Reader Value

def DeSt.get (st : DeSt) (n : String) : Option Value := (st.env.find? (·.1 == n)).map (·.2)
def DeSt.set (st : DeSt) (n : String) (v : Value) : DeSt :=
  if st.env.any (·.1 == n) then { st with env := st.env.map (fun p => if p.1 == n then (n, v) else p) }
  else { st with env := st.env ++ [(n, v)] }

def rstep (st : DeSt) (op : Reader.Op) : Res DeSt Reader.Val :=
  let (r', out) := st.r.step op
  ({ st with r := r' }, out)

def lenArgD (st : DeSt) : LenE → Except PyErr Int
  | .lit n => .ok n
  | .field f => match st.get f with
    | some (.int n) => .ok n
    | some _ => .error .TypeError
    | Option.none => .error .UnboundLocalError

/-- one emitted reader call, giving the raw value read -/
def doRead (call : DeCall) (st : DeSt) (kind : IOKind) : Res DeSt Value :=
  let conv (x : Res DeSt Reader.Val) : Res DeSt Value :=
    match x with
    | (s, .error e) => (s, .error e)
    | (s, .ok (.int n)) => (s, .ok (.int n))
    | (s, .ok (.str t)) => (s, .ok (.str t))
    | (s, .ok (.bytes b)) => (s, .ok (.bytes b))
    | (s, .ok .none) => (s, .ok .none)
  match kind with
  | .int .byte => conv (rstep st .getByte)
  | .int .char => conv (rstep st .getChar)
  | .int .short => conv (rstep st .getShort)
  | .int .three => conv (rstep st .getThree)
  | .int .int => conv (rstep st .getInt)
  | .str encoded len padded =>
    (match len with
     | Option.none => conv (rstep st (if encoded then .getEncodedString else .getString))
     | some le =>
       match lenArgD st le with
       | .error e => (st, .error e)
       | .ok n => conv (rstep st (if encoded then .getFixedEncodedString n padded else .getFixedString n padded)))
  | .blob => conv (rstep st (.getBytes st.r.remaining.toNat))
  | .struct cls =>
    let (r', out) := call cls st.r
    ({ st with r := r' }, out)

def coerceR (c : Coerce) (offset : Int) (v : Value) : Except PyErr Value :=
  match v with
  | .int n =>
    let n := n + offset
    (match c with
     | .none => .ok (.int n)
     | .bool => .ok (.bool (n != 0))
     | .enum => .ok (.int n))
  | other => if offset == 0 then .ok other else .error .TypeError

/-- `while` loop with fuel; an iteration that does not move the reader is reported as `Diverges` -/
def whileM (cond : DeSt → Bool) (body : DeSt → Res DeSt Unit) : Nat → DeSt → Res DeSt Unit
  | 0, st => if cond st then (st, .error .Diverges) else (st, .ok ())
  | k + 1, st =>
    if !cond st then (st, .ok ()) else
    match body st with
    | (st', .error e) => (st', .error e)
    | (st', .ok ()) => whileM cond body k st'

mutual

def execDeOp (call : DeCall) : DeOp → DeSt → Res DeSt Unit
  | .setChunked b, st => let (s, r) := rstep st (.setChunked b); (s, r.map (fun _ => ()))
  | .nextChunk, st => let (s, r) := rstep st .nextChunk; (s, r.map (fun _ => ()))
  | .optRead name body, st =>
    let st := st.set name .none
    if st.r.remaining > 0 then execDeOps call body st else (st, .ok ())
  | .read target kind c offset, st =>
    match doRead call st kind with
    | (s, .error e) => (s, .error e)
    | (s, .ok raw) =>
      match coerceR c offset raw with
      | .error e => (s, .error e)
      | .ok v =>
        match target with
        | .discard => (s, .ok ())
        | .var n => (s.set n v, .ok ())
        | .append n =>
          (match s.get n with
           | some (.tuple vs) => (s.set n (.tuple (vs ++ [v])), .ok ())
           | some _ => (s, .error .AttributeError)
           | Option.none => (s, .error .UnboundLocalError))
  | .initList n, st => (st.set n (.tuple []), .ok ())
  | .lenVar n size, st =>
    if size == 0 then (st, .error .ZeroDivisionError)
    else (st.set n (.int (st.r.remaining.tdiv size)), .ok ())
  | .forRange count body delim, st =>
    let nE : Except PyErr Int :=
      match count with
      | .lit n => .ok n
      | .var v => (match st.get v with
        | some (.int n) => .ok n
        | some _ => .error .TypeError
        | Option.none => .error .UnboundLocalError)
    match nE with
    | .error e => (st, .error e)
    | .ok n =>
      repeatM (fun i s =>
        match execDeOps call body { s with idx := i } with
        | (s', .error e) => (s', .error e)
        | (s', .ok ()) =>
          match delim with
          | .none => (s', .ok ())
          | .always => let (s'', r) := rstep s' .nextChunk; (s'', r.map (fun _ => ()))
          | .guarded =>
            if (i : Int) + 1 < n then let (s'', r) := rstep s' .nextChunk; (s'', r.map (fun _ => ()))
            else (s', .ok ())) n.toNat 0 st
  | .whileRemaining body delimited, st =>
    whileM (fun s => s.r.remaining > 0)
      (fun s =>
        match execDeOps call body s with
        | (s', .error e) => (s', .error e)
        | (s', .ok ()) =>
          let (s'', r) : Res DeSt Unit :=
            if delimited then (let (s'', r) := rstep s' .nextChunk; (s'', r.map (fun _ => ()))) else (s', .ok ())
          match r with
          | .error e => (s'', .error e)
          | .ok () =>
            -- no progress at all: the real loop would spin forever
            if s''.r.pos == s.r.pos && s''.r.chunkStart == s.r.chunkStart && s''.r.remaining > 0 then (s'', .error .Diverges)
            else (s'', .ok ()))
      (2 * st.r.data.length + 2) st
  | .dummyGuard body, st => if st.r.pos == st.startPos then execDeOps call body st else (st, .ok ())
  | .declNone n, st => (st.set n .none, .ok ())
  | .switch f cases, st =>
    match st.get f with
    | Option.none => (st, .error .UnboundLocalError)
    | some fv =>
      let sel := cases.find? (fun c => match c.cond with
        | Option.none => true
        | some n => (match fv.toInt? with | some m => m == n | Option.none => false))
      match sel with
      | Option.none => (st, .ok ())
      | some c =>
        match c.body with
        | .setNone dv => (st.set dv .none, .ok ())
        | .callCls dv cls =>
          let (r', out) := call cls st.r
          let st := { st with r := r' }
          match out with
          | .error e => (st, .error e)
          | .ok v => (st.set dv v, .ok ())

def execDeOps (call : DeCall) : List DeOp → DeSt → Res DeSt Unit
  | [], st => (st, .ok ())
  | op :: ops, st =>
    match execDeOp call op st with
    | (st', .error e) => (st', .error e)
    | (st', .ok ()) => execDeOps call ops st'

end

/-- attach `_byte_size` -/
def setByteSize (v : Value) (n : Int) : Value :=
  match v with
  | .obj c fs _ => .obj c fs n
  | other => other

/-- the body of a generated `deserialize(reader)` -/
def deserializeBody (call : DeCall) (c : ClassIR) (r : Reader) : Res Reader Value :=
  let oldChunked := r.chunked
  let restore (r' : Reader) : Reader := (r'.step (.setChunked oldChunked)).1
  let (st, res) := execDeOps call c.de { r := r, startPos := r.pos }
  match res with
  | .error e => (restore st.r, .error e)
  | .ok () =>
    let args := c.deArgs.map (fun n => (n, (st.get n).getD .missing))
    if args.any (fun a => match a.2 with | .missing => true | _ => false) then (restore st.r, .error .UnboundLocalError)
    else
      match construct c args with
      | .error e => (restore st.r, .error e)
      | .ok v => (restore st.r, .ok (setByteSize v ((st.r.pos : Int) - r.pos)))

def execDe (o : GenOutput) : Nat → DeCall
  | 0 => fun _ r => (r, .error .Diverges)
  | fuel + 1 => fun cls r =>
    match o.findClass? cls with
    | Option.none => (r, .error .NameError)
    | some c => deserializeBody (execDe o fuel) c r

/-- call depth that suffices for every class of `o` -/
def GenOutput.depth (o : GenOutput) : Nat := o.classes.length + 1

end EoVerif.Gen
