import EoVerif.Model.Xml
/-! Model of `protocol_code_generator/type/*` : the type objects and `TypeFactory` resolution.
    The factory's cache is not modelled: resolution is a pure function of the indexed definitions
    (a cache hit returns what a fresh resolution would return).  Recursion over struct references
    is bounded by `fuel`; running out of fuel models CPython's `RecursionError` on cyclic structs. -/
namespace EoVerif.Gen

abbrev GenErr := String

inductive IntKind where
  | byte | char | short | three | int
  deriving DecidableEq, Repr, Inhabited

namespace IntKind
def name : IntKind → String
  | byte => "byte" | char => "char" | short => "short" | three => "three" | int => "int"
def size : IntKind → Nat
  | byte => 1 | char => 1 | short => 2 | three => 3 | int => 4
/-- `get_max_value_of` -/
def maxValue : IntKind → Int
  | byte => 255 | char => 252 | short => 64008 | three => 16194276 | int => 4097152080
def ofName? : String → Option IntKind
  | "byte" => some byte | "char" => some char | "short" => some short
  | "three" => some three | "int" => some int | _ => none
end IntKind

structure EnumVal where
  ordinal : Int
  name : String
  pyName : String
  deriving DecidableEq, Repr, Inhabited

inductive Ty where
  | int (k : IntKind)
  | bool (under : IntKind)
  /-- `StringType(name, length)`; `len` is the raw `length` string (`none` = unspecified) -/
  | str (encoded : Bool) (len : Option String)
  | blob
  | enum (name : String) (path : String) (under : IntKind) (values : List EnumVal)
  | struct (name : String) (path : String) (fixedSize : Option Int) (bounded : Bool)
  deriving DecidableEq, Repr, Inhabited

namespace Ty
def name : Ty → String
  | int k => k.name
  | bool _ => "bool"
  | str e _ => if e then "encoded_string" else "string"
  | blob => "blob"
  | enum n _ _ _ => n
  | struct n _ _ _ => n
def fixedSize : Ty → Option Int
  | int k => some k.size
  | bool u => some u.size
  | str _ l => PyStr.tryParseInt l
  | blob => none
  | enum _ _ u _ => some u.size
  | struct _ _ f _ => f
def bounded : Ty → Bool
  | int _ => true
  | bool _ => true
  | str _ l => l.isSome
  | blob => false
  | enum _ _ _ _ => true
  | struct _ _ _ b => b
def isBasic : Ty → Bool
  | int _ => true | bool _ => true | str _ _ => true | _ => false
def isCustom : Ty → Bool
  | enum _ _ _ _ => true | struct _ _ _ _ => true | _ => false
def asInt? : Ty → Option IntKind
  | int k => some k | _ => none
end Ty

/-- an indexed (unresolved) custom type: its element and the directory of its file -/
structure Unresolved where
  xml : Xml
  path : String
  deriving Inhabited

/-- How the generator reads the `optional` / `delimited` attributes: `get_boolean_attribute`
    (`text.lower() == "true"`).  On the pinned tree this was the raw `element.get(...)` string used for
    truthiness, so `optional="false"` meant *true* — see known_findings.json (fixed in eb42e3d). -/
def flagAttr (e : Xml) (name : String) : Bool :=
  match e.get name with
  | none => false
  | some t => PyStr.lower t == "true"

abbrev Defs := List (String × Unresolved)

def Defs.find? (d : Defs) (name : String) : Option Unresolved := (List.find? (·.1 == name) d).map (·.2)

/-! `TypeFactory._flatten_instructions` -/
mutual
def flattenInstr : Xml → List Xml
  | .mk tag attrs text tail children =>
    let e := Xml.mk tag attrs text tail children
    e :: (if tag == "chunked" then flattenChildren children false
          else if tag == "switch" then flattenCases children
          else [])
/-- instructions among `cs`, flattened -/
def flattenChildren : List Xml → Bool → List Xml
  | [], _ => []
  | c :: cs, b =>
    (if Xml.instructionTags.contains c.tag then flattenInstr c else []) ++ flattenChildren cs b
/-- for a `<switch>`: every `<case>` child's instructions, flattened -/
def flattenCases : List Xml → List Xml
  | [] => []
  | c :: cs =>
    (if c.tag == "case" then (match c with | .mk _ _ _ _ cc => flattenChildren cc false) else []) ++ flattenCases cs
end

def flattenInstructions (e : Xml) : List Xml := flattenChildren e.children false

/-- the enum member list of `_create_enum_type` -/
def enumValues (enumName : String) : List Xml → List Int → List String → Except GenErr (List EnumVal)
  | [], _, _ => .ok []
  | v :: vs, ords, names =>
    match v.getText with
    | .error m => .error m
    | .ok text =>
      match v.getReq "name" with
      | .error m => .error m
      | .ok valueName =>
        let pyName := if valueName == "None" then valueName ++ "_" else valueName
        match PyStr.tryParseInt text with
        | none => .error s!"{enumName}.{valueName} has invalid ordinal value"
        | some ordinal =>
          if ords.contains ordinal then .error "cannot redefine ordinal value"
          else if names.contains pyName then .error "cannot redefine value name"
          else (enumValues enumName vs (ordinal :: ords) (pyName :: names)).map (fun r => ⟨ordinal, valueName, pyName⟩ :: r)

/-- `_calculate_fixed_struct_size` over the flattened instructions (accumulator `size`);
    `gt` is `get_type` -/
def fixedStructSize (gt : String → Option String → Except GenErr Ty) : List Xml → Int → Except GenErr (Option Int)
  | [], size => .ok (some size)
  | ins :: rest, size =>
    let cont (r : Except GenErr (Option Int)) : Except GenErr (Option Int) :=
      match r with
      | .error m => .error m
      | .ok none => .ok none
      | .ok (some s) => fixedStructSize gt rest (size + s)
    if ins.tag == "field" then
      cont (match ins.getReq "type" with
        | .error m => .error m
        | .ok tn => match gt tn (ins.get "length") with
          | .error m => .error m
          | .ok t => match t.fixedSize with
            | none => .ok none
            | some fsz => if flagAttr ins "optional" then .ok none else .ok (some fsz))
    else if ins.tag == "array" then
      cont (match PyStr.tryParseInt (ins.get "length") with
        | none => .ok none
        | some length => match ins.getReq "type" with
          | .error m => .error m
          | .ok tn => match gt tn none with
            | .error m => .error m
            | .ok t => match t.fixedSize with
              | none => .ok none
              | some esz =>
                if flagAttr ins "optional" then .ok none
                else if flagAttr ins "delimited" then .ok none
                else .ok (some (length * esz)))
    else if ins.tag == "dummy" then
      cont (match ins.getReq "type" with
        | .error m => .error m
        | .ok tn => match gt tn none with
          | .error m => .error m
          | .ok t => .ok t.fixedSize)
    else if ins.tag == "chunked" then .ok none
    else if ins.tag == "switch" then .ok none
    else cont (.ok (some 0))

/-- `_is_bounded` over the flattened instructions -/
def isBoundedWalk (gt : String → Option String → Except GenErr Ty) : List Xml → Bool → Except GenErr Bool
  | [], result => .ok result
  | ins :: rest, result =>
    if !result then isBoundedWalk gt rest (ins.tag == "break")
    else if ins.tag == "field" then
      match ins.getReq "type" with
      | .error m => .error m
      | .ok tn => match gt tn (ins.get "length") with
        | .error m => .error m
        | .ok t => isBoundedWalk gt rest t.bounded
    else if ins.tag == "array" then
      match ins.getReq "type" with
      | .error m => .error m
      | .ok tn => match gt tn none with
        | .error m => .error m
        | .ok t => isBoundedWalk gt rest (t.bounded && (ins.get "length").isSome)
    else if ins.tag == "dummy" then
      match ins.getReq "type" with
      | .error m => .error m
      | .ok tn => match gt tn none with
        | .error m => .error m
        | .ok t => isBoundedWalk gt rest t.bounded
    else isBoundedWalk gt rest result

mutual

/-- `TypeFactory.get_type(name, length)` -/
def getType (defs : Defs) : Nat → String → Option String → Except GenErr Ty
  | 0, _, _ => .error "RecursionError"
  | fuel + 1, name, len =>
    match len with
    | some l =>
      -- `_create_type_with_specified_length`
      if name == "string" then .ok (.str false (some l))
      else if name == "encoded_string" then .ok (.str true (some l))
      else .error s!"{name} type with length is invalid"
    | none => createType defs fuel name

/-- `_create_type(name, unspecified)` -/
def createType (defs : Defs) : Nat → String → Except GenErr Ty
  | 0, _ => .error "RecursionError"
  | fuel + 1, fullName =>
    -- `_read_underlying_type`
    let parts := PyStr.splitColon fullName
    let underE : Except GenErr (Option Ty) :=
      match parts with
      | [_] => .ok none
      | [typeName, underName] =>
        if typeName == underName then .error "type cannot specify itself as an underlying type"
        else match getType defs fuel underName none with
          | .error m => .error m
          | .ok u => (match u with
            | .int _ => .ok (some u)
            | _ => .error "not a numeric type, cannot be an underlying type")
      | _ => .error "type syntax is invalid (only one colon is allowed)"
    match underE with
    | .error m => .error m
    | .ok under =>
      let name := match parts with | n :: _ => n | [] => fullName
      let underK : Option IntKind := under.bind Ty.asInt?
      let resultE : Except GenErr Ty :=
        match IntKind.ofName? name with
        | some k => .ok (.int k)
        | none =>
          if name == "bool" then .ok (.bool (underK.getD .char))
          else if name == "string" then .ok (.str false none)
          else if name == "encoded_string" then .ok (.str true none)
          else if name == "blob" then .ok .blob
          else
            -- `_create_custom_type`
            match defs.find? name with
            | none => .error s!"{name} type is not defined"
            | some u =>
              if u.xml.tag == "enum" then createEnum defs fuel u underK
              else if u.xml.tag == "struct" then createStruct defs fuel u
              else .error "unhandled custom type element"
      match resultE with
      | .error m => .error m
      | .ok result =>
        match under, result with
        | some _, .bool _ => .ok result
        | some _, .enum _ _ _ _ => .ok result
        | some _, _ => .error "type has no underlying type; override not allowed"
        | none, _ => .ok result

/-- `_create_enum_type` -/
def createEnum (defs : Defs) : Nat → Unresolved → Option IntKind → Except GenErr Ty
  | 0, _, _ => .error "RecursionError"
  | fuel + 1, u, override =>
    match u.xml.getReq "name" with
    | .error m => .error m
    | .ok enumName =>
      let underE : Except GenErr IntKind :=
        match override with
        | some k => .ok k
        | none =>
          match u.xml.getReq "type" with
          | .error m => .error m
          | .ok tn =>
            if enumName == tn then .error "enum cannot specify itself as an underlying type"
            else match getType defs fuel tn none with
              | .error m => .error m
              | .ok (.int k) => .ok k
              | .ok _ => .error "not a numeric type, cannot be an underlying type"
      match underE with
      | .error m => .error m
      | .ok k =>
        match enumValues enumName (u.xml.findall "value") [] [] with
        | .error m => .error m
        | .ok vals => .ok (.enum enumName u.path k vals)

/-- `_create_struct_type` -/
def createStruct (defs : Defs) : Nat → Unresolved → Except GenErr Ty
  | 0, _ => .error "RecursionError"
  | fuel + 1, u =>
    match u.xml.getReq "name" with
    | .error m => .error m
    | .ok name =>
      let flat := flattenInstructions u.xml
      match fixedStructSize (getType defs fuel) flat 0 with
      | .error m => .error m
      | .ok fs =>
        match isBoundedWalk (getType defs fuel) flat true with
        | .error m => .error m
        | .ok b => .ok (.struct name u.path fs b)

end

end EoVerif.Gen
