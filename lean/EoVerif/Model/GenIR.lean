import EoVerif.Model.GenTypes
/-! Instruction-level IR of what the generator emits: one constructor per emitted statement group
    (see DESIGN.md Appendix C).  Python *text* (docstrings, annotations, formatting) is not modelled. -/
namespace EoVerif.Gen

/-- a `length=` attribute: decimal literal or the name of a length field -/
inductive LenE where
  | lit (n : Int)
  | field (name : String)
  deriving DecidableEq, Repr, Inhabited

/-- which writer / reader call is emitted -/
inductive IOKind where
  | int (k : IntKind)
  | str (encoded : Bool) (len : Option LenE) (padded : Bool)
  | blob
  | struct (cls : String)
  deriving DecidableEq, Repr, Inhabited

/-- the value written -/
inductive VExpr where
  | litInt (n : Int)
  | litStr (s : String)
  /-- `data._name` or `data._name[i]` -/
  | field (name : String) (indexed : Bool)
  deriving DecidableEq, Repr, Inhabited

/-- `1 if v else 0` / `v != 0` (bool), `int(v)` / `E(v)` (enum) -/
inductive Coerce where
  | none | bool | enum
  deriving DecidableEq, Repr, Inhabited

/-- `range(...)` argument on the serialising side -/
inductive CountE where
  | lit (n : Int)
  /-- `data._<length field>` -/
  | lenField (name : String)
  /-- `len(data._<field>)` -/
  | lenOf (field : String)
  deriving DecidableEq, Repr, Inhabited

inductive CaseSer where
  /-- `if data._f_data is not None: raise SerializationError` -/
  | expectNone (dataField : String)
  /-- `if not isinstance(data._f_data, Cls): raise …; Cls.serialize(writer, data._f_data)` -/
  | expectCls (dataField : String) (cls : String)
  deriving DecidableEq, Repr, Inhabited

structure SerCase where
  /-- `none` = the `else:` (default) branch -/
  cond : Option Int
  body : CaseSer
  deriving DecidableEq, Repr, Inhabited

inductive SerOp where
  /-- `writer.string_sanitization_mode = b` -/
  | setSan (b : Bool)
  /-- `writer.add_byte(0xFF)` -/
  | addBreak
  /-- `reached_missing_optional = [reached_missing_optional or] data._f is None`;
      `if not reached_missing_optional:` body -/
  | optGuard (accumulate : Bool) (field : String) (body : List SerOp)
  /-- `if data._f is None: raise SerializationError` -/
  | noneCheck (field : String)
  /-- `if len(data._f) (> | !=) limit: raise SerializationError` -/
  | lenCheck (field : String) (gt : Bool) (limit : Int)
  /-- `for i in range(count):` body -/
  | forRange (count : CountE) (body : List SerOp)
  /-- `if i > 0:` body -/
  | ifIdxPos (body : List SerOp)
  /-- one writer call (or `Cls.serialize`) of `coerce(value) - offset` -/
  | write (kind : IOKind) (v : VExpr) (coerce : Coerce) (offset : Int)
  /-- `if len(writer) == old_writer_length:` body -/
  | dummyGuard (body : List SerOp)
  /-- `if/elif data._f == value … else …` -/
  | switch (field : String) (cases : List SerCase)
  deriving Repr, Inhabited

inductive Target where
  | discard
  | var (name : String)
  | append (name : String)
  deriving DecidableEq, Repr, Inhabited

inductive CountD where
  | lit (n : Int)
  | var (name : String)
  deriving DecidableEq, Repr, Inhabited

inductive Delim where
  | none
  /-- `reader.next_chunk()` after every element -/
  | always
  /-- `if i + 1 < count: reader.next_chunk()` -/
  | guarded
  deriving DecidableEq, Repr, Inhabited

inductive CaseDe where
  | setNone (dataVar : String)
  | callCls (dataVar : String) (cls : String)
  deriving DecidableEq, Repr, Inhabited

structure DeCase where
  cond : Option Int
  body : CaseDe
  deriving DecidableEq, Repr, Inhabited

inductive DeOp where
  | setChunked (b : Bool)
  | nextChunk
  /-- `name = None`; `if reader.remaining > 0:` body -/
  | optRead (name : String) (body : List DeOp)
  /-- one reader call (or `Cls.deserialize`), `coerce(value + offset)` stored in `target` -/
  | read (target : Target) (kind : IOKind) (coerce : Coerce) (offset : Int)
  /-- `name = []` -/
  | initList (name : String)
  /-- `name = int(reader.remaining / size)` -/
  | lenVar (name : String) (size : Int)
  /-- `for i in range(count):` body, then the delimiter handling -/
  | forRange (count : CountD) (body : List DeOp) (delim : Delim)
  /-- `while reader.remaining > 0:` body `[reader.next_chunk()]` -/
  | whileRemaining (body : List DeOp) (delimited : Bool)
  /-- `if reader.position == reader_start_position:` body -/
  | dummyGuard (body : List DeOp)
  /-- `name = None` (the case-data variable) -/
  | declNone (name : String)
  | switch (field : String) (cases : List DeCase)
  deriving Repr, Inhabited

inductive FieldKind where
  | normal | length | caseData
  deriving DecidableEq, Repr, Inhabited

/-- an attribute annotation line `_name: T` of the class body -/
structure FieldDecl where
  name : String
  kind : FieldKind
  isArray : Bool := false
  deriving DecidableEq, Repr, Inhabited

inductive InitExpr where
  | param (name : String)
  /-- `tuple(name)`; for an optional array `tuple(name) if name is not None else None` -/
  | tupleOf (name : String) (optional : Bool)
  | strLit (s : String)
  /-- the hard-coded text of a *named* non-string field, pasted into `__init__` as Python source -/
  | pasted (text : String)
  /-- `True` / `False` for a named hard-coded bool -/
  | boolLit (b : Bool)
  deriving DecidableEq, Repr, Inhabited

inductive InitStmt where
  | assign (attr : String) (e : InitExpr)
  /-- `self._len = len(self._of)`; for an optional field `… if self._of is not None else None` -/
  | lenOf (lenAttr : String) (ofAttr : String) (optional : Bool)
  deriving DecidableEq, Repr, Inhabited

structure Param where
  name : String
  hasDefault : Bool
  deriving DecidableEq, Repr, Inhabited

structure PacketInfo where
  family : String
  familyOrdinal : Int
  action : String
  actionOrdinal : Int
  deriving DecidableEq, Repr, Inhabited

structure ClassIR where
  /-- qualified name, e.g. `Foo` or `Foo.KindDataBar` -/
  name : String
  fields : List FieldDecl := []
  params : List Param := []
  initBody : List InitStmt := []
  /-- getter-only properties (the generator never emits a setter) -/
  getters : List String := []
  setters : List String := []
  needsOldLen : Bool := false
  ser : List SerOp := []
  de : List DeOp := []
  deArgs : List String := []
  /-- `(import name, absolute package path)` collected for this class and its nested classes -/
  imports : List (String × String) := []
  packet : Option PacketInfo := none
  deriving Repr, Inhabited

structure EnumIR where
  name : String
  path : String
  under : IntKind
  values : List EnumVal
  deriving Repr, Inhabited

inductive FileKind where
  | enum | struct | packet | init
  deriving DecidableEq, Repr, Inhabited

structure GenFile where
  /-- path relative to the output root, e.g. `net/client/foo_bar_client_packet.py` -/
  path : String
  kind : FileKind
  /-- the class defined (or, for `__init__`, the star-imported module paths in order) -/
  names : List String
  /-- rendered import lines, in emitted order -/
  imports : List String
  deriving Repr, Inhabited

structure GenOutput where
  classes : List ClassIR := []
  enums : List EnumIR := []
  files : List GenFile := []
  deriving Repr, Inhabited

def GenOutput.findClass? (o : GenOutput) (name : String) : Option ClassIR :=
  o.classes.find? (·.name == name)

end EoVerif.Gen
