/-
  Shared vocabulary of the executable models.  Core Lean only (no Mathlib) so that the
  line-protocol driver can be linked as a `lean_exe`.
-/
namespace EoVerif

/-- The Python exception classes the models distinguish (plus `Diverges` for a loop that would
    not terminate and `Other` for anything else). -/
inductive PyErr where
  | ValueError | SerializationError | RuntimeError | TypeError | UnboundLocalError
  | NameError | ZeroDivisionError | AttributeError | Diverges | Other
  deriving DecidableEq, Repr, Inhabited

def PyErr.toString : PyErr → String
  | .ValueError => "ValueError" | .SerializationError => "SerializationError"
  | .RuntimeError => "RuntimeError" | .TypeError => "TypeError"
  | .UnboundLocalError => "UnboundLocalError" | .NameError => "NameError"
  | .ZeroDivisionError => "ZeroDivisionError" | .AttributeError => "AttributeError"
  | .Diverges => "Diverges" | .Other => "Other"

instance : ToString PyErr := ⟨PyErr.toString⟩

deriving instance DecidableEq for Except

/-- Bytes are modelled as natural numbers `< 256`; the bound is an invariant carried by the
    theorems that need it (this keeps `omega` usable everywhere). -/
abbrev Bytes := List Nat

def Bytes.ok (bs : Bytes) : Prop := ∀ b ∈ bs, b < 256

end EoVerif
