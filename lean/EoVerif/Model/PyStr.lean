import EoVerif.Model.Basic
/-! The handful of Python `str` methods the code generator relies on, on ASCII text
    (attribute values and element text outside ASCII are outside the modelled domain). -/
namespace EoVerif.PyStr

def isSpace (c : Char) : Bool :=
  c == ' ' || c == '\t' || c == '\n' || c == '\r' || c == '\x0b' || c == '\x0c'
  || c == '\x1c' || c == '\x1d' || c == '\x1e' || c == '\x1f' || c == '\u0085' || c == ' '

def isDigitC (c : Char) : Bool := '0' ≤ c && c ≤ '9'
def isUpperC (c : Char) : Bool := 'A' ≤ c && c ≤ 'Z'
def isLowerC (c : Char) : Bool := 'a' ≤ c && c ≤ 'z'
def toLowerC (c : Char) : Char := if isUpperC c then Char.ofNat (c.toNat + 32) else c
def toUpperC (c : Char) : Char := if isLowerC c then Char.ofNat (c.toNat - 32) else c

def stripL : List Char → List Char
  | [] => []
  | c :: cs => if isSpace c then stripL cs else c :: cs

/-- `str.strip()` -/
def strip (s : String) : String :=
  String.ofList (stripL (stripL s.toList).reverse).reverse

/-- `str.lower()` -/
def lower (s : String) : String := String.ofList (s.toList.map toLowerC)

/-- `str.isdigit()` (ASCII) -/
def isdigit (s : String) : Bool := !s.isEmpty && s.toList.all isDigitC

/-- digits with single underscores between them -/
def digitsVal : List Char → Bool → Nat → Option Nat
  | [], lastWasDigit, acc => if lastWasDigit then some acc else none
  | c :: cs, lastWasDigit, acc =>
    if isDigitC c then digitsVal cs true (acc * 10 + (c.toNat - '0'.toNat))
    else if c == '_' && lastWasDigit && !cs.isEmpty then
      (match cs with
       | d :: _ => if isDigitC d then digitsVal cs false acc else none
       | [] => none)
    else none

/-- Python `int(text)`: surrounding whitespace, optional sign, decimal digits with single
    underscores between digits; `none` = `ValueError`. -/
def pyInt? (s : String) : Option Int :=
  match (strip s).toList with
  | [] => none
  | '-' :: cs => (match cs with | [] => none | _ => (digitsVal cs false 0).map (fun n => -(n : Int)))
  | '+' :: cs => (match cs with | [] => none | _ => (digitsVal cs false 0).map (fun n => (n : Int)))
  | cs => (digitsVal cs false 0).map (fun n => (n : Int))

/-- `try_parse_int(value)` -/
def tryParseInt : Option String → Option Int
  | none => none
  | some s => pyInt? s

def splitOnChar (sep : Char) : List Char → List Char → List (List Char)
  | [], cur => [cur.reverse]
  | c :: cs, cur => if c == sep then cur.reverse :: splitOnChar sep cs [] else splitOnChar sep cs (c :: cur)

/-- `str.split(":")` -/
def splitColon (s : String) : List String := (splitOnChar ':' s.toList []).map String.ofList

/-- `pascal_case_to_snake_case` -/
def pascalToSnakeAux : List Char → Option Char → List Char
  | [], _ => []
  | c :: cs, prev =>
    let nextNotUpper := match cs with | n :: _ => !isUpperC n | [] => false
    let under := match prev with
      | none => false
      | some p => isUpperC c && (nextNotUpper || isLowerC p)
    (if under then ['_', toLowerC c] else [toLowerC c]) ++ pascalToSnakeAux cs (some c)

def pascalToSnake (s : String) : String := String.ofList (pascalToSnakeAux s.toList none)

/-- `snake_case_to_pascal_case` -/
def snakeToPascalAux : List Char → Bool → List Char
  | [], _ => []
  | c :: cs, up =>
    if c == '_' then snakeToPascalAux cs true
    else (if up then toUpperC c else toLowerC c) :: snakeToPascalAux cs false

def snakeToPascal (s : String) : String := String.ofList (snakeToPascalAux s.toList true)

end EoVerif.PyStr
