import EoVerif.Model.PyStr
/-! What `xml.etree.ElementTree` hands the generator, and the helpers of `util/xml_utils.py`. -/
namespace EoVerif

inductive Xml where
  | mk (tag : String) (attrs : List (String × String)) (text : Option String) (tail : Option String)
       (children : List Xml)
  deriving Inhabited

namespace Xml

def tag : Xml → String | mk t _ _ _ _ => t
def attrs : Xml → List (String × String) | mk _ a _ _ _ => a
def text : Xml → Option String | mk _ _ t _ _ => t
def tail : Xml → Option String | mk _ _ _ t _ => t
def children : Xml → List Xml | mk _ _ _ _ c => c

/-- `element.get(name)` -/
def get (e : Xml) (name : String) : Option String := (e.attrs.find? (·.1 == name)).map (·.2)

/-- `element.findall(tag)` : direct children with that tag -/
def findall (e : Xml) (t : String) : List Xml := e.children.filter (·.tag == t)

def instructionTags : List String := ["field", "array", "length", "dummy", "switch", "chunked", "break"]

/-- `get_instructions(element)` -/
def instructions (e : Xml) : List Xml := e.children.filter (fun c => instructionTags.contains c.tag)

/-- the tails of `children`, stripped, non-empty ones in order -/
def nonBlankTails (cs : List Xml) : List String :=
  (cs.map (fun c => PyStr.strip (c.tail.getD ""))).filter (fun t => !t.isEmpty)

/-- `get_text(element)`: stripped `.text`, else the single non-blank child tail; `error` when a second
    piece of text is found. (`html.unescape` is the identity on text without `&`, which is the
    modelled domain.) -/
def getText (e : Xml) : Except String (Option String) :=
  let t := PyStr.strip (e.text.getD "")
  let tails := nonBlankTails e.children
  let rec go (result : String) : List String → Except String String
    | [] => .ok result
    | x :: xs => if !result.isEmpty then .error "unexpected text content" else go x xs
  match go t tails with
  | .error m => .error m
  | .ok r => .ok (if r.isEmpty then none else some r)

/-- `get_boolean_attribute` -/
def getBool (e : Xml) (name : String) (dflt : Bool := false) : Bool :=
  match e.get name with
  | none => dflt
  | some t => PyStr.lower t == "true"

/-- `get_int_attribute` (default 0) -/
def getInt (e : Xml) (name : String) : Except String Int :=
  match e.get name with
  | none => .ok 0
  | some t => match PyStr.pyInt? t with
    | some n => .ok n
    | none => .error "invalid integer attribute"

/-- `get_required_string_attribute` -/
def getReq (e : Xml) (name : String) : Except String String :=
  match e.get name with
  | some v => .ok v
  | none => .error s!"required attribute {name} is missing"

end Xml
end EoVerif
