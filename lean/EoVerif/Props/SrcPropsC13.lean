import EoVerif.Props.SrcSeq
import EoVerif.Props.C13
/-!
  # C13 (whole histories), stated about the translated source

  `srcRun` drives the **translated** `PacketSequencer.next_sequence` / `set_sequence_start` over any finite history of
  requests and start updates, threading the two fields exactly as the methods return them.  `src_nth_sequence`: its
  outputs are `specOutputs` — the `n`-th request returns the start in force plus `n mod 10`, whatever the interleaving.
-/
namespace EoVerif.SrcProps
open EoVerif SrcTie EoVerif.Seq

/-- run a history through the translated methods; the state is `(_start.value, _counter)` -/
def srcRun : Int × Int → List Op → Py.M ((Int × Int) × List Int)
  | st, [] => .ok (st, [])
  | (start, counter), .next :: ops =>
    Py.bind (Src.Sequencer.PacketSequencer.next_sequence start counter) fun (r : Int × Int) =>
    Py.bind (srcRun (start, r.1) ops) fun (rest : (Int × Int) × List Int) => .ok (rest.1, r.2 :: rest.2)
  | (start, counter), .setStart v :: ops =>
    Py.bind (Src.Sequencer.PacketSequencer.set_sequence_start start counter v) fun (s' : Int) =>
    srcRun (s', counter) ops

theorem srcRun_eq (s : Sequencer) (ops : List Op) :
    srcRun (s.start, s.counter) ops = .ok (((s.run ops).1.start, (s.run ops).1.counter), (s.run ops).2) := by
  induction ops generalizing s with
  | nil => simp [srcRun, Sequencer.run]
  | cons op ops ih =>
    cases op with
    | next =>
      have h := (next_sequence_eq s).1
      have ih' := ih (s.step .next).1
      have hst : (s.step .next).1.start = s.start := (next_sequence_eq s).2.1
      simp only [srcRun, h, Py.bind_ok]
      rw [← hst, ih']
      simp [Sequencer.run, Sequencer.step]
    | setStart v =>
      have h := (set_sequence_start_eq s v).1
      have hc : (s.step (.setStart v)).1.counter = s.counter := (set_sequence_start_eq s v).2.1
      have ih' := ih (s.step (.setStart v)).1
      simp only [srcRun, h, Py.bind_ok]
      rw [← hc, ih']
      simp [Sequencer.run, Sequencer.step]

/-- **C13 on the translated sequencer**: for any history, the outputs are start-in-force + (n mod 10) -/
theorem src_nth_sequence (start : Int) (ops : List Op) :
    ∃ st, srcRun (start, 0) ops = .ok (st, specOutputs start 0 ops) := by
  have h := srcRun_eq (Sequencer.new start) ops
  simp only [Sequencer.new] at h
  exact ⟨_, by rw [h, ← nth_sequence start ops]; rfl⟩

/-- updating the start never resets, skips or repeats the counter of the translated sequencer -/
theorem src_counter_invariant (start : Int) (ops : List Op) :
    ∃ outs, srcRun (start, 0) ops = .ok ((startAfter start ops, ((countNext ops % 10 : Nat) : Int)), outs) := by
  have h := srcRun_eq (Sequencer.new start) ops
  have hc := counter_invariant start ops
  simp only [Sequencer.new] at h hc
  exact ⟨_, by rw [h, hc.1, hc.2]⟩

end EoVerif.SrcProps
