import EoVerif.Generated.SrcNum
import EoVerif.Model.Num
/-!
  # Source tie for `eolib/data/number_encoding_utils.py` (C07)

  `EoVerif.Src.Num.encode_number` / `decode_number` are **regenerated from the working tree** by
  `harness/py2lean.py` on every run.  The theorems below prove that the translated source is the hand-written
  model `EoVerif.Num` — the model the theorems of `Props/C07.lean` are about — for **every** integer and
  every byte string (including the out-of-range inputs on which `bytes([...])` raises).  When the source
  changes so that these no longer check, the tie is reported as "not established" and the check falls back
  to the behavioural correspondence at thorough depth; that alone is never an alarm.
-/
set_option linter.unusedSimpArgs false
namespace EoVerif.SrcTie
open EoVerif

theorem char_max : Src.Limits.CHAR_MAX = 253 := rfl
theorem short_max : Src.Limits.SHORT_MAX = 64009 := by decide
theorem three_max : Src.Limits.THREE_MAX = 16194277 := by decide
theorem int_max : Src.Limits.INT_MAX = 4097152081 := by decide

/-- the limits of the source are the limits of the model -/
theorem limits_eq : Src.Limits.CHAR_MAX = Num.CHAR_MAX ∧ Src.Limits.SHORT_MAX = Num.SHORT_MAX ∧
    Src.Limits.THREE_MAX = Num.THREE_MAX ∧ Src.Limits.INT_MAX = Num.INT_MAX := by
  refine ⟨rfl, ?_, ?_, ?_⟩ <;> decide

theorem fdiv_pos (a b : Int) (h : 0 < b) : Int.fdiv a b = a / b := Int.fdiv_eq_ediv_of_nonneg a (Int.le_of_lt h)
theorem fmod_pos (a b : Int) (h : 0 < b) : Int.fmod a b = a % b := Int.fmod_eq_emod_of_nonneg a (Int.le_of_lt h)

/-- `bytes([a, b, c, d])` against the model's range check and `toNat`. -/
theorem mkBytes4 (a b c d : Int) :
    Py.mkBytes [a, b, c, d] (fun t => (.ok t : Py.M (List Int))) =
      (if Num.isByte a && Num.isByte b && Num.isByte c && Num.isByte d
        then (.ok [a.toNat, b.toNat, c.toNat, d.toNat] : Except PyErr Bytes) else .error .ValueError).map
        (fun bs => bs.map Int.ofNat) := by
  unfold Py.mkBytes Num.isByte
  simp only [List.all_cons, List.all_nil, Bool.and_true]
  by_cases h : (decide (0 ≤ a) && decide (a < 256) && (decide (0 ≤ b) && decide (b < 256) && (decide (0 ≤ c) && decide (c < 256) && (decide (0 ≤ d) && decide (d < 256))))) = true
  · have h' := h
    simp only [Bool.and_eq_true, decide_eq_true_eq] at h'
    have h2 : (decide (0 ≤ a) && decide (a < 256) && (decide (0 ≤ b) && decide (b < 256)) && (decide (0 ≤ c) && decide (c < 256)) && (decide (0 ≤ d) && decide (d < 256))) = true := by
      simp only [Bool.and_eq_true, decide_eq_true_eq]; omega
    rw [if_pos h, if_pos h2]
    obtain ⟨⟨ha0, _⟩, ⟨hb0, _⟩, ⟨hc0, _⟩, hd0, _⟩ := h'
    simp [Except.map]; omega
  · have h' := h
    simp only [Bool.and_eq_true, decide_eq_true_eq] at h'
    have h2 : ¬ (decide (0 ≤ a) && decide (a < 256) && (decide (0 ≤ b) && decide (b < 256)) && (decide (0 ≤ c) && decide (c < 256)) && (decide (0 ≤ d) && decide (d < 256))) = true := by
      simp only [Bool.and_eq_true, decide_eq_true_eq]; omega
    rw [if_neg h, if_neg h2]; rfl

theorem encode_number_eq (n : Int) :
    Src.Num.encode_number n = (Num.encode n).map (fun bs => bs.map Int.ofNat) := by
  unfold Src.Num.encode_number Num.encode Num.encodeRaw
  simp only [char_max, short_max, three_max, Num.CHAR_MAX, Num.SHORT_MAX, Num.THREE_MAX]
  by_cases h3 : n ≥ 16194277 <;> by_cases h2 : n ≥ 64009 <;> by_cases h1 : n ≥ 253 <;>
    simp only [h1, h2, h3, decide_true, decide_false, if_true, if_false, fdiv_pos _ 16194277 (by omega), fmod_pos _ 16194277 (by omega), fdiv_pos _ 64009 (by omega), fmod_pos _ 64009 (by omega),
    fdiv_pos _ 253 (by omega), fmod_pos _ 253 (by omega), mkBytes4] <;> rfl

theorem decode_number_eq (bs : Bytes) :
    Src.Num.decode_number (bs.map Int.ofNat) = .ok (Num.decode bs) := by
  unfold Src.Num.decode_number Num.decode
  simp only [char_max, short_max, three_max, Num.CHAR_MAX, Num.SHORT_MAX, Num.THREE_MAX]
  match bs with
  | [] =>
    have h : (min (Py.len (([] : Bytes).map Int.ofNat)) 4).toNat = 0 := by simp [Py.len]; omega
    simp only [Py.forRange, h]
    simp [Py.forRangeGo, Num.decodeAux]
  | [a] =>
    have h : (min (Py.len ([a].map Int.ofNat)) 4).toNat = 1 := by simp [Py.len]; omega
    simp only [Py.forRange, h]
    by_cases ha : (a : Int) = 254 <;>
      (have ha' : a = 254 ↔ (a : Int) = 254 := by omega
       simp [Py.forRangeGo, Src.Num.decode_number_loop1_body, char_max, short_max, three_max, Py.len, Num.decodeAux, Py.getItem, Py.normIndex, ha, ha'])
  | [a, b] =>
    have h : (min (Py.len ([a, b].map Int.ofNat)) 4).toNat = 2 := by simp [Py.len]; omega
    simp only [Py.forRange, h]
    by_cases ha : (a : Int) = 254 <;> by_cases hb : (b : Int) = 254 <;>
      (have ha' : a = 254 ↔ (a : Int) = 254 := by omega
       have hb' : b = 254 ↔ (b : Int) = 254 := by omega
       simp [Py.forRangeGo, Src.Num.decode_number_loop1_body, char_max, short_max, three_max, Py.len, Num.decodeAux, Py.getItem, Py.normIndex, ha, hb, ha', hb'])
  | [a, b, c] =>
    have h : (min (Py.len ([a, b, c].map Int.ofNat)) 4).toNat = 3 := by simp [Py.len]; omega
    simp only [Py.forRange, h]
    by_cases ha : (a : Int) = 254 <;> by_cases hb : (b : Int) = 254 <;> by_cases hc : (c : Int) = 254 <;>
      (have ha' : a = 254 ↔ (a : Int) = 254 := by omega
       have hb' : b = 254 ↔ (b : Int) = 254 := by omega
       have hc' : c = 254 ↔ (c : Int) = 254 := by omega
       simp [Py.forRangeGo, Src.Num.decode_number_loop1_body, char_max, short_max, three_max, Py.len, Num.decodeAux, Py.getItem, Py.normIndex, ha, hb, hc, ha', hb', hc']
       try omega)
  | a :: b :: c :: d :: rest =>
    have h : (min (Py.len ((a :: b :: c :: d :: rest).map Int.ofNat)) 4).toNat = 4 := by simp [Py.len]; omega
    simp only [Py.forRange, h]
    by_cases ha : (a : Int) = 254 <;> by_cases hb : (b : Int) = 254 <;> by_cases hc : (c : Int) = 254 <;> by_cases hd : (d : Int) = 254 <;>
      (have ha' : a = 254 ↔ (a : Int) = 254 := by omega
       have hb' : b = 254 ↔ (b : Int) = 254 := by omega
       have hc' : c = 254 ↔ (c : Int) = 254 := by omega
       have hd' : d = 254 ↔ (d : Int) = 254 := by omega
       have hz : Num.decodeAux rest [] = 0 := by cases rest <;> rfl
       have h0 : (0 : Int) < ↑rest.length + 1 + 1 + 1 + 1 := by omega
       have h1 : (1 : Int) < ↑rest.length + 1 + 1 + 1 + 1 := by omega
       have h2 : (2 : Int) < ↑rest.length + 1 + 1 + 1 + 1 := by omega
       have h3 : (3 : Int) < ↑rest.length + 1 + 1 + 1 + 1 := by omega
       simp [Py.forRangeGo, Src.Num.decode_number_loop1_body, char_max, short_max, three_max, Py.len, Num.decodeAux, Py.getItem, Py.normIndex, ha, hb, hc, hd, ha', hb', hc', hd', h0, h1, h2, h3, hz]
       try omega)

end EoVerif.SrcTie
