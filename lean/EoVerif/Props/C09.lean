import EoVerif.Model.Writer
import EoVerif.Lemmas.Writer
/-!
# C09 — EoWriter validates atomically and sanitises exactly when asked

Every theorem is stated for an arbitrary writer state `w` (i.e. the state after *any* history,
with any contents and either sanitisation mode) and an arbitrary operation.
-/
namespace EoVerif.Writer

/-- Number of bytes an accepted write appends. -/
def declared : Op → Nat
  | .addByte _ => 1
  | .addBytes bs => bs.length
  | .addChar _ => 1
  | .addShort _ => 2
  | .addThree _ => 3
  | .addInt _ => 4
  | .addString s => s.length
  | .addFixedString s length padded => if padded then length.toNat else s.length
  | .addEncodedString s => s.length
  | .addFixedEncodedString s length padded => if padded then length.toNat else s.length
  | .setSan _ => 0

/-- **Atomicity**: a rejected write leaves the writer exactly as it was (contents and mode). -/
theorem atomic (w : Writer) (op : Op) (e : PyErr) (h : (w.step op).2 = .error e) : (w.step op).1 = w := by
  cases op <;> simp only [step] at h ⊢
  case addByte v =>
    split at h
    · rfl
    · split at h
      · rename_i hv
        rw [if_pos hv]
      · cases h
  case addBytes bs => cases h
  case addChar n => exact addNumber_error_state _ _ _ _ _ h
  case addShort n => exact addNumber_error_state _ _ _ _ _ h
  case addThree n => exact addNumber_error_state _ _ _ _ _ h
  case addInt n => exact addNumber_error_state _ _ _ _ _ h
  case addString s => cases h
  case addFixedString s l p =>
    split at h
    · rfl
    · cases h
  case addEncodedString s => cases h
  case addFixedEncodedString s l p =>
    split at h
    · rfl
    · cases h
  case setSan b => cases h

/-- The only error a write raises is `ValueError`. -/
theorem only_value_error (w : Writer) (op : Op) (e : PyErr) (h : (w.step op).2 = .error e) : e = .ValueError := by
  cases op <;> simp only [step] at h
  case addByte v =>
    split at h
    · rename_i e' h1
      unfold checkNumberSize at h1
      split at h1
      · cases h1; cases h; rfl
      · cases h1
    · split at h
      · cases h; rfl
      · cases h
  case addBytes bs => cases h
  case addChar n => exact addNumber_error_value _ _ _ _ _ h
  case addShort n => exact addNumber_error_value _ _ _ _ _ h
  case addThree n => exact addNumber_error_value _ _ _ _ _ h
  case addInt n => exact addNumber_error_value _ _ _ _ _ h
  case addString s => cases h
  case addFixedString s l p =>
    split at h
    · rename_i e' h1
      cases h
      exact checkStringLength_error _ _ _ _ h1
    · cases h
  case addEncodedString s => cases h
  case addFixedEncodedString s l p =>
    split at h
    · rename_i e' h1
      cases h
      exact checkStringLength_error _ _ _ _ h1
    · cases h
  case setSan b => cases h

/-- Integers (`≥ 0`): rejected exactly when at or above the type's limit. -/
theorem int_rejects_iff (w : Writer) (n : Int) (h0 : 0 ≤ n) :
    ((w.step (.addByte n)).2 = .error .ValueError ↔ n ≥ 256) ∧
    ((w.step (.addChar n)).2 = .error .ValueError ↔ n ≥ 253) ∧
    ((w.step (.addShort n)).2 = .error .ValueError ↔ n ≥ 253 ^ 2) ∧
    ((w.step (.addThree n)).2 = .error .ValueError ↔ n ≥ 253 ^ 3) ∧
    ((w.step (.addInt n)).2 = .error .ValueError ↔ n ≥ 253 ^ 4) := by
  refine ⟨?_, ?_, ?_, ?_, ?_⟩
  · simp only [step, checkNumberSize]
    by_cases hn : n > 0xFF
    · simp only [hn, if_true]
      exact ⟨fun _ => by omega, fun _ => trivial⟩
    · have h1 : ¬ n < 0 := by omega
      simp only [hn, h1, if_false]
      constructor
      · intro h; cases h
      · intro _; omega
  · simp only [step]
    rw [addNumber_rejects_iff w n _ 1 h0 (by decide)]
    simp only [Num.CHAR_MAX]; omega
  · simp only [step]
    rw [addNumber_rejects_iff w n _ 2 h0 (by decide)]
    simp only [Num.SHORT_MAX, Int.reducePow]; omega
  · simp only [step]
    rw [addNumber_rejects_iff w n _ 3 h0 (by decide)]
    simp only [Num.THREE_MAX, Int.reducePow]; omega
  · simp only [step]
    rw [addNumber_rejects_iff w n _ 4 h0 (by decide)]
    simp only [Num.INT_MAX, Int.reducePow]; omega

/-- Strings: rejected exactly when the fixed length differs / the padded length is exceeded;
    the unbounded string writes, raw bytes and the mode setter are never rejected. -/
theorem string_rejects_iff (w : Writer) (s : Ansi.Str) (length : Int) (padded : Bool) :
    ((w.step (.addFixedString s length padded)).2 = .error .ValueError ↔
        (if padded then (s.length : Int) > length else (s.length : Int) ≠ length)) ∧
    ((w.step (.addFixedEncodedString s length padded)).2 = .error .ValueError ↔
        (if padded then (s.length : Int) > length else (s.length : Int) ≠ length)) ∧
    (w.step (.addString s)).2 = .ok () ∧ (w.step (.addEncodedString s)).2 = .ok () := by
  refine ⟨?_, ?_, rfl, rfl⟩
  · rw [← checkStringLength_error_iff]
    simp only [step]
    split
    · rename_i e h1
      rw [h1]
    · rename_i h1
      rw [h1]
  · rw [← checkStringLength_error_iff]
    simp only [step]
    split
    · rename_i e h1
      rw [h1]
    · rename_i h1
      rw [h1]

theorem bytes_and_mode_never_rejected (w : Writer) (bs : Bytes) (b : Bool) :
    (w.step (.addBytes bs)).2 = .ok () ∧ (w.step (.setSan b)).2 = .ok () := by
  exact ⟨rfl, rfl⟩

/-- Every accepted write appends exactly the declared number of bytes (and nothing else changes). -/
theorem appends_declared (w : Writer) (op : Op) (h : (w.step op).2 = .ok ()) :
    ∃ bs, (w.step op).1.data = w.data ++ bs ∧ bs.length = declared op := by
  cases op <;> simp only [step, declared] at h ⊢
  case addByte v =>
    split at h
    · cases h
    · split at h
      · cases h
      · rename_i hv
        rw [if_neg hv]
        exact ⟨_, rfl, rfl⟩
  case addBytes bs => exact ⟨_, rfl, rfl⟩
  case addChar n => exact addNumber_ok _ _ _ _ (by omega) h
  case addShort n => exact addNumber_ok _ _ _ _ (by omega) h
  case addThree n => exact addNumber_ok _ _ _ _ (by omega) h
  case addInt n => exact addNumber_ok _ _ _ _ (by omega) h
  case addString s => exact ⟨_, rfl, strBytes_length w s⟩
  case addFixedString s l p =>
    split at h
    · cases h
    · rename_i h1
      refine ⟨_, rfl, ?_⟩
      have h2 := checkStringLength_ok _ _ _ h1
      cases p
      · simp [strBytes_length]
      · simp only [if_true] at h2 ⊢
        exact addPadding_length _ _ (by rw [strBytes_length]; exact h2)
  case addEncodedString s =>
    exact ⟨_, rfl, by rw [Str.encode_length, strBytes_length]⟩
  case addFixedEncodedString s l p =>
    split at h
    · cases h
    · rename_i h1
      refine ⟨_, rfl, ?_⟩
      have h2 := checkStringLength_ok _ _ _ h1
      rw [Str.encode_length]
      cases p
      · simp [strBytes_length]
      · simp only [if_true] at h2 ⊢
        exact addPadding_length _ _ (by rw [strBytes_length]; exact h2)
  case setSan b => exact ⟨[], by simp, rfl⟩

/-- The mode changes only through its setter. -/
theorem mode_only_by_setter (w : Writer) (op : Op) :
    (w.step op).1.san = (match op with | .setSan b => b | _ => w.san) := by
  cases op <;> simp only [step]
  case addByte v =>
    split
    · rfl
    · split <;> rfl
  case addChar n => exact addNumber_san ..
  case addShort n => exact addNumber_san ..
  case addThree n => exact addNumber_san ..
  case addInt n => exact addNumber_san ..
  case addFixedString s l p => split <;> rfl
  case addFixedEncodedString s l p => split <;> rfl

/-- What a string write appends: the payload (`strBytes`), then 0xFF padding up to the length when
    padded; the whole EO-encoded for the encoded variants. -/
theorem string_write_shape (w : Writer) (s : Ansi.Str) (length : Int) (padded : Bool) :
    (w.step (.addString s)).1.data = w.data ++ w.strBytes s ∧
    (w.step (.addEncodedString s)).1.data = w.data ++ Str.encode (w.strBytes s) ∧
    ((w.step (.addFixedString s length padded)).2 = .ok () →
      (w.step (.addFixedString s length padded)).1.data =
        w.data ++ (w.strBytes s ++ if padded then List.replicate (length.toNat - s.length) 0xFF else [])) ∧
    ((w.step (.addFixedEncodedString s length padded)).2 = .ok () →
      (w.step (.addFixedEncodedString s length padded)).1.data =
        w.data ++ Str.encode (w.strBytes s ++ if padded then List.replicate (length.toNat - s.length) 0xFF else [])) := by
  refine ⟨rfl, rfl, ?_, ?_⟩
  · intro h
    simp only [step] at h ⊢
    split at h
    · cases h
    · cases padded
      · simp
      · simp only [if_true, addPadding_eq, strBytes_length]
  · intro h
    simp only [step] at h ⊢
    split at h
    · cases h
    · cases padded
      · simp
      · simp only [if_true, addPadding_eq, strBytes_length]

/-- With sanitisation on, the payload has one byte per character, contains no 0xFF, and is the
    windows-1252 image with each ÿ (0xFF) replaced by `y` (0x79). -/
theorem sanitised_payload (w : Writer) (s : Ansi.Str) (h : w.san = true) :
    (w.strBytes s).length = s.length ∧ 0xFF ∉ w.strBytes s ∧
    w.strBytes s = (Ansi.encode s).map (fun b => if b = 0xFF then 0x79 else b) := by
  refine ⟨strBytes_length w s, ?_, ?_⟩
  · simp only [strBytes, sanitize, h, if_true, List.mem_map, not_exists, not_and]
    intro b _
    split <;> omega
  · simp only [strBytes, sanitize, h, if_true]

/-- With sanitisation off, the payload is the exact windows-1252 image. -/
theorem unsanitised_payload (w : Writer) (s : Ansi.Str) (h : w.san = false) :
    w.strBytes s = Ansi.encode s := by
  simp [strBytes, sanitize, h]

/-- Contents only ever grow by appending: any history keeps the old contents as a prefix. -/
theorem run_prefix (w : Writer) (ops : List Op) : ∃ bs, (w.run ops).data = w.data ++ bs := by
  induction ops generalizing w with
  | nil => exact ⟨[], by simp [run]⟩
  | cons op ops ih =>
    obtain ⟨bs1, h1⟩ := step_prefix w op
    obtain ⟨bs2, h2⟩ := ih (w.step op).1
    exact ⟨bs1 ++ bs2, by simp only [run]; rw [h2, h1, List.append_assoc]⟩

/-! Non-vacuity / sanity (tests, labelled as such). -/
example : ((Writer.mk [1, 2] true).step (.addChar 253)) = (Writer.mk [1, 2] true, .error .ValueError) := by decide
example : ((Writer.mk [1] true).step (.addFixedString [0xFF, 0x41] 4 true)).1.data = [1, 0x79, 0x41, 0xFF, 0xFF] := by decide
example : ((Writer.mk [] false).step (.addString [0xFF, 0x20AC, 0x394])).1.data = [0xFF, 0x80, 0x3F] := by decide

end EoVerif.Writer
