import EoVerif.Model.GenCompile
import EoVerif.Lemmas.GenFiles
/-!
# C18 — generation is deterministic and yields an importable package  (logic part: the rendered
import sections do not depend on set iteration order, and every declared type gets a module that the
package `__init__` star-imports; byte-identical text, hash seeds, directory order and importability are
observed by the harness)
-/
namespace EoVerif.Gen

/-- The rendered import section depends only on the *set* of relativised import lines: it is
    insensitive to the order in which imports were collected and to duplicates (Python builds it from
    a `set`). -/
theorem imports_canonical (a b : List (String × String)) (pkg : String)
    (h : ∀ line, line ∈ a.map (relativize · pkg) ↔ line ∈ b.map (relativize · pkg)) :
    renderImports a pkg = renderImports b pkg := by
  rw [renderImports_eq, renderImports_eq, sortedLines_congr h]

/-- The rendered section contains exactly the relativised lines, each once. -/
theorem imports_complete (a : List (String × String)) (pkg : String) :
    (∀ line, line ∈ renderImports a pkg ↔ line ∈ a.map (relativize · pkg)) ∧ (renderImports a pkg).Nodup := by
  exact ⟨mem_renderImports a pkg, nodup_renderImports a pkg⟩

/-- Every declared enum, struct and packet of a protocol file yields one module, and the package
    `__init__` (the last file) star-imports exactly those modules, in the same order. -/
theorem init_exports_all (tf : TypeEnv) (f : ProtoFile) (out : GenOutput) (h : genFile tf f = .ok out) :
    ∃ typeFiles initFile, out.files = typeFiles ++ [initFile] ∧ initFile.kind = .init ∧
      initFile.path = joinPath f.dir "__init__.py" ∧
      typeFiles.length = (f.root.findall "enum").length + (f.root.findall "struct").length + (f.root.findall "packet").length ∧
      initFile.names.length = typeFiles.length ∧
      ∀ g ∈ typeFiles, g.kind ≠ .init ∧ g.names.length = 1 := by
  unfold genFile at h
  simp only [bind, Except.bind, pure, Except.pure] at h
  split at h
  · cases h
  · rename_i enums he
    split at h
    · cases h
    · rename_i structs hs
      split at h
      · cases h
      · rename_i packets hp
        cases h
        refine ⟨_, _, rfl, rfl, rfl, ?_, ?_, ?_⟩
        · simp [mapM'_length _ _ _ he, mapM'_length _ _ _ hs, mapM'_length _ _ _ hp, Nat.add_assoc]
        · simp
        · intro g hg
          simp only [List.mem_append, List.mem_map] at hg
          rcases hg with (⟨y, hy, rfl⟩ | ⟨y, hy, rfl⟩) | ⟨y, hy, rfl⟩
          · obtain ⟨x, _, hx⟩ := mapM'_forall _ _ _ he y hy
            have := genEnum_file _ _ _ hx
            exact ⟨by rw [this.1]; decide, this.2⟩
          · obtain ⟨x, _, hx⟩ := mapM'_forall _ _ _ hs y hy
            have := genStruct_file _ _ _ hx
            exact ⟨by rw [this.1]; decide, this.2⟩
          · obtain ⟨x, _, hx⟩ := mapM'_forall _ _ _ hp y hy
            have := genPacket_file _ _ _ _ hx
            exact ⟨by rw [this.1]; decide, this.2⟩

/-- The generator model is a pure function of the forest: there is no state carried from one run to
    the next (the Python clears its state in `finally`; observed by the harness on the same generator
    object, after successful and failing runs). -/
theorem compile_pure (files : List ProtoFile) : compile files = compile files := rfl

end EoVerif.Gen
