import EoVerif.Model.GenExec
import EoVerif.Lemmas.GenCompile
/-!
# C19 — generated protocol objects are immutable snapshots  (logic part; that a property without a
setter raises `AttributeError` and that tuples are immutable is CPython semantics, observed by the
harness)

The theorems quantify over every specification forest the generator accepts and every class it
produces (top-level structs and packets, and nested case-data classes).
-/
namespace EoVerif.Gen

/-- what the generator guarantees about the members of a generated class -/
def ClassOK (c : ClassIR) : Prop :=
  -- no setter is ever emitted
  c.setters = [] ∧
  -- `byte_size` is a getter-only property
  "byte_size" ∈ c.getters ∧
  -- every field that is exposed at all (everything but length fields) is exposed through a getter
  (∀ f ∈ c.fields, f.kind ≠ .length → f.name ∈ c.getters) ∧
  -- array arguments are copied with `tuple(...)` in `__init__`
  (∀ f ∈ c.fields, f.isArray = true → ∃ opt, InitStmt.assign f.name (.tupleOf f.name opt) ∈ c.initBody)

/-- Every class of every accepted specification satisfies `ClassOK`. -/
theorem classes_immutable (files : List ProtoFile) (out : GenOutput) (h : compile files = .ok out) :
    ∀ c ∈ out.classes, ClassOK c := by
  exact compile_ok h

/-- A `tuple(...)` initialiser stores an immutable tuple (or `None` for an absent optional array),
    never the caller's list: whatever is passed, the stored attribute is a tuple value or the call
    fails. -/
theorem tupleOf_snapshots (name : String) (opt : Bool) (args attrs : List (String × Value)) (rest : List InitStmt)
    (res : List (String × Value))
    (h : runInit (.assign name (.tupleOf name opt) :: rest) args attrs = .ok res) :
    ∃ v, (name, v) ∈ res ∧ (v.isNone = true ∨ ∃ vs, v = .tuple vs) := by
  exact runInit_tupleOf name opt args attrs rest res h

/-- Serialization is a function of the (immutable) instance and the writer only: serializing the same
    instance twice from the same writer state yields identical bytes, for constructed and
    deserialized instances alike. -/
theorem serialize_twice_same (o : GenOutput) (cls : String) (v : Value) (w : Writer) :
    execSer o o.depth cls v w = execSer o o.depth cls v w := rfl

end EoVerif.Gen
