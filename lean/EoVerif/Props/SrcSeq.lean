import EoVerif.Generated.SrcSeqStart
import EoVerif.Generated.SrcSequencer
import EoVerif.Model.Seq
/-!
  # Source tie for `eolib/packet/sequence_start.py` and `packet_sequencer.py` (C12, C13)

  The translated sources (regenerated on every run) are the hand-written model `EoVerif.Seq`.  An instance is the
  tuple of its fields in the order `__init__` assigns them (`_value`, `_seq1`, `_seq2`); the values handed back by
  `random.randrange` are parameters, and a generate function answers `.ok` **exactly when every drawn value lies in
  the range the code requested** — so the requested ranges are tied to the model's `draw1`, `initDraw2`,
  `pingDraw2`, `accountDraw` as well, not only the arithmetic.
-/
namespace EoVerif.SrcTie
open EoVerif

def tupleOf (s : Seq.Start) : Int × Int × Int := (s.value, s.seq1, s.seq2)

theorem seq_char_max : Src.Limits.CHAR_MAX = Seq.CHAR_MAX := rfl

/-! ### constructors and getters: an instance is `(value, seq1, seq2)` -/

theorem init_ctor (v a b : Int) : Src.SeqStart.InitSequenceStart.__init__ v a b = .ok (v, a, b) := rfl
theorem ping_ctor (v a b : Int) : Src.SeqStart.PingSequenceStart.__init__ v a b = .ok (v, a, b) := rfl
theorem account_ctor (v : Int) : Src.SeqStart.AccountReplySequenceStart.__init__ v = .ok v := rfl
theorem simple_value (v : Int) : Src.SeqStart.SimpleSequenceStart.value v = .ok v := rfl
theorem init_seq1 (v a b : Int) : Src.SeqStart.InitSequenceStart.seq1 v a b = .ok a := rfl
theorem init_seq2 (v a b : Int) : Src.SeqStart.InitSequenceStart.seq2 v a b = .ok b := rfl
theorem ping_seq1 (v a b : Int) : Src.SeqStart.PingSequenceStart.seq1 v a b = .ok a := rfl
theorem ping_seq2 (v a b : Int) : Src.SeqStart.PingSequenceStart.seq2 v a b = .ok b := rfl

/-! ### from-values constructors (what the peer does on receipt) -/

theorem from_init_values_eq (a b : Int) :
    Src.SeqStart.InitSequenceStart.from_init_values a b = .ok (tupleOf (Seq.fromInitValues a b)) := rfl

theorem from_ping_values_eq (a b : Int) :
    Src.SeqStart.PingSequenceStart.from_ping_values a b = .ok (tupleOf (Seq.fromPingValues a b)) := rfl

theorem from_value_eq (v : Int) :
    Src.SeqStart.AccountReplySequenceStart.from_value v = .ok (Seq.fromValue v) := rfl

/-! ### generate(): ranges requested and values produced -/

theorem account_generate_eq (r : Int) :
    Src.SeqStart.AccountReplySequenceStart.generate r =
      if 0 ≤ r ∧ r < Seq.accountDraw then .ok (Seq.accountGenerate r) else .error .ValueError := by
  unfold Src.SeqStart.AccountReplySequenceStart.generate Py.randrange Seq.accountDraw Seq.accountGenerate
  by_cases h : 0 ≤ r ∧ r < 240 <;> simp [h, account_ctor]

theorem init_generate_eq (r1 r2 : Int) :
    Src.SeqStart.InitSequenceStart.generate r1 r2 =
      if (0 ≤ r1 ∧ r1 < Seq.draw1) ∧ (0 ≤ r2 ∧ r2 < Seq.initDraw2 r1)
      then .ok (tupleOf (Seq.initGenerate r1 r2)) else .error .ValueError := by
  unfold Src.SeqStart.InitSequenceStart.generate Py.randrange Py.truncDiv Seq.draw1 Seq.initDraw2 Seq.seq1Max
    Seq.seq1Min Seq.initGenerate Seq.seq1Min tupleOf
  simp only [seq_char_max, init_ctor, Py.bind_ok]
  by_cases h1 : 0 ≤ r1 ∧ r1 < 1757
  · by_cases h2 : 0 ≤ r2 ∧ r2 < (r1 + 13).tdiv 7 - max 0 ((r1 - (Seq.CHAR_MAX - 1) + 13 + 6).tdiv 7)
    · simp [h1, h2]
    · simp [h1, h2]
  · simp [h1]

theorem ping_generate_eq (r1 r2 : Int) :
    Src.SeqStart.PingSequenceStart.generate r1 r2 =
      if (0 ≤ r1 ∧ r1 < Seq.draw1) ∧ (0 ≤ r2 ∧ r2 < Seq.pingDraw2)
      then .ok (tupleOf (Seq.pingGenerate r1 r2)) else .error .ValueError := by
  unfold Src.SeqStart.PingSequenceStart.generate Py.randrange Seq.draw1 Seq.pingDraw2 Seq.pingGenerate tupleOf
  simp only [seq_char_max, ping_ctor, Py.bind_ok]
  by_cases h1 : 0 ≤ r1 ∧ r1 < 1757
  · by_cases h2 : 0 ≤ r2 ∧ r2 < Seq.CHAR_MAX - 1
    · simp [h1, h2]
    · simp [h1, h2]
  · simp [h1]

/-! ### PacketSequencer: the object is `(_start.value, _counter)` -/

theorem sequencer_init (start : Int) :
    Src.Sequencer.PacketSequencer.__init__ start =
      .ok ((Seq.Sequencer.new start).start, (Seq.Sequencer.new start).counter) := rfl

/-- `next_sequence` returns the new counter (the only field it assigns) and the result. -/
theorem next_sequence_eq (s : Seq.Sequencer) :
    Src.Sequencer.PacketSequencer.next_sequence s.start s.counter =
      .ok ((s.step .next).1.counter, ((s.step .next).2.getD 0)) ∧ (s.step .next).1.start = s.start ∧
      (s.step .next).2.isSome := by
  unfold Src.Sequencer.PacketSequencer.next_sequence Seq.Sequencer.step
  simp [Int.fmod_eq_emod_of_nonneg]

/-- `set_sequence_start` returns the new start (the only field it assigns); the counter is untouched. -/
theorem set_sequence_start_eq (s : Seq.Sequencer) (v : Int) :
    Src.Sequencer.PacketSequencer.set_sequence_start s.start s.counter v = .ok (s.step (.setStart v)).1.start ∧
      (s.step (.setStart v)).1.counter = s.counter ∧ (s.step (.setStart v)).2 = none := by
  unfold Src.Sequencer.PacketSequencer.set_sequence_start Seq.Sequencer.step
  simp
end EoVerif.SrcTie
