import EoVerif.Model.GenCompile
import EoVerif.Spec.WellFormed
import EoVerif.Lemmas.GenWF
/-!
# C17 — the generator rejects ill-formed specifications  (the context-sensitive rules, proved for
every specification and every placement; type-level rules are tied by the correspondence, see
DESIGN §3 C17)
-/
namespace EoVerif.Gen
open EoVerif.Spec EoVerif.Gen.WF

/-- the generator's context and the declarative context of the same position agree -/
def Agree (ctx : Ctx) (w : WCtx) : Prop :=
  ctx.chunked = w.chunked ∧ ctx.reachedOptional = w.afterOptional ∧ ctx.reachedDummy = w.afterDummy ∧
  (∀ n, (ctx.field? n).isSome = w.names.contains n) ∧
  (∀ n, ctx.lenRef? n = w.lenState n) ∧
  (∀ n, (w.lenState n).isSome = true → w.names.contains n = true)

/-- **Body level**: whenever the generator gets through a body — from any generator context that agrees
    with the declarative context of that position, with any type environment — the body satisfies the
    declarative rules from that position, and the contexts agree again afterwards.  (Contrapositive: a
    body that breaks a rule at *any* nesting level — top level, inside `<chunked>`, inside a switch
    case, inside a case inside a chunked section — makes the generator fail.) -/
theorem body_ok_wf (tf : TypeEnv) (ctx : Ctx) (d : Data) (cs : List Xml) (only : Bool) (ctx' : Ctx) (d' : Data)
    (w : WCtx) (hagree : Agree ctx w) (h : genBody tf ctx d cs only = .ok (ctx', d')) :
    ∃ w', wfBody w cs only = some w' ∧ Agree ctx' w' := by
  obtain ⟨w', hw, ha, _⟩ := body_sim tf cs only ctx d ctx' d' w hagree h
  exact ⟨w', hw, ha⟩

/-- **Specification level**: if the generator accepts a forest, every struct and packet in it is
    well-formed. Equivalently: an ill-formed struct or packet anywhere in any file is rejected. -/
theorem rejects_ill_formed (files : List ProtoFile) (f : ProtoFile) (hf : f ∈ files) (e : Xml)
    (he : e ∈ f.root.findall "struct" ∨ e ∈ f.root.findall "packet") (hbad : wfClass e = false) :
    ∃ m, compile files = .error m := by
  cases hc : compile files with
  | error m => exact ⟨m, rfl⟩
  | ok out =>
    have := compile_wfClass hc hf he
    rw [hbad] at this
    cases this

/-! Non-vacuity: concrete ill-formed bodies at different placements (tests, labelled as such). -/
private def fld (n : String) (extra : List (String × String) := []) : Xml :=
  .mk "field" ([("name", n), ("type", "char")] ++ extra) none none []
example : wfClass (.mk "struct" [("name", "S")] none none [fld "a", .mk "break" [] none none []]) = false := by decide
example : wfClass (.mk "struct" [("name", "S")] none none
    [.mk "chunked" [] none none [fld "a", .mk "break" [] none none [], fld "b" [("optional", "true")], fld "c"]]) = false := by decide
example : wfClass (.mk "struct" [("name", "S")] none none
    [fld "k", .mk "switch" [("field", "k")] none none
      [.mk "case" [("value", "1")] none none [fld "x" [("optional", "true")], fld "y"]]]) = false := by decide
example : wfClass (.mk "struct" [("name", "S")] none none
    [.mk "chunked" [] none none [fld "k", .mk "switch" [("field", "k")] none none
      [.mk "case" [("value", "1")] none none [fld "x", .mk "break" [] none none []]]]]) = true := by decide

end EoVerif.Gen
