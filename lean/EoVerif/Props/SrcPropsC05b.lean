import EoVerif.Props.SrcReader
import EoVerif.Props.C05
/-!
  # C05 (whole histories), stated about the translated source

  `srcStep` dispatches one reader operation to the **translated** method of `EoReader` and threads the five fields
  `(_data, _position, _chunked_reading_mode, _chunk_start, _next_break)` exactly as the method returns them (a method
  returns the fields it assigns and its value; the other fields stay).  `srcRunOut` runs a whole history; a call that
  raises contributes its exception and the run goes on from the fields the call was entered with (the translation has
  no state at a raise: in the source both raise sites — the negative-length check and the "not in chunked mode" check —
  come before any assignment; the behavioural correspondence of C05 observes that on the real object).

  * `srcStep_eq`: on every state satisfying the representation invariant, one translated step is `Reader.step`.
  * `src_run_eq`: a whole history over the translated methods, from the fields `__init__` assigns, is `Reader.runOut`.
  * `src_run_documented` (**C05 about the source**): for every data and every finite history, the values returned by the
    translated reader are exactly those of the *documented* cache-free chunked-reading model `AReader`, and the final
    position / mode / chunk start are the documented model's; the position never leaves the data.
-/
namespace EoVerif.SrcProps
open EoVerif SrcTie Reader

/-- what a translated call hands back (byte strings are lists of Python ints there) -/
inductive SVal where
  | none | int (v : Int) | bytes (bs : List Int) | str (s : Ansi.Str)
  deriving Repr, DecidableEq

def toS : Val → SVal
  | .none => .none | .int v => .int v | .bytes bs => .bytes (ofBytes bs) | .str s => .str s

/-- the five fields of a translated `EoReader` -/
abbrev RS := List Int × Int × Bool × Int × Int

def rview (r : Reader) : RS := (ofBytes r.data, (r.pos : Int), r.chunked, (r.chunkStart : Int), r.nextBreak)

open Src.Reader in
/-- one operation through the translated methods -/
def srcStep : RS → Op → Py.M (RS × SVal)
  | (d, p, c, cs, nb), .getByte =>
    Py.bind (EoReader.get_byte d p c cs nb) fun (x : Int × Int) => .ok ((d, x.1, c, cs, nb), .int x.2)
  | (d, p, c, cs, nb), .getBytes n =>
    Py.bind (EoReader.get_bytes d p c cs nb (n : Int)) fun (x : Int × List Int) => .ok ((d, x.1, c, cs, nb), .bytes x.2)
  | (d, p, c, cs, nb), .getChar =>
    Py.bind (EoReader.get_char d p c cs nb) fun (x : Int × Int) => .ok ((d, x.1, c, cs, nb), .int x.2)
  | (d, p, c, cs, nb), .getShort =>
    Py.bind (EoReader.get_short d p c cs nb) fun (x : Int × Int) => .ok ((d, x.1, c, cs, nb), .int x.2)
  | (d, p, c, cs, nb), .getThree =>
    Py.bind (EoReader.get_three d p c cs nb) fun (x : Int × Int) => .ok ((d, x.1, c, cs, nb), .int x.2)
  | (d, p, c, cs, nb), .getInt =>
    Py.bind (EoReader.get_int d p c cs nb) fun (x : Int × Int) => .ok ((d, x.1, c, cs, nb), .int x.2)
  | (d, p, c, cs, nb), .getString =>
    Py.bind (EoReader.get_string d p c cs nb) fun (x : Int × List Nat) => .ok ((d, x.1, c, cs, nb), .str x.2)
  | (d, p, c, cs, nb), .getFixedString l pad =>
    Py.bind (EoReader.get_fixed_string d p c cs nb l pad) fun (x : Int × List Nat) => .ok ((d, x.1, c, cs, nb), .str x.2)
  | (d, p, c, cs, nb), .getEncodedString =>
    Py.bind (EoReader.get_encoded_string d p c cs nb) fun (x : Int × List Nat) => .ok ((d, x.1, c, cs, nb), .str x.2)
  | (d, p, c, cs, nb), .getFixedEncodedString l pad =>
    Py.bind (EoReader.get_fixed_encoded_string d p c cs nb l pad) fun (x : Int × List Nat) =>
      .ok ((d, x.1, c, cs, nb), .str x.2)
  | (d, p, c, cs, nb), .setChunked b =>
    Py.bind (EoReader.chunked_reading_mode_setter d p c cs nb b) fun (x : Bool × Int) => .ok ((d, p, x.1, cs, x.2), .none)
  | (d, p, c, cs, nb), .nextChunk =>
    Py.bind (EoReader.next_chunk d p c cs nb) fun (x : Int × Int × Int) => .ok ((d, x.1, c, x.2.1, x.2.2), .none)

/-- the outcome of one model step, as the translated side renders it -/
def stepView (x : Reader × Except PyErr Val) : Py.M (RS × SVal) :=
  match x.2 with
  | .ok v => .ok (rview x.1, toS v)
  | .error e => .error e

/-! the fields a model read leaves alone -/
theorem readBytes_frame (r : Reader) (n : Nat) :
    (r.readBytes n).1.data = r.data ∧ (r.readBytes n).1.chunked = r.chunked ∧
    (r.readBytes n).1.chunkStart = r.chunkStart ∧ (r.readBytes n).1.nextBreak = r.nextBreak := by
  simp [Reader.readBytes]

theorem readByte_frame (r : Reader) :
    (r.readByte).1.data = r.data ∧ (r.readByte).1.chunked = r.chunked ∧
    (r.readByte).1.chunkStart = r.chunkStart ∧ (r.readByte).1.nextBreak = r.nextBreak := by
  unfold Reader.readByte; split <;> simp

/-- **one step of the translated reader is one step of the model** (under the representation invariant) -/
theorem srcStep_eq (r : Reader) (h : RInv r) (op : Op) : srcStep (rview r) op = stepView (r.step op) := by
  cases op with
  | getByte =>
    obtain ⟨v, hv, hs⟩ := get_byte_eq r h
    obtain ⟨f1, f2, f3, f4⟩ := readByte_frame r
    simp only [srcStep, rview, hs, Py.bind_ok, stepView, hv, toS]
    simp only [Reader.step] at f1 f2 f3 f4 ⊢
    simp [f1, f2, f3, f4]
  | getBytes n =>
    obtain ⟨bs, hv, hs⟩ := get_bytes_eq r h n
    obtain ⟨f1, f2, f3, f4⟩ := readBytes_frame r n
    simp only [srcStep, rview, hs, Py.bind_ok, stepView, hv, toS]
    simp only [Reader.step] at f1 f2 f3 f4 ⊢
    simp [f1, f2, f3, f4]
  | getChar =>
    obtain ⟨v, hv, hs⟩ := get_char_eq r h
    obtain ⟨f1, f2, f3, f4⟩ := readBytes_frame r 1
    simp only [srcStep, rview, hs, Py.bind_ok, stepView, hv, toS]
    simp only [Reader.step] at f1 f2 f3 f4 ⊢
    simp [f1, f2, f3, f4]
  | getShort =>
    obtain ⟨v, hv, hs⟩ := get_short_eq r h
    obtain ⟨f1, f2, f3, f4⟩ := readBytes_frame r 2
    simp only [srcStep, rview, hs, Py.bind_ok, stepView, hv, toS]
    simp only [Reader.step] at f1 f2 f3 f4 ⊢
    simp [f1, f2, f3, f4]
  | getThree =>
    obtain ⟨v, hv, hs⟩ := get_three_eq r h
    obtain ⟨f1, f2, f3, f4⟩ := readBytes_frame r 3
    simp only [srcStep, rview, hs, Py.bind_ok, stepView, hv, toS]
    simp only [Reader.step] at f1 f2 f3 f4 ⊢
    simp [f1, f2, f3, f4]
  | getInt =>
    obtain ⟨v, hv, hs⟩ := get_int_eq r h
    obtain ⟨f1, f2, f3, f4⟩ := readBytes_frame r 4
    simp only [srcStep, rview, hs, Py.bind_ok, stepView, hv, toS]
    simp only [Reader.step] at f1 f2 f3 f4 ⊢
    simp [f1, f2, f3, f4]
  | getString =>
    obtain ⟨s, hv, hs⟩ := get_string_eq r h
    obtain ⟨f1, f2, f3, f4⟩ := readBytes_frame r r.remaining.toNat
    simp only [srcStep, rview, hs, Py.bind_ok, stepView, hv, toS]
    simp only [Reader.step] at f1 f2 f3 f4 ⊢
    simp [f1, f2, f3, f4]
  | getEncodedString =>
    obtain ⟨s, hv, hs⟩ := get_encoded_string_eq r h
    obtain ⟨f1, f2, f3, f4⟩ := readBytes_frame r r.remaining.toNat
    simp only [srcStep, rview, hs, Py.bind_ok, stepView, hv, toS]
    simp only [Reader.step] at f1 f2 f3 f4 ⊢
    simp [f1, f2, f3, f4]
  | getFixedString l pad =>
    have hs := get_fixed_string_eq r h l pad
    simp only [srcStep, rview, hs, stepView]
    by_cases hl : l < 0
    · simp [Reader.step, hl]
    · obtain ⟨f1, f2, f3, f4⟩ := readBytes_frame r l.toNat
      simp [Reader.step, hl, toS, f1, f2, f3, f4]
  | getFixedEncodedString l pad =>
    have hs := get_fixed_encoded_string_eq r h l pad
    simp only [srcStep, rview, hs, stepView]
    by_cases hl : l < 0
    · simp [Reader.step, hl]
    · obtain ⟨f1, f2, f3, f4⟩ := readBytes_frame r l.toNat
      simp [Reader.step, hl, toS, f1, f2, f3, f4]
  | setChunked b =>
    obtain ⟨hs, f1, f2, f3, hv⟩ := chunked_setter_eq r h b
    simp only [srcStep, rview, hs, Py.bind_ok, stepView, hv, toS, f1, f2, f3]
  | nextChunk =>
    have hs := next_chunk_eq r h
    simp only [srcStep, rview, hs, stepView]
    by_cases hc : r.chunked = true
    · simp [Reader.step, hc, toS]
    · have hc' : r.chunked = false := by simpa using hc
      simp [Reader.step, hc']

/-- a whole history through the translated methods; a raising call leaves the fields as they were -/
def srcRunOut : RS → List Op → RS × List (Except PyErr SVal)
  | st, [] => (st, [])
  | st, op :: ops =>
    match srcStep st op with
    | .ok (st', v) => let (s'', outs) := srcRunOut st' ops; (s'', .ok v :: outs)
    | .error e => let (s'', outs) := srcRunOut st ops; (s'', .error e :: outs)

def outS (o : Except PyErr Val) : Except PyErr SVal :=
  match o with | .ok v => .ok (toS v) | .error e => .error e

theorem src_run_gen (ops : List Op) : ∀ (r : Reader), Reader.Inv r →
    srcRunOut (rview r) ops = (rview (r.runOut ops).1, (r.runOut ops).2.map outS) := by
  induction ops with
  | nil => intro r _; simp [srcRunOut, Reader.runOut]
  | cons op ops ih =>
    intro r h
    have hstep := srcStep_eq r h op
    have hinv : Reader.Inv (r.step op).1 := (Reader.step_refines r h op).2.2
    cases hres : (r.step op).2 with
    | ok v =>
      simp only [stepView, hres] at hstep
      simp only [srcRunOut, hstep, ih _ hinv, Reader.runOut, List.map_cons, outS, hres]
    | error e =>
      have hsame : (r.step op).1 = r := (Reader.errors_only r op e hres).1
      simp only [stepView, hres] at hstep
      have ih' := ih _ hinv
      rw [hsame] at ih'
      simp only [srcRunOut, hstep, ih', Reader.runOut, List.map_cons, outS, hres, hsame]

/-- the fields the translated `__init__` assigns are the fresh model reader -/
theorem src_init_rview (data : Bytes) :
    Src.Reader.EoReader.__init__ (ofBytes data) = .ok (rview (Reader.new data)) := init_reader_eq data

/-- a whole history of the translated reader, from a fresh instance, is the model's run -/
theorem src_run_eq (data : Bytes) (ops : List Op) :
    srcRunOut (rview (Reader.new data)) ops =
      (rview ((Reader.new data).runOut ops).1, ((Reader.new data).runOut ops).2.map outS) :=
  src_run_gen ops _ (Reader.inv_new data)

/-- **C05 about the translated source, for every data and every finite history**: the translated reader returns what
    the documented chunked-reading model returns, ends where it ends, in its mode, and never leaves the data -/
theorem src_run_documented (data : Bytes) (ops : List Op) :
    let a := (AReader.mk data 0 false 0).runOut ops
    ∃ nb : Int, srcRunOut (rview (Reader.new data)) ops =
        ((ofBytes data, (a.1.pos : Int), a.1.chunked, (a.1.chunkStart : Int), nb), a.2.map outS) ∧
      a.1.pos ≤ data.length := by
  intro a
  obtain ⟨hout, habs, _⟩ := Reader.run_refines data ops
  obtain ⟨hdata, hpos, _, _⟩ := Reader.stays_inside data ops
  refine ⟨((Reader.new data).runOut ops).1.nextBreak, ?_, ?_⟩
  · rw [src_run_eq, hout]
    have hp : a.1.pos = ((Reader.new data).runOut ops).1.pos := by rw [← habs]; rfl
    have hc : a.1.chunked = ((Reader.new data).runOut ops).1.chunked := by rw [← habs]; rfl
    have hcs : a.1.chunkStart = ((Reader.new data).runOut ops).1.chunkStart := by rw [← habs]; rfl
    simp only [rview, hp, hc, hcs, hdata]
    rfl
  · have hp : a.1.pos = ((Reader.new data).runOut ops).1.pos := by rw [← habs]; rfl
    rw [hp]; exact hpos

/-- **exhausted reads of the translated reader**: with nothing remaining (end of data, or end of the chunk in chunked mode)
    every translated read returns 0 / the empty value and leaves all five fields as they were -/
theorem src_exhausted_reads (r : Reader) (h : Reader.Inv r) (h0 : r.remaining = 0) (n : Nat) (l : Int) (hl : 0 ≤ l) (p : Bool) :
    srcStep (rview r) .getByte = .ok (rview r, .int 0) ∧ srcStep (rview r) (.getBytes n) = .ok (rview r, .bytes []) ∧
    srcStep (rview r) .getChar = .ok (rview r, .int 0) ∧ srcStep (rview r) .getShort = .ok (rview r, .int 0) ∧
    srcStep (rview r) .getThree = .ok (rview r, .int 0) ∧ srcStep (rview r) .getInt = .ok (rview r, .int 0) ∧
    srcStep (rview r) .getString = .ok (rview r, .str []) ∧ srcStep (rview r) .getEncodedString = .ok (rview r, .str []) ∧
    srcStep (rview r) (.getFixedString l p) = .ok (rview r, .str []) ∧
    srcStep (rview r) (.getFixedEncodedString l p) = .ok (rview r, .str []) := by
  obtain ⟨e1, e2, e3, e4, e5, e6, e7, e8, e9, e10⟩ := Reader.exhausted_reads r h h0 n l hl p
  simp only [srcStep_eq r h, e1, e2, e3, e4, e5, e6, e7, e8, e9, e10, stepView, toS, ofBytes, List.map_nil, and_self]

/-- non-vacuity: a concrete chunked history through the translated methods -/
example : (srcRunOut (rview (Reader.new [2, 3, 255, 4])) [.setChunked true, .getShort, .getChar, .nextChunk, .getChar]).2
    = [.ok .none, .ok (.int 507), .ok (.int 0), .ok .none, .ok (.int 3)] := by decide

end EoVerif.SrcProps
