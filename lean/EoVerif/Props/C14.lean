import EoVerif.Model.Enum
import EoVerif.Model.GenExec
/-!
# C14 — protocol enums accept every integer and keep its value  (logic part; the CPython `enum`
machinery itself is observed by the harness, see DESIGN §5)
-/
namespace EoVerif.Enum

/-- Construction is total and value-preserving: whatever the integer, the instance converts back to
    that same integer. -/
theorem construct_keeps_value (d : Decl) (n : Int) : (construct d n).toInt = n := by
  unfold construct
  split
  · rename_i name ord h
    have := List.find?_some h
    simp at this
    simp [Inst.toInt, Inst.value, this]
  · rfl

private theorem find_unique (ms : List (String × Int)) (hnd : (ms.map (·.2)).Nodup) (name : String) (ord : Int)
    (h : (name, ord) ∈ ms) : ms.find? (·.2 == ord) = some (name, ord) := by
  induction ms with
  | nil => cases h
  | cons x xs ih =>
    simp only [List.map_cons, List.nodup_cons] at hnd
    rcases List.mem_cons.mp h with e | h'
    · subst e; simp
    · have hne : x.2 ≠ ord := by
        intro e
        exact hnd.1 (e ▸ List.mem_map_of_mem (f := (·.2)) h')
      rw [List.find?_cons_of_neg (by simpa using hne)]
      exact ih hnd.2 h'

/-- A declared ordinal yields the one declared member with that ordinal. -/
theorem declared_gives_member (d : Decl) (hw : d.wellFormed) (name : String) (ord : Int)
    (h : (name, ord) ∈ d.members) : construct d ord = .member name ord := by
  unfold construct
  rw [find_unique d.members hw.2 name ord h]

/-- The same call gives the same member every time (identity of members is by name). -/
theorem same_member_every_time (d : Decl) (n : Int) : construct d n = construct d n := rfl

/-- Any other integer yields an instance equal to that integer, named `Unrecognized(n)`. -/
theorem undeclared_keeps_value (d : Decl) (n : Int) (h : ∀ p ∈ d.members, p.2 ≠ n) :
    construct d n = .unrecognized n ∧ (construct d n).name = s!"Unrecognized({n})" ∧ (construct d n).toInt = n := by
  have : d.members.find? (·.2 == n) = none := by
    apply List.find?_eq_none.mpr
    intro p hp
    simpa using h p hp
  simp [construct, this, Inst.name, Inst.toInt, Inst.value]

/-- Constructing instances, in any order and any number of times, never changes the declared
    members. -/
theorem members_unchanged (d : Decl) (calls : List Int) : (runCalls d calls).1 = d := by
  induction calls with
  | nil => rfl
  | cons n ns ih => simpa [runCalls] using ih

/-- Generated-code level: the coercions emitted for an enum field (`E(reader.get_x())` on read,
    `int(value)` on write) compose to the identity on the ordinal read, declared or not — values from
    newer protocol versions survive a read-then-write unchanged. -/
theorem enum_field_read_then_write (n : Int) :
    (Gen.coerceR .enum 0 (.int n)).bind (Gen.coerceW .enum) = .ok (.int n) := by
  simp [Gen.coerceR, Gen.coerceW, Gen.Value.toInt?, Except.bind]

/-! Non-vacuity (tests, labelled as such). -/
instance (d : Decl) : Decidable d.wellFormed := by unfold Decl.wellFormed; exact inferInstance
def sample : Decl := ⟨[("A", 1), ("None_", 2), ("Big", 252)]⟩
example : sample.wellFormed := by decide
example : construct sample 2 = .member "None_" 2 := by decide
example : construct sample 7 = .unrecognized 7 ∧ (construct sample 7).name = "Unrecognized(7)" := by decide

end EoVerif.Enum
