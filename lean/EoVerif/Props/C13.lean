import EoVerif.Model.Seq
/-!
# C13 — packet sequencer yields start + (n mod 10) under any update history

A history is any finite list of operations over `{next, setStart v}`; the theorem is about *every*
history from *every* initial start value.
-/
namespace EoVerif.Seq

/-- Run a history, collecting the outputs of the `next` operations in order. -/
def Sequencer.run (s : Sequencer) : List Op → Sequencer × List Int
  | [] => (s, [])
  | op :: ops =>
    let (s', out) := s.step op
    let (s'', outs) := Sequencer.run s' ops
    (s'', match out with | some v => v :: outs | none => outs)

/-- Specification: the start value in force after a prefix of the history. -/
def startAfter (start : Int) : List Op → Int
  | [] => start
  | .next :: ops => startAfter start ops
  | .setStart v :: ops => startAfter v ops

/-- Specification of the whole output: the `n`-th `next` (counting from `k`) returns the start in
    force at that moment plus `n mod 10`. -/
def specOutputs (start : Int) (k : Nat) : List Op → List Int
  | [] => []
  | .next :: ops => (start + (k % 10 : Nat)) :: specOutputs start (k + 1) ops
  | .setStart v :: ops => specOutputs v k ops

def countNext : List Op → Nat
  | [] => 0
  | .next :: ops => countNext ops + 1
  | .setStart _ :: ops => countNext ops

private theorem run_spec (s : Sequencer) (k : Nat) (hk : s.counter = ((k % 10 : Nat) : Int)) (ops : List Op) :
    (s.run ops).2 = specOutputs s.start k ops ∧
    (s.run ops).1.counter = (((k + countNext ops) % 10 : Nat) : Int) ∧
    (s.run ops).1.start = startAfter s.start ops := by
  induction ops generalizing s k with
  | nil => simp [Sequencer.run, specOutputs, countNext, startAfter, hk]
  | cons op ops ih =>
    cases op with
    | next =>
      have hk' : ({ s with counter := (s.counter + 1) % 10 } : Sequencer).counter = (((k + 1) % 10 : Nat) : Int) := by
        simp only [hk]; omega
      have := ih { s with counter := (s.counter + 1) % 10 } (k + 1) hk'
      simp only [Sequencer.run, Sequencer.step, specOutputs, countNext, startAfter]
      refine ⟨?_, ?_, ?_⟩
      · rw [this.1, hk]
      · rw [this.2.1]; congr 2; omega
      · rw [this.2.2]
    | setStart v =>
      have := ih { s with start := v } k hk
      simp only [Sequencer.run, Sequencer.step, specOutputs, countNext, startAfter]
      exact this

/-- **Main theorem.** From a fresh sequencer, for every history, the outputs are exactly the
    specification: the n-th sequence number (from zero) is the start in force plus `n mod 10`. -/
theorem nth_sequence (start : Int) (ops : List Op) :
    ((Sequencer.new start).run ops).2 = specOutputs start 0 ops :=
  (run_spec (Sequencer.new start) 0 (by simp [Sequencer.new]) ops).1

/-- Updating the start never resets, skips or repeats the counter: after any history the counter
    is the number of requests served modulo 10, and the start is the last one set. -/
theorem counter_invariant (start : Int) (ops : List Op) :
    ((Sequencer.new start).run ops).1.counter = ((countNext ops % 10 : Nat) : Int) ∧
    ((Sequencer.new start).run ops).1.start = startAfter start ops := by
  have := run_spec (Sequencer.new start) 0 (by simp [Sequencer.new]) ops
  simpa [Sequencer.new] using this.2

/-- Two peers applying the same history stay in lockstep (same outputs, same state), forever. -/
theorem lockstep (start : Int) (ops : List Op) (more : List Op) :
    ((Sequencer.new start).run (ops ++ more)).2 =
      ((Sequencer.new start).run ops).2 ++ (((Sequencer.new start).run ops).1.run more).2 := by
  generalize Sequencer.new start = s
  induction ops generalizing s with
  | nil => simp [Sequencer.run]
  | cons op ops ih =>
    simp only [List.cons_append, Sequencer.run]
    rw [ih]
    cases (s.step op).2 <;> simp

/-- Element-wise reading of `nth_sequence` for histories without updates: `start + n mod 10`. -/
theorem nth_no_updates (start : Int) (n i : Nat) (h : i < n) :
    (((Sequencer.new start).run (List.replicate n Op.next)).2)[i]? = some (start + ((i % 10 : Nat) : Int)) := by
  rw [nth_sequence]
  have key : ∀ (n k i : Nat), i < n →
      (specOutputs start k (List.replicate n Op.next))[i]? = some (start + (((k + i) % 10 : Nat) : Int)) := by
    intro n
    induction n with
    | zero => intro k i h; omega
    | succ n ih =>
      intro k i h
      simp only [List.replicate_succ, specOutputs]
      cases i with
      | zero => simp
      | succ i =>
        simp only [List.getElem?_cons_succ]
        rw [ih (k + 1) i (by omega)]
        congr 3; omega
  simpa using key n 0 i h

/-! Non-vacuity / sanity (tests, labelled as such). -/
example : ((Sequencer.new 5).run [.next, .next, .setStart 100, .next]).2 = [5, 6, 102] := by decide
example : ((Sequencer.new 0).run (List.replicate 12 .next)).2 = [0,1,2,3,4,5,6,7,8,9,0,1] := by decide

end EoVerif.Seq
