import EoVerif.Model.Imports
import EoVerif.Generated.ImportGraph
import EoVerif.Lemmas.Imports
/-!
# C20 — the public namespace resolves every documented name to the right object  (logic part: the
import machine `Model/Imports.lean`; the import system itself is modelled, and validated against
CPython by comparing complete namespaces, see DESIGN §3 C20)

`staticGraph` (Generated/ImportGraph.lean) is **regenerated from `/repo/src/eolib` on every run**, so
`static_safe` is re-checked against what the package `__init__` files say now.
-/
namespace EoVerif.Imp

/-- `tail` consists only of statements `k = sys.modules["P.k"]` -/
def safeTail (P : MName) : List Stmt → Bool
  | [] => true
  | .rebind k t :: rest => (t == P ++ [k]) && safeTail P rest
  | _ => false

/-- the body ends with a block of re-binding statements that contains the one for child `c` -/
def endsWithRebind (body : List Stmt) (P : MName) (c : String) : Bool :=
  -- the longest suffix made of rebinds only
  let suffix := (body.reverse.takeWhile (fun s => match s with | .rebind _ _ => true | _ => false)).reverse
  safeTail P suffix && suffix.any (fun s => s == .rebind c (P ++ [c]))

/-- the documented packages that star-import other packages, with the children they must re-bind -/
def docChildren : List (MName × List String) :=
  [(["eolib"], ["data", "encrypt", "packet", "protocol"]),
   (["eolib", "protocol"], ["serialization_error", "map", "net", "pub"]),
   (["eolib", "protocol", "net"], ["packet", "client", "server"]),
   (["eolib", "protocol", "pub"], ["server"])]

/-- decidable condition on the extracted graph -/
def Safe (g : Graph) : Bool :=
  docChildren.all (fun (P, cs) =>
    match g.src? P with
    | some src => cs.all (fun c => endsWithRebind src.body P c)
    | none => false)

/-- **Proof obligation tied to the current sources**: every documented package of the current tree ends
    with the re-binding block for its documented children. -/
theorem static_safe : Safe staticGraph = true := by decide

/-- **Soundness of re-binding, for every layout**: let `g` be *any* graph (the static modules plus the
    modules of any generated tree, with any type names), `first` any first import and `fuel` any
    bound.  If package `P`'s body ends with the re-binding block containing child `c`, and the import
    ran to completion without error with `P` loaded, then attribute `c` of `P` is the module `P.c` —
    whatever the star-imports copied into `P` before. -/
theorem rebinding_sound (g : Graph) (first : MName) (fuel : Nat) (P : MName) (c : String) (src : ModSrc)
    (hP : P ≠ []) (hsrc : g.src? P = some src) (hend : endsWithRebind src.body P c = true)
    (hfin : (eval g first fuel).2 = []) (hok : (eval g first fuel).1.err = none)
    (hloaded : (eval g first fuel).1.loaded P = true) :
    (eval g first fuel).1.lookup P c = some (.module (P ++ [c])) := by
  have _ := hP
  -- the Boolean `safeTail` implies the propositional `SafeT` of the lemma file
  have hsafe : ∀ l : List Stmt, safeTail P l = true → SafeT P l := by
    intro l
    induction l with
    | nil => intro _ st hst; cases hst
    | cons a l ih =>
      intro h st hst
      cases a with
      | rebind k t =>
        simp only [safeTail, Bool.and_eq_true, beq_iff_eq] at h
        rcases List.mem_cons.1 hst with rfl | hst
        · exact ⟨k, by rw [h.1]⟩
        · exact ih h.2 st hst
      | _ => simp [safeTail] at h
  simp only [endsWithRebind, Bool.and_eq_true, List.any_eq_true, beq_iff_eq] at hend
  obtain ⟨hs, x, hx, rfl⟩ := hend
  exact rebinding_sound_core g first fuel P c src hsrc
    (hasTarget_of_suffix P c src.body _ _ (suffix_decomp _ src.body) (hsafe _ hs) hx) hfin hok hloaded

/-- Consequence for the documented paths: in any completed, error-free run over a graph that extends
    the current static graph's documented packages unchanged, every documented child resolves to its
    own module by attribute access from its parent. -/
theorem documented_children_resolve (g : Graph) (first : MName) (fuel : Nat)
    (hext : ∀ P cs, (P, cs) ∈ docChildren → g.src? P = staticGraph.src? P)
    (hfin : (eval g first fuel).2 = []) (hok : (eval g first fuel).1.err = none)
    (P : MName) (cs : List String) (hmem : (P, cs) ∈ docChildren) (c : String) (hc : c ∈ cs)
    (hloaded : (eval g first fuel).1.loaded P = true) :
    (eval g first fuel).1.lookup P c = some (.module (P ++ [c])) := by
  have hsafe := static_safe
  simp only [Safe, List.all_eq_true] at hsafe
  have hP := hsafe (P, cs) hmem
  simp only [← hext P cs hmem] at hP
  have hne : P ≠ [] := by
    simp only [docChildren, List.mem_cons, Prod.mk.injEq, List.not_mem_nil, or_false] at hmem
    rcases hmem with ⟨rfl, _⟩ | ⟨rfl, _⟩ | ⟨rfl, _⟩ | ⟨rfl, _⟩ <;> simp
  cases hsrc : g.src? P with
  | none => rw [hsrc] at hP; cases hP
  | some src =>
    rw [hsrc] at hP
    simp only [List.all_eq_true] at hP
    exact rebinding_sound g first fuel P c src hne hsrc (hP c hc) hfin hok hloaded

/-! Non-vacuity (tests, labelled as such): a tiny graph where a star-import clobbers a child, with and
    without the re-binding statement. -/
def tiny (fixed : Bool) : Graph :=
  [⟨["eolib"], [.star ["eolib", "a"], .star ["eolib", "b"]] ++ (if fixed then [.rebind "a" ["eolib", "a"]] else [])⟩,
   ⟨["eolib", "a"], [.define "X"]⟩,
   ⟨["eolib", "b"], [.star ["eolib", "b", "a"]]⟩,
   ⟨["eolib", "b", "a"], [.define "Y"]⟩]
example : (eval (tiny false) ["eolib"] 100).1.lookup ["eolib"] "a" = some (.module ["eolib", "b", "a"]) := by decide +kernel
example : (eval (tiny true) ["eolib"] 100).1.lookup ["eolib"] "a" = some (.module ["eolib", "a"]) := by decide +kernel
example : (eval (tiny true) ["eolib"] 100).2 = [] ∧ (eval (tiny true) ["eolib"] 100).1.err = none := by decide +kernel

end EoVerif.Imp
