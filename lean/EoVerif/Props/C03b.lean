import EoVerif.Lemmas.DeConformRank
import EoVerif.Props.C02
set_option linter.unusedVariables false
/-!
# C03b — the generated deserializers conform to the reading rules of the XML

`de_conforms`: for every accepted forest of the fragment `FragmentDe`, every class of the specification and
every well-formed reader state (any data, any position, either mode), the generated `deserialize` returns
exactly the object and the reader state that the declarative reading `Spec.readClass` prescribes, or both
fail in the same documented way (`ValueError` for a negative string length, `Diverges` for a loop that does
not move).
-/
namespace EoVerif.Gen
open EoVerif.Spec EoVerif.Gen.Conform EoVerif.Gen.DeConform EoVerif.Gen.WF

/-- the generator's fixed size of every struct is the declared one (`Spec.structFixed`) -/
def fixedOK (files : List ProtoFile) : Bool :=
  match indexFiles files [] with
  | .error _ => true
  | .ok defs =>
    (specStructs files).all (fun p =>
      match getType defs (4 * defs.length + 16) p.1 none with
      | .ok t => t.fixedSize == specSS files p.1
      | .error _ => true)

/-- **The specifications covered by `de_conforms`** (a decidable check on the XML forest): `Fragment` (the
domain of the serializer theorem, see `Props/C02.lean`) and, on top of it, the following conditions.  On
every forest listed as a counterexample the model of the generated code and the declarative reading
disagree (checked with `#eval`, data in hex after the forest).

`bodyOK` on every class body and, recursively, every case body (`Lemmas/DeConformDefs.lean`):

1. *names*: the names the generated `deserialize` assigns are pairwise distinct: attribute names, the
   `<field>_data` of every `<switch>`, and the temporary `<name>_length` of an array read to the end of the
   data with a fixed element size.  Excluded: `{field items_length:char; array items:char}` (the temporary
   overwrites the local; `09 03 04` gives `items_length = 2` against `8`); two switches on the same field,
   or a field named `k_data` next to `switch field=k` (the generated class lists the attribute twice).
2. *no optional `<length>`*: excluded `chunked{length n:char optional; break; array xs:char length=n}` on
   `FF 03 04`: the local `n` is `None`, `range(None)` raises `TypeError`; the reading rules give `xs = ()`;
   with `field s:string length=n` instead: `TypeError` against `negativeLength`.
3. *length references*: every `<length>` is referenced by exactly one item of the class body and that item
   is the one `Spec.findRef` finds (a sibling).  Excluded: an unreferenced length `{length n:char; field
   x:char}` (`05 06`: the attribute is never assigned, the rules keep `4`); a reference across a `<chunked>`
   boundary `{length n:char; chunked{field s:string length=n}}` (`06 61 62`: `__init__` stores `len(s) = 2`,
   the rules keep `5`).  A `length=` attribute names a length field declared *before* (implied by
   acceptance; checked, not derived).
4. *no switch on a hard-coded field*: `{field k:char = 5 (named); switch field=k {case 5: field x:char}}` on
   `08 03`: the generated code switches on the value read (`7`), the rules on the constant.
5. *no `padded` without a length*: `{field s:string padded=true}` on `61 FF 62`: the reader call has no
   padding to remove, the rules cut at `FF`.
6. *no zero element size*: `struct E {}`, `{array items:E}`: `ZeroDivisionError` against an empty array.
7. a hard-coded value of a string type is a string (implied by elaboration; checked).

`fixedOK`: the generator's fixed struct sizes are the declared ones.  Excluded: a fixed-size struct with a
`<length>` (the generator counts it as 0 bytes): `struct S {length n:char; field x:char}`,
`{array items:S}` on `02 03 04 05` gives 4 elements against 2.

`ranksOK`: call depth — every struct referenced is a class of the specification, and the rank functions
`rankS` / `rankM` decrease along struct references (and case nesting) within the fuel of the two sides.
Implied by acceptance (cyclic structs are rejected with `RecursionError`); checked, not derived.

**Genuine exclusions** (the two sides disagree): 1 (for `<field>_data` and `<name>_length` clashes), 2, 3, 4,
5, 6 and the `<length>`-in-a-fixed-struct case of `fixedOK`.  **Implied by acceptance / elaboration but
checked rather than derived**: distinctness of field / array / length names among themselves, "declared
before" for `length=` and `switch field=`, "at most one item per length field", 7, `ranksOK`, and
`fixedOK` on structs without `<length>`. -/
def FragmentDe (files : List ProtoFile) : Bool :=
  Fragment files && fixedOK files &&
  (match elabSpec files, compile files with
   | some t, .ok out => t.classes.all (fun c => bodyOK c.body) && ranksOK t out.depth
   | _, _ => true)

namespace DeConform

theorem scalarOf_struct {env : Env} {s : String} {len : Option TLen} {padded : Bool} {n : String}
    (h : scalarOf env s len padded = some (.struct n)) : env.structs.contains n = true := by
  unfold scalarOf at h
  dsimp only at h
  repeat' split at h
  all_goals first
    | (cases h; assumption)
    | (cases h; done)

theorem fixOK_of_check {files : List ProtoFile} {defs : Defs} (hidx : indexFiles files [] = .ok defs)
    (hinv : DefsInv defs (allDefs files)) (hev : EnumsValid files) (hchk : fixedOK files = true) :
    FixOK (fun _ => true) (getType defs (4 * defs.length + 16)) (specEnv files) (specSS files) := by
  intro s t sc _ ht hsc
  have htf : TfOK (fun _ => true) (getType defs (4 * defs.length + 16)) (specEnv files) :=
    tfOK_all files defs (4 * defs.length + 14) hinv hev
  obtain ⟨sc', hsc', hrel⟩ := htf.resolve s none t false rfl ht
  have hsc'' : scalarOf (specEnv files) s none false = some sc' := hsc'
  rw [hsc] at hsc''
  cases hsc''
  cases t with
  | int k => simp only [TyRel] at hrel; subst hrel; rfl
  | bool k => simp only [TyRel] at hrel; subst hrel; rfl
  | enum a b k d => simp only [TyRel] at hrel; subst hrel; rfl
  | blob => simp only [TyRel] at hrel; subst hrel; rfl
  | str e l0 =>
    simp only [TyRel] at hrel; subst hrel
    have hl0 : l0 = none := getType_str_len (fuel := 4 * defs.length + 14) ht
    subst hl0
    rfl
  | struct n path fs b =>
    simp only [TyRel] at hrel; subst hrel
    have hsn : n = s := getType_struct_name (fuel := 4 * defs.length + 14) hinv.named ht
    subst hsn
    have hcont := scalarOf_struct hsc
    have hcont' : ((specStructs files).map (·.1)).contains n = true := hcont
    rw [List.contains_iff_mem, List.mem_map] at hcont'
    obtain ⟨p, hp, hpn⟩ := hcont'
    unfold fixedOK at hchk
    rw [hidx] at hchk
    simp only [List.all_eq_true] at hchk
    have := hchk p hp
    rw [hpn, ht] at this
    simp only [Ty.fixedSize, beq_iff_eq] at this
    show fs = _
    rw [this]
    rfl

/-- everything the main induction needs about one class source -/
theorem src_facts_de {files : List ProtoFile} {t : TSpec}
    (he : elabSpec files = some t) (hfrag : Fragment files = true)
    {defs : Defs} (hinv : DefsInv defs (allDefs files))
    (hfix : FixOK (fun _ => true) (getType defs (4 * defs.length + 16)) (specEnv files) (specSS files))
    {p : String × Xml} (hp : p ∈ srcs files) {ctx : Ctx} {d : Data}
    (hg : genBody (getType defs (4 * defs.length + 16)) {} { className := p.1 } p.2.children true = .ok (ctx, d)) :
    ∃ b recs, ⟨p.1, b⟩ ∈ t.classes ∧ mkClass files p.1 p.2 = some ⟨p.1, b⟩ ∧
      d.className = p.1 ∧ d.aux = recs.map (·.ir) ∧ DRecsOK recs ∧ Covers recs false b ∧
      DStepAll false { className := p.1 } d b := by
  have hfrag0 := hfrag
  unfold Fragment at hfrag
  rw [he] at hfrag
  simp only [Bool.and_eq_true, List.all_eq_true, decide_eq_true_eq] at hfrag
  obtain ⟨⟨⟨hf1, hf2⟩, hf3⟩, _⟩ := hfrag
  have hev : EnumsValid files := by
    intro f hf e hee
    have := hf2 f hf e hee
    cases h : (e.get "type").bind IntKind.ofName? with
    | none => rw [h] at this; cases this
    | some k => exact ⟨k, rfl⟩
  obtain ⟨_, e2, _⟩ := elabSpec_classes he
  obtain ⟨c, hc, hmk⟩ := e2 p hp
  have hmk0 := hmk
  unfold mkClass at hmk
  cases hb : elabBody (specEnv files) (specSS files) p.1 p.2.children p.2.children false with
  | none => rw [hb] at hmk; cases hmk
  | some b =>
    rw [hb] at hmk
    simp only [Option.map_some, Option.some.injEq] at hmk
    subst hmk
    obtain ⟨hnd, hdeep⟩ := hf3 _ hc
    have hl : LensOK (lensOf b) b := lensOK_of_nodup b _ (by rwa [lenNamesL_eq] at hnd) (fun _ _ => rfl)
    have htf : TfOK (fun _ => true) (getType defs (4 * defs.length + 16)) (specEnv files) :=
      tfOK_all files defs (4 * defs.length + 14) hinv hev
    rw [elabBody_flag _ _ _ _ _ false true] at hb
    have sold := body_all htf p.2.children true {} { className := p.1 } ctx d b p.2.children p.1 false (lensOf b)
      (hf1 p hp) (CtxOK.empty _ rfl rfl) (CtxEnum.empty rfl) rfl rfl hg hb hl (lensDeepL_sound b hdeep)
    have sall := dbody_all htf hfix p.2.children true {} { className := p.1 } ctx d b p.2.children p.1 false (lensOf b)
      (hf1 p hp) (CtxOK.empty _ rfl rfl) (CtxEnum.empty rfl) rfl rfl hg hb hl (lensDeepL_sound b hdeep)
    obtain ⟨_, _, _, n1, _⟩ := sold
    have sall' := sall
    obtain ⟨ops, I, recs, _, _, _, _, _, _, _, a1, rOK, cov⟩ := sall
    exact ⟨b, recs, hc, hmk0, n1, by simpa using a1, rOK, cov, sall'⟩

/-- the case classes generated anywhere in the specification -/
def IsRecD (out : GenOutput) (r : CaseRec) : Prop :=
  ∃ recs, DRecsOK recs ∧ r ∈ recs ∧ ∀ r' ∈ recs, r'.ir ∈ out.classes

theorem execDe_succ (o : GenOutput) (fuel : Nat) (cls : String) (ir : ClassIR) (r : Reader)
    (h : o.findClass? cls = some ir) : execDe o (fuel + 1) cls r = deserializeBody (execDe o fuel) ir r := by
  simp only [execDe, h]

theorem readClass_succ (t : TSpec) (fuel : Nat) (cls : String) (c : TClass) (a : AReader)
    (h : t.find? cls = some c) :
    readClass t (fuel + 1) cls a = classRead (readClass t fuel) false cls c.body a := by
  simp only [readClass, h, classRead]
  cases readInstrs (readClass t fuel) false c.body { r := a, start := a.pos } <;> rfl

set_option maxHeartbeats 800000 in
theorem de_conforms_aux (files : List ProtoFile) (out : GenOutput) (t : TSpec)
    (hc : compile files = .ok out) (he : elabSpec files = some t) (hfrag : FragmentDe files = true) :
    ∀ (k : Nat),
      (∀ (cls : String) (c : TClass), t.find? cls = some c → rankM t out.depth cls ≤ k →
        ∀ (f1 f2 : Nat), rankM t out.depth cls ≤ f1 → rankS t (t.classes.length + 1) cls ≤ f2 →
        CallAt (execDe out f1) (readClass t f2) cls) ∧
      (∀ (r : CaseRec), IsRecD out r → bodyOK r.b = true →
        (∀ n ∈ refsDeepL r.b, (t.find? n).isSome = true) →
        needML (rankM t out.depth) r.b + 1 ≤ k →
        ∀ (f1 f2 : Nat), needML (rankM t out.depth) r.b + 1 ≤ f1 →
        maxOf (rankS t (t.classes.length + 1)) (refsDeepL r.b) ≤ f2 →
        CaseAt (execDe out f1) (readClass t f2) r.lex r.ir.name r.b) := by
  -- unpack the fragment
  unfold FragmentDe at hfrag
  rw [he, hc] at hfrag
  simp only [Bool.and_eq_true, List.all_eq_true] at hfrag
  obtain ⟨⟨hfr, hfixc⟩, hbody, hranks⟩ := hfrag
  obtain ⟨defs, hidx, hinv, c2⟩ := compile_spec_de hc
  have hev : EnumsValid files := by
    have h := hfr
    unfold Fragment at h
    simp only [Bool.and_eq_true, List.all_eq_true] at h
    intro f hf e hee
    have := h.1.1.2 f hf e hee
    cases hq : (e.get "type").bind IntKind.ofName? with
    | none => rw [hq] at this; cases this
    | some k => exact ⟨k, rfl⟩
  have hfix := fixOK_of_check hidx hinv hev hfixc
  have hnd : (out.classes.map (·.name)).Nodup := by
    have h := hfr
    unfold Fragment at h
    rw [hc] at h
    simp only [Bool.and_eq_true, decide_eq_true_eq] at h
    exact h.2
  obtain ⟨e1, _, _⟩ := elabSpec_classes he
  have hfind : ∀ ir ∈ out.classes, out.findClass? ir.name = some ir := by
    intro ir hir
    unfold GenOutput.findClass?
    cases hf : List.find? (fun x => x.name == ir.name) out.classes with
    | none =>
      rw [List.find?_eq_none] at hf
      exact absurd (by simp) (hf ir hir)
    | some ir' =>
      have h1 : ir'.name = ir.name := by simpa using List.find?_some hf
      rw [nodup_map_inj (·.name) hnd ir' (List.mem_of_find?_eq_some hf) ir hir h1]
  intro k
  induction k with
  | zero =>
    refine ⟨?_, ?_⟩
    · intro cls c hf hk
      obtain ⟨h1, _, h3, _, _⟩ := ranksOK_spec hranks hf
      omega
    · intro r _ _ _ hk; omega
  | succ k ih =>
    obtain ⟨ihA, ihB⟩ := ih
    -- the callbacks for a body `b` whose needs are within `k`
    have hcalls : ∀ (b : List TInstr) (f1 f2 : Nat), (∀ n ∈ refsDeepL b, (t.find? n).isSome = true) →
        needML (rankM t out.depth) b ≤ k → needML (rankM t out.depth) b ≤ f1 →
        maxOf (rankS t (t.classes.length + 1)) (refsDeepL b) ≤ f2 →
        ∀ x ∈ refsL b, CallAt (execDe out f1) (readClass t f2) x := by
      intro b f1 f2 hex hk h1 h2 x hx
      have hxd := refsL_sub_deep b x hx
      have hxs := hex x hxd
      cases hfx : t.find? x with
      | none => rw [hfx] at hxs; cases hxs
      | some cx =>
        have hm := needML_ref (rankM t out.depth) b x hx
        have hs := maxOf_mem (rankS t (t.classes.length + 1)) _ x hxd
        exact ihA x cx hfx (by omega) f1 f2 (by omega) (by omega)
    have hcasesAt : ∀ (b : List TInstr) (lex : Bool) (recs : List CaseRec) (f1 f2 : Nat), DRecsOK recs →
        (∀ r' ∈ recs, r'.ir ∈ out.classes) → Covers recs lex b → bodyOK b = true →
        (∀ n ∈ refsDeepL b, (t.find? n).isSome = true) →
        needML (rankM t out.depth) b ≤ k → needML (rankM t out.depth) b ≤ f1 →
        maxOf (rankS t (t.classes.length + 1)) (refsDeepL b) ≤ f2 →
        ∀ x ∈ directCases lex b, x.2.1 ≠ [] → CaseAt (execDe out f1) (readClass t f2) x.2.2 x.1 x.2.1 := by
      intro b lex recs f1 f2 hrecs hin hcov hbok hex hk h1 h2 x hx hne
      obtain ⟨r, hr, hrn, hrb, hrl⟩ := hcov x hx hne
      have hsub := casesL_sub_deep b lex x hx
      have hm := needML_case (rankM t out.depth) b lex x hx hne
      have := ihB r ⟨recs, hrecs, hr, hin⟩ (by rw [hrb]; exact bodyOK_case hbok lex x hx)
        (by rw [hrb]; exact fun n hn => hex n (hsub n hn)) (by rw [hrb]; omega) f1 f2 (by rw [hrb]; omega)
        (by rw [hrb]; exact Nat.le_trans (maxOf_sub _ _ _ hsub) h2)
      rw [hrn, hrb, hrl] at this
      exact this
    refine ⟨?_, ?_⟩
    · intro cls c hfc hk f1 f2 h1 h2
      obtain ⟨r1, r2, r3, r4, r5⟩ := ranksOK_spec hranks hfc
      obtain ⟨f1, rfl⟩ : ∃ f, f1 = f + 1 := ⟨f1 - 1, by omega⟩
      obtain ⟨f2, rfl⟩ : ∃ f, f2 = f + 1 := ⟨f2 - 1, by omega⟩
      have hcm : c ∈ t.classes := List.mem_of_find?_eq_some hfc
      have hcn : c.name = cls := by simpa using List.find?_some hfc
      obtain ⟨p, hp, hmk⟩ := e1 c hcm
      obtain ⟨ctx, d, ir0, hg, hir0, hirof, haux⟩ := c2 p hp
      obtain ⟨b, recs, _, hb, hdn, hda, hrecs, hcov, hstep⟩ := src_facts_de he hfr hinv hfix hp hg
      have hcb : c = ⟨p.1, b⟩ := by
        rw [hb] at hmk
        simp only [Option.some.injEq] at hmk
        exact hmk.symm
      have hpn : p.1 = cls := by rw [← hcn, hcb]
      have hirn : ir0.name = cls := by rw [hirof.1, hdn, hpn]
      have hir : out.findClass? cls = some ir0 := by
        have := hfind ir0 hir0
        rwa [hirn] at this
      have hin : ∀ r' ∈ recs, r'.ir ∈ out.classes := by
        intro r' hr'
        exact haux _ (by rw [hda]; exact List.mem_map.2 ⟨r', hr', rfl⟩)
      have hrel : ClassRel false b ir0 := classRel_of_ir hstep hirof rfl rfl rfl rfl rfl
      subst hcb
      have r1' : maxOf (rankS t (t.classes.length + 1)) (refsDeepL b) < rankS t (t.classes.length + 1) cls := r1
      have r3' : needML (rankM t out.depth) b < rankM t out.depth cls := r3
      have r5' : ∀ n ∈ refsDeepL b, (t.find? n).isSome = true := r5
      clear r1 r3 r5
      have hbok : bodyOK b = true := hbody _ hcm
      intro r a hr
      rw [execDe_succ out f1 cls ir0 r hir, readClass_succ t f2 cls _ a hfc, ← hirn]
      exact class_sim hrel hbok
        (hcalls b f1 f2 r5' (by omega) (by omega) (by omega))
        (hcasesAt b false recs f1 f2 hrecs hin hcov hbok r5' (by omega) (by omega) (by omega))
        r a hr (fun h => by cases h)
    · intro r hrec hbok hex hk f1 f2 h1 h2
      obtain ⟨f1, rfl⟩ : ∃ f, f1 = f + 1 := ⟨f1 - 1, by omega⟩
      obtain ⟨recs, hrecs, hr, hin⟩ := hrec
      obtain ⟨hrel, hcov⟩ := hrecs r hr
      have hir := hfind r.ir (hin r hr)
      intro rd a hrr hmode
      rw [execDe_succ out f1 r.ir.name r.ir rd hir]
      exact class_sim hrel hbok
        (hcalls r.b f1 f2 hex (by omega) (by omega) h2)
        (hcasesAt r.b r.lex recs f1 f2 hrecs hin hcov hbok hex (by omega) (by omega) h2)
        rd a hrr hmode

end DeConform

/-- **Deserializer conformance.**  For every specification in the fragment `FragmentDe` that the generator
    accepts and the declarative reading elaborates, every class `cls` of the specification and every
    well-formed reader state, the generated `deserialize` returns exactly the object and the reader state
    the reading rules prescribe, or both fail in the same documented way.

    (`cls` must be a class of the specification: for an unknown name the generated side raises `NameError`
    where `Spec.readClass` reports `diverges`, and the nested case classes are not classes of `t` at all.) -/
theorem de_conforms (files : List ProtoFile) (out : GenOutput) (t : TSpec)
    (hc : compile files = .ok out) (he : Spec.elabSpec files = some t) (hfrag : FragmentDe files = true)
    (cls : String) (hcls : (t.find? cls).isSome = true) (r : Reader) (hinv : Reader.Inv r) :
    match execDe out out.depth cls r, Spec.readClass t (t.classes.length + 1) cls (Reader.abs r) with
    | (r', .ok v), .ok (ar, v') => v = v' ∧ Reader.abs r' = ar ∧ Reader.Inv r'
    | (_, .error e), .error e' => (e = .ValueError ∧ e' = .negativeLength) ∨ (e = .Diverges ∧ e' = .diverges)
    | _, _ => False := by
  cases hf : t.find? cls with
  | none => rw [hf] at hcls; cases hcls
  | some c =>
    have hr : ranksOK t out.depth = true := by
      unfold FragmentDe at hfrag
      rw [he, hc] at hfrag
      simp only [Bool.and_eq_true] at hfrag
      exact hfrag.2.2
    obtain ⟨_, r2, _, r4, _⟩ := DeConform.ranksOK_spec hr hf
    have h := (DeConform.de_conforms_aux files out t hc he hfrag (rankM t out.depth cls)).1 cls c hf (Nat.le_refl _)
      out.depth (t.classes.length + 1) r4 r2 r (Reader.abs r) ⟨rfl, hinv⟩
    generalize execDe out out.depth cls r = x at h
    obtain ⟨r', o⟩ := x
    cases hy : readClass t (t.classes.length + 1) cls (Reader.abs r) with
    | error e' =>
      rw [hy] at h
      cases o with
      | error e => exact h
      | ok v => exact h.elim
    | ok p =>
      rw [hy] at h
      obtain ⟨ar, v'⟩ := p
      cases o with
      | error e => exact h.elim
      | ok v =>
        simp only [ConfD_ok_ok, CallPost] at h
        exact ⟨h.1, h.2.1.1, h.2.1.2⟩

/-! Non-vacuity (a test, labelled as such): a concrete forest (two files: structs with every kind of item,
    nested switches, a to-the-end array of fixed-size structs, and a packet) in the fragment, which the
    generator accepts and the declarative reading elaborates; `de_conforms` instantiated on it. -/
namespace DeConform.Example

private def el (tag : String) (attrs : List (String × String)) (children : List Xml := [])
    (text : Option String := none) : Xml := .mk tag attrs text none children

def exFiles : List ProtoFile :=
  Conform.Example.exFiles ++
  [⟨"net/client", el "protocol" []
    [el "enum" [("name", "PacketFamily"), ("type", "byte")] [el "value" [("name", "Talk")] [] (some "18")],
     el "enum" [("name", "PacketAction"), ("type", "byte")] [el "value" [("name", "Tell")] [] (some "25")],
     el "struct" [("name", "Tail")]
      [el "field" [("name", "n"), ("type", "char")],
       el "array" [("name", "opts"), ("type", "Coords"), ("optional", "true")]],
     el "packet" [("family", "Talk"), ("action", "Tell")]
      [el "chunked" []
        [el "field" [("name", "name"), ("type", "string")],
         el "break" [],
         el "field" [("name", "message"), ("type", "string")],
         el "break" [],
         el "array" [("name", "pts"), ("type", "Coords")]]]]⟩]

example : FragmentDe exFiles = true := by decide +kernel
example : (elabSpec exFiles).isSome = true := by decide +kernel
example : (match compile exFiles with | .ok _ => true | .error _ => false) = true := by decide +kernel

theorem find_some (cls : String)
    (h : ((elabSpec exFiles).bind (fun t => t.find? cls)).isSome = true) :
    ∀ t, elabSpec exFiles = some t → (t.find? cls).isSome = true := by
  intro t ht
  rw [ht] at h
  exact h

/-- `de_conforms` on the packet class of the example -/
example (out : GenOutput) (t : TSpec) (hc : compile exFiles = .ok out) (he : elabSpec exFiles = some t)
    (r : Reader) (hr : Reader.Inv r) :
    match execDe out out.depth "TalkTellClientPacket" r,
          Spec.readClass t (t.classes.length + 1) "TalkTellClientPacket" (Reader.abs r) with
    | (r', .ok v), .ok (ar, v') => v = v' ∧ Reader.abs r' = ar ∧ Reader.Inv r'
    | (_, .error e), .error e' => (e = .ValueError ∧ e' = .negativeLength) ∨ (e = .Diverges ∧ e' = .diverges)
    | _, _ => False :=
  de_conforms exFiles out t hc he (by decide +kernel) "TalkTellClientPacket"
    (find_some "TalkTellClientPacket" (by decide +kernel) t he) r hr

end DeConform.Example

end EoVerif.Gen
