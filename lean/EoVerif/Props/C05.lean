import EoVerif.Model.Reader
import EoVerif.Spec.AReader
import EoVerif.Lemmas.Reader
/-!
# C05 — EoReader follows the chunked-reading model and never leaves its data

`Reader` is the concrete state machine of the code (position, mode, chunk start, *cached* break);
`AReader` (Spec/AReader.lean) is the documented model with no cache.  The theorems say the concrete
reader refines the abstract one for every data and every finite history of operations with
non-negative length arguments, and state the safety facts on every reachable state.
-/
namespace EoVerif.Reader

/-- abstraction map: forget the cache -/
def abs (r : Reader) : AReader := ⟨r.data, r.pos, r.chunked, r.chunkStart⟩

/-- representation invariant of reachable states -/
def Inv (r : Reader) : Prop :=
  (r.nextBreak = -1 ∨ r.nextBreak = ((abs r).brk : Int)) ∧
  (r.chunked = true → r.nextBreak ≠ -1) ∧
  (r.nextBreak = -1 → r.chunkStart = 0) ∧
  r.pos ≤ r.data.length ∧ r.chunkStart ≤ r.data.length

/-- run a history, collecting every result -/
def runOut (r : Reader) : List Op → Reader × List (Except PyErr Val)
  | [] => (r, [])
  | op :: ops =>
    let (r', out) := r.step op
    let (r'', outs) := runOut r' ops
    (r'', out :: outs)

def _root_.EoVerif.AReader.runOut (a : AReader) : List Op → AReader × List (Except PyErr Val)
  | [] => (a, [])
  | op :: ops =>
    let (a', out) := a.step op
    let (a'', outs) := AReader.runOut a' ops
    (a'', out :: outs)

theorem inv_new (data : Bytes) : Inv (Reader.new data) := by
  refine ⟨Or.inl rfl, ?_, fun _ => rfl, Nat.zero_le _, Nat.zero_le _⟩
  intro h; simp [Reader.new] at h

/-- `remaining` of the code equals `remaining` of the documented model (in particular it is never
    negative). -/
theorem remaining_refines (r : Reader) (h : Inv r) : r.remaining = ((abs r).remaining : Int) := by
  exact remaining_toA r h

/-- **One-step refinement**: same result, abstraction commutes, invariant preserved. -/
theorem step_refines (r : Reader) (h : Inv r) (op : Op) :
    (r.step op).2 = ((abs r).step op).2 ∧ abs (r.step op).1 = ((abs r).step op).1 ∧ Inv (r.step op).1 := by
  exact step_refines' r h op

/-- **Refinement for every history**: every returned value, and the final position / mode / chunk
    start, equal those of the documented model. -/
theorem run_refines (data : Bytes) (ops : List Op) :
    ((Reader.new data).runOut ops).2 = ((AReader.mk data 0 false 0).runOut ops).2 ∧
    abs ((Reader.new data).runOut ops).1 = ((AReader.mk data 0 false 0).runOut ops).1 ∧
    Inv ((Reader.new data).runOut ops).1 := by
  have gen : ∀ (ops : List Op) (r : Reader), Inv r →
      (r.runOut ops).2 = ((abs r).runOut ops).2 ∧ abs (r.runOut ops).1 = ((abs r).runOut ops).1 ∧
        Inv (r.runOut ops).1 := by
    intro ops
    induction ops with
    | nil => intro r h; exact ⟨rfl, rfl, h⟩
    | cons op ops ih =>
      intro r h
      obtain ⟨s1, s2, s3⟩ := step_refines r h op
      obtain ⟨i1, i2, i3⟩ := ih (r.step op).1 s3
      rw [s2] at i1 i2
      simp only [runOut, AReader.runOut]
      exact ⟨by rw [s1, i1], i2, i3⟩
  exact gen ops (Reader.new data) (inv_new data)

/-- Safety on every reachable state: the data is never replaced, the position stays within the
    data and `remaining` is never negative and never exceeds what is left. -/
theorem stays_inside (data : Bytes) (ops : List Op) :
    let r := ((Reader.new data).runOut ops).1
    r.data = data ∧ r.pos ≤ data.length ∧ 0 ≤ r.remaining ∧ r.remaining ≤ (data.length : Int) - r.pos := by
  have gen : ∀ (ops : List Op) (r : Reader), Inv r →
      (r.runOut ops).1.data = r.data ∧ Inv (r.runOut ops).1 := by
    intro ops
    induction ops with
    | nil => intro r h; exact ⟨rfl, h⟩
    | cons op ops ih =>
      intro r h
      obtain ⟨_, _, s3⟩ := step_refines r h op
      obtain ⟨i1, i2⟩ := ih (r.step op).1 s3
      simp only [runOut]
      exact ⟨by rw [i1, step_data], i2⟩
  intro r
  have hd : r.data = data := (gen ops (Reader.new data) (inv_new data)).1
  have hi : Inv r := (gen ops (Reader.new data) (inv_new data)).2
  have hrem := remaining_toA r hi
  have hle := pos_add_remaining_le r hi
  have hp := hi.2.2.2.1
  rw [hd] at hle hp
  refine ⟨hd, hp, ?_, ?_⟩
  · rw [hrem]; omega
  · rw [hrem]; omega

/-- Totality: the only errors are `RuntimeError` (next_chunk outside chunked mode) and `ValueError`
    (negative length of a fixed string); a failed operation leaves the reader unchanged. -/
theorem errors_only (r : Reader) (op : Op) (e : PyErr) (h : (r.step op).2 = .error e) :
    (r.step op).1 = r ∧
    ((op = .nextChunk ∧ r.chunked = false ∧ e = .RuntimeError) ∨
     (∃ l p, (op = .getFixedString l p ∨ op = .getFixedEncodedString l p) ∧ l < 0 ∧ e = .ValueError)) := by
  cases op with
  | nextChunk =>
    simp only [step] at h ⊢
    cases hc : r.chunked with
    | false =>
      simp only [hc, Bool.not_false, if_true] at h ⊢
      refine ⟨trivial, Or.inl ⟨trivial, trivial, ?_⟩⟩
      injection h with h; exact h.symm
    | true => simp [hc] at h
  | getFixedString l p =>
    simp only [step] at h ⊢
    by_cases hl : l < 0
    · simp only [hl, if_true] at h ⊢
      refine ⟨trivial, Or.inr ⟨l, p, Or.inl rfl, hl, ?_⟩⟩
      injection h with h; exact h.symm
    · simp [hl] at h
  | getFixedEncodedString l p =>
    simp only [step] at h ⊢
    by_cases hl : l < 0
    · simp only [hl, if_true] at h ⊢
      refine ⟨trivial, Or.inr ⟨l, p, Or.inr rfl, hl, ?_⟩⟩
      injection h with h; exact h.symm
    · simp [hl] at h
  | _ => simp [step] at h

/-- Exhausted reads yield 0 / empty and do not move. -/
theorem exhausted_reads (r : Reader) (h : Inv r) (h0 : r.remaining = 0) (n : Nat) (l : Int) (hl : 0 ≤ l) (p : Bool) :
    r.step .getByte = (r, .ok (.int 0)) ∧ r.step (.getBytes n) = (r, .ok (.bytes [])) ∧
    r.step .getChar = (r, .ok (.int 0)) ∧ r.step .getShort = (r, .ok (.int 0)) ∧
    r.step .getThree = (r, .ok (.int 0)) ∧ r.step .getInt = (r, .ok (.int 0)) ∧
    r.step .getString = (r, .ok (.str [])) ∧ r.step .getEncodedString = (r, .ok (.str [])) ∧
    r.step (.getFixedString l p) = (r, .ok (.str [])) ∧ r.step (.getFixedEncodedString l p) = (r, .ok (.str [])) := by
  have _ := h  -- the invariant is not needed for this fact
  exact exhausted_reads' r h0 n l hl p

/-- In chunked mode no read crosses the break of the current chunk, and what is returned is exactly
    the next `min n remaining` bytes of the data. -/
theorem read_bounded (a : AReader) (n : Nat) (hp : a.pos ≤ a.data.length) :
    (a.read n).2 = (a.data.drop a.pos).take (min n a.remaining) ∧
    (a.read n).1.pos = a.pos + min n a.remaining ∧
    (a.read n).1.pos ≤ a.data.length ∧
    (a.chunked = true → a.pos ≤ a.brk → (a.read n).1.pos ≤ a.brk) ∧
    (a.chunked = true → 0xFF ∉ (a.read n).2 ∨ a.pos < a.chunkStart) := by
  exact read_bounded' a n hp

/-- `brk` really is the first 0xFF at or after the chunk start (else the end of the data). -/
theorem brk_spec (a : AReader) (hc : a.chunkStart ≤ a.data.length) :
    a.chunkStart ≤ a.brk ∧ a.brk ≤ a.data.length ∧
    (∀ i, a.chunkStart ≤ i → i < a.brk → a.data.getD i 0 ≠ 0xFF) ∧
    (a.brk < a.data.length → a.data.getD a.brk 0 = 0xFF) := by
  exact ⟨brk_ge a hc, brk_le a, brk_before a hc, brk_at a hc⟩

/-- next_chunk moves just past the break, or to the end. -/
theorem next_chunk_spec (r : Reader) (h : Inv r) (hc : r.chunked = true) :
    (r.step .nextChunk).2 = .ok .none ∧
    (r.step .nextChunk).1.pos = (if (abs r).brk < r.data.length then (abs r).brk + 1 else r.data.length) ∧
    (r.step .nextChunk).1.chunkStart = (r.step .nextChunk).1.pos := by
  exact nextChunk_spec' r h hc

/-- A slice is a fresh, independent reader (position 0, not chunked) over exactly the requested
    clipped sub-range; negative arguments are rejected. -/
theorem slice_spec (r : Reader) (index length : Option Int) :
    let i : Int := index.getD r.pos
    let l : Int := length.getD (max 0 ((r.data.length : Int) - i))
    (i < 0 ∨ l < 0 → r.slice index length = .error .ValueError) ∧
    (0 ≤ i → 0 ≤ l →
      r.slice index length = .ok (Reader.new ((r.data.drop (min i.toNat r.data.length)).take l.toNat))) := by
  exact ⟨slice_err r index length, slice_ok r index length⟩

/-! Non-vacuity / sanity (tests, labelled as such). -/
example : ((Reader.new [1, 2, 0xFF, 4, 5]).runOut [.setChunked true, .getInt, .getChar, .nextChunk, .getShort, .getChar]).2
    = [.ok .none, .ok (.int 253), .ok (.int 0), .ok .none, .ok (.int 1015), .ok (.int 0)] := by decide
example : Inv ((Reader.new [1, 2, 0xFF, 4, 5]).runOut [.setChunked true, .getInt, .nextChunk]).1 := by
  simp [Inv, runOut, step, abs, AReader.brk, readBytes, remaining, findNextBreak, findFrom, Reader.new]

end EoVerif.Reader
