import EoVerif.Model.Num
import EoVerif.Spec.Num
/-!
# C07 — EO number codec is a wire-safe bijection on its whole range

Property theorems for `encode_number` / `decode_number`.  `n` ranges over *all* integers of the EO
int range `0 ≤ n < 253^4`; byte strings are arbitrary lists.
-/
namespace EoVerif.Num

/-- the limits are the powers of 253 (sanity of the constants used below). -/
theorem limits : CHAR_MAX = 253 ^ 1 ∧ SHORT_MAX = 253 ^ 2 ∧ THREE_MAX = 253 ^ 3 ∧ INT_MAX = 253 ^ 4 := by
  decide

/-- Encoding never fails in range, and decoding the 4-byte encoding returns `n`. -/
theorem decode_encode (n : Int) (h0 : 0 ≤ n) (h1 : n < INT_MAX) :
    ∃ bs, encode n = .ok bs ∧ bs.length = 4 ∧ decode bs = n := by
  unfold encode encodeRaw isByte INT_MAX CHAR_MAX SHORT_MAX THREE_MAX at *
  by_cases h3 : n ≥ 16194277 <;> by_cases h2 : n ≥ 64009 <;> by_cases h1' : n ≥ 253 <;>
    simp only [h3, h2, h1', if_true, if_false]
  all_goals try omega
  all_goals
    rw [if_pos (by simp; omega)]
    refine ⟨_, rfl, rfl, ?_⟩
    simp only [decode, decodeAux, CHAR_MAX, SHORT_MAX, THREE_MAX]
    repeat' split
    all_goals omega

/-- The encoding never contains `0x00` or `0xFF` (and all its bytes are bytes). -/
theorem encode_wire_safe (n : Int) (h0 : 0 ≤ n) (h1 : n < INT_MAX) (bs : Bytes)
    (h : encode n = .ok bs) : ∀ b ∈ bs, b ≠ 0x00 ∧ b ≠ 0xFF ∧ b < 256 := by
  unfold encode encodeRaw isByte INT_MAX CHAR_MAX SHORT_MAX THREE_MAX at *
  by_cases h3 : n ≥ 16194277 <;> by_cases h2 : n ≥ 64009 <;> by_cases h1' : n ≥ 253 <;>
    simp only [h3, h2, h1', if_true, if_false] at h
  all_goals try omega
  all_goals
    rw [if_pos (by simp; omega)] at h
    injection h with h
    subst h
    intro b hb
    simp only [List.mem_cons, List.mem_nil_iff, or_false] at hb
    rcases hb with hb | hb | hb | hb <;> subst hb <;> omega

/-- For `n < 253^k` the first `k` bytes alone decode to `n`, the rest is the `0xFE` filler. -/
theorem encode_prefix (k : Nat) (hk : 1 ≤ k ∧ k ≤ 4) (n : Int) (h0 : 0 ≤ n) (h1 : n < 253 ^ k)
    (bs : Bytes) (h : encode n = .ok bs) :
    decode (bs.take k) = n ∧ ∀ b ∈ bs.drop k, b = 0xFE := by
  have hk' : k = 1 ∨ k = 2 ∨ k = 3 ∨ k = 4 := by omega
  unfold encode encodeRaw isByte CHAR_MAX SHORT_MAX THREE_MAX at *
  rcases hk' with rfl | rfl | rfl | rfl <;> simp only [Int.reducePow] at h1
  all_goals
    by_cases h3 : n ≥ 16194277 <;> by_cases h2 : n ≥ 64009 <;> by_cases h1' : n ≥ 253 <;>
      simp only [h3, h2, h1', if_true, if_false] at h
  all_goals try omega
  all_goals
    rw [if_pos (by simp; omega)] at h
    injection h with h
    subst h
    simp only [List.take, List.drop, decode, decodeAux, CHAR_MAX, SHORT_MAX, THREE_MAX]
    refine ⟨?_, ?_⟩
    · repeat' split
      all_goals omega
    · intro b hb
      simp only [List.mem_cons, List.mem_nil_iff, or_false] at hb
      all_goals omega

private theorem decodeAux_nil_right (bs : Bytes) : decodeAux bs [] = 0 := by
  cases bs <;> rfl

/-- Decoding *any* byte string equals the documented positional formula. -/
theorem decode_eq_formula (bs : Bytes) : decode bs = decodeFormula bs := by
  unfold decode decodeFormula digits CHAR_MAX SHORT_MAX THREE_MAX
  match bs with
  | [] => simp [decodeAux, positional]
  | [a] =>
    simp only [decodeAux, List.take, List.takeWhile]
    split <;> simp_all [positional]
  | [a, b] =>
    simp only [decodeAux, List.take, List.takeWhile]
    by_cases ha : a = 254 <;> by_cases hb : b = 254 <;> simp [ha, hb, positional] <;> omega
  | [a, b, c] =>
    simp only [decodeAux, List.take, List.takeWhile]
    by_cases ha : a = 254 <;> by_cases hb : b = 254 <;> by_cases hc : c = 254 <;>
      simp [ha, hb, hc, positional] <;> omega
  | a :: b :: c :: d :: rest =>
    simp only [decodeAux, List.take, List.takeWhile]
    by_cases ha : a = 254 <;> by_cases hb : b = 254 <;> by_cases hc : c = 254 <;>
      by_cases hd : d = 254 <;> simp [ha, hb, hc, hd, positional, decodeAux_nil_right] <;> omega

/-- Distinct in-range numbers never share an encoding. -/
theorem encode_injective (n m : Int) (hn0 : 0 ≤ n) (hn1 : n < INT_MAX) (hm0 : 0 ≤ m)
    (hm1 : m < INT_MAX) (h : encode n = encode m) : n = m := by
  obtain ⟨bs, hbs, _, hd⟩ := decode_encode n hn0 hn1
  obtain ⟨cs, hcs, _, hd'⟩ := decode_encode m hm0 hm1
  rw [hbs, hcs] at h
  injection h with h
  subst h
  rw [← hd, ← hd']

/-! Non-vacuity / sanity: concrete instances (tests, labelled as such). -/
example : encode 0 = .ok [1, 254, 254, 254] := by rfl
example : encode 4097152080 = .ok [253, 253, 253, 253] := by rfl
example : encode 16194277 = .ok [1, 1, 1, 2] := by rfl
example : decode [1, 1, 1, 2, 77] = 16194277 := by decide
example : decode [0, 255] = -1 + 253 * 254 := by decide

end EoVerif.Num
