import EoVerif.Props.SrcWriter
import EoVerif.Props.SrcReader
import EoVerif.Props.C07
import EoVerif.Props.C05
/-!
  # C04 (single fields), stated about the translated source

  What the translated `EoWriter` writes, the translated `EoReader` reads back: an EO integer of each width written to a
  fresh writer and read from a fresh reader over exactly those bytes returns the number and consumes the output.  (The
  theorem for whole sequences of typed writes, `RW.roundtrip`, is about the models; through `srcWrite_eq` and the
  `get_*_eq` theorems every step of it is a step of the translated code.)
-/
namespace EoVerif.SrcProps
open EoVerif SrcTie Reader

theorem take_ok (bs : Bytes) (k : Nat) (h : Bytes.ok bs) : Bytes.ok (bs.take k) :=
  fun b hb => h b (List.mem_of_mem_take hb)

/-- the common shape: `k` bytes of `encode_number n` written by the translated writer, read by the translated reader -/
theorem src_number_field (k : Nat) (hk : 1 ≤ k ∧ k ≤ 4) (n : Int) (h0 : 0 ≤ n) (h1 : n < 253 ^ k)
    (wr : List Int → Bool → Int → Py.M (List Int))
    (hwr : ∀ w : Writer, wr (ofBytes w.data) w.san n = wview (Writer.addNumber w n ((253 : Int) ^ k - 1) k))
    (rd : List Int → Int → Bool → Int → Int → Py.M (Int × Int))
    (hrd : ∀ r : Reader, RInv r → rd (ofBytes r.data) r.pos r.chunked r.chunkStart r.nextBreak
        = .ok (((r.readBytes k).1.pos : Int), Num.decode (r.readBytes k).2)) :
    ∃ bs : Bytes, wr (ofBytes ([] : Bytes)) false n = .ok (ofBytes bs) ∧ bs.length = k ∧
      rd (ofBytes bs) 0 false 0 (-1) = .ok ((k : Int), n) := by
  have hk' : k = 1 ∨ k = 2 ∨ k = 3 ∨ k = 4 := by omega
  have h4 : n < Num.INT_MAX := by
    rcases hk' with rfl | rfl | rfl | rfl <;> simp [Num.INT_MAX] at h1 ⊢ <;> omega
  obtain ⟨enc, henc, hl, _⟩ := Num.decode_encode n h0 h4
  obtain ⟨hp, _⟩ := Num.encode_prefix k hk n h0 h1 enc henc
  have hw := hwr {}
  have hcheck : Writer.checkNumberSize n ((253 : Int) ^ k - 1) = .ok () := by
    unfold Writer.checkNumberSize
    have : ¬ (n > (253 : Int) ^ k - 1) := by omega
    simp [this]
  refine ⟨enc.take k, ?_, by simp [hl]; omega, ?_⟩
  · rw [hw]; simp [wview, Writer.addNumber, hcheck, henc]
  · have hr := hrd (Reader.new (enc.take k)) (Reader.inv_new _)
    simp only [Reader.new] at hr
    have hlen : (enc.take k).length = k := by simp [hl]; omega
    have hrb : (({ data := enc.take k } : Reader).readBytes k) = ({ data := enc.take k, pos := k }, enc.take k) := by
      simp [Reader.readBytes, Reader.remaining, hlen, List.take_take]
    rw [hrb] at hr
    simp only [Int.natCast_zero] at hr
    rw [hr, hp]

theorem src_char_roundtrip (n : Int) (h0 : 0 ≤ n) (h1 : n < 253) :
    ∃ bs : Bytes, Src.Writer.EoWriter.add_char (ofBytes ([] : Bytes)) false n = .ok (ofBytes bs) ∧ bs.length = 1 ∧
      Src.Reader.EoReader.get_char (ofBytes bs) 0 false 0 (-1) = .ok (1, n) := by
  have := src_number_field 1 (by omega) n h0 (by simpa using h1) Src.Writer.EoWriter.add_char
    (fun w => by rw [add_char_eq]; simp [Writer.step, Num.CHAR_MAX])
    Src.Reader.EoReader.get_char
    (fun r h => by have := get_number_eq r h 1; simpa [Src.Reader.EoReader.get_char] using this)
  simpa using this

theorem src_short_roundtrip (n : Int) (h0 : 0 ≤ n) (h1 : n < 64009) :
    ∃ bs : Bytes, Src.Writer.EoWriter.add_short (ofBytes ([] : Bytes)) false n = .ok (ofBytes bs) ∧ bs.length = 2 ∧
      Src.Reader.EoReader.get_short (ofBytes bs) 0 false 0 (-1) = .ok (2, n) := by
  have := src_number_field 2 (by omega) n h0 (by simpa using h1) Src.Writer.EoWriter.add_short
    (fun w => by rw [add_short_eq]; simp [Writer.step, Num.SHORT_MAX])
    Src.Reader.EoReader.get_short
    (fun r h => by have := get_number_eq r h 2; simpa [Src.Reader.EoReader.get_short] using this)
  simpa using this

theorem src_three_roundtrip (n : Int) (h0 : 0 ≤ n) (h1 : n < 16194277) :
    ∃ bs : Bytes, Src.Writer.EoWriter.add_three (ofBytes ([] : Bytes)) false n = .ok (ofBytes bs) ∧ bs.length = 3 ∧
      Src.Reader.EoReader.get_three (ofBytes bs) 0 false 0 (-1) = .ok (3, n) := by
  have := src_number_field 3 (by omega) n h0 (by simpa using h1) Src.Writer.EoWriter.add_three
    (fun w => by rw [add_three_eq]; simp [Writer.step, Num.THREE_MAX])
    Src.Reader.EoReader.get_three
    (fun r h => by have := get_number_eq r h 3; simpa [Src.Reader.EoReader.get_three] using this)
  simpa using this

theorem src_int_roundtrip (n : Int) (h0 : 0 ≤ n) (h1 : n < 4097152081) :
    ∃ bs : Bytes, Src.Writer.EoWriter.add_int (ofBytes ([] : Bytes)) false n = .ok (ofBytes bs) ∧ bs.length = 4 ∧
      Src.Reader.EoReader.get_int (ofBytes bs) 0 false 0 (-1) = .ok (4, n) := by
  have := src_number_field 4 (by omega) n h0 (by simpa using h1) Src.Writer.EoWriter.add_int
    (fun w => by rw [add_int_eq]; simp [Writer.step, Num.INT_MAX])
    Src.Reader.EoReader.get_int
    (fun r h => by have := get_number_eq r h 4; simpa [Src.Reader.EoReader.get_int] using this)
  simpa using this

end EoVerif.SrcProps
