import EoVerif.Model.Hash
import EoVerif.Spec.Hash
/-!
# C11 — server verification hash equals the game client's arithmetic

`hash` models `server_verification_hash` of the current tree (after the `fix:` commit to `_mod`);
`hashOld` models the pinned tree.  `hashC` is the published formula with C remainder.
-/
namespace EoVerif.Hash

/-- `_mod` (repaired) is exactly the truncating remainder for positive moduli. -/
theorem pyMod_eq_tmod (a b : Int) (hb : 0 < b) : pyMod a b = a.tmod b := by
  unfold pyMod
  rw [Int.fmod_eq_emod_of_nonneg a (Int.le_of_lt hb), Int.tmod_eq_emod]
  simp only [Int.dvd_iff_emod_eq_zero]
  have hr := Int.emod_nonneg a (by omega : b ≠ 0)
  by_cases ha : a < 0 <;> by_cases h0 : a % b = 0
  · simp [ha, h0]
  · have : ¬ (0 ≤ a) := by omega
    simp [ha, h0, this]; omega
  · have : 0 ≤ a := by omega
    simp [ha, h0, this]
  · have : 0 ≤ a := by omega
    simp [ha, h0, this]

/-- For every challenge a client can send (indeed every non-negative one) the hash equals the
    client's value. -/
theorem hash_eq_c (c : Int) (h : 0 ≤ c) : hash c = hashC c := by
  simp only [hash, hashWith, hashC]
  have h11 : (c + 1).fmod 11 = (c + 1).tmod 11 := by
    rw [Int.fmod_eq_emod_of_nonneg _ (by omega), Int.tmod_eq_emod_of_nonneg (by omega)]
  have hm : 0 < ((c + 1).tmod 11 + 1) * 119 := by
    rw [Int.tmod_eq_emod_of_nonneg (by omega)]; omega
  simp only [h11]
  rw [pyMod_eq_tmod _ _ (by omega), pyMod_eq_tmod _ _ hm, pyMod_eq_tmod _ _ (by omega)]

/-- In particular on the whole three-byte challenge field. -/
theorem hash_eq_c_three (c : Int) (h0 : 0 ≤ c) (_h1 : c < 253 ^ 3) : hash c = hashC c :=
  hash_eq_c c h0

/-- The pinned tree did *not* satisfy this: `_mod` returned `−b` on exact negative multiples.
    Witness (replayed on the real code by the harness; see known_findings.json). -/
theorem old_differs : hashOld 11092479 ≠ hashC 11092479 := by decide

private theorem pyMod_of_nonneg (a b : Int) (ha : 0 ≤ a) : pyMod a b = a.fmod b := by
  unfold pyMod
  have : ¬ a < 0 := by omega
  simp [this]

private theorem fits_low (c : Int) (h0 : 0 ≤ c) (h1 : c ≤ 11092003) :
    0 ≤ hash c ∧ hash c < 253 ^ 4 := by
  simp only [hash, hashWith]
  rw [pyMod_of_nonneg (c + 1) 9 (by omega), pyMod_of_nonneg (11092004 - (c + 1)) _ (by omega),
    pyMod_of_nonneg (c + 1) 2004 (by omega)]
  have hk : (c + 1).fmod 11 = (c + 1) % 11 := Int.fmod_eq_emod_of_nonneg _ (by omega)
  rw [hk]
  have hmpos : 0 < ((c + 1) % 11 + 1) * 119 := by omega
  rw [Int.fmod_eq_emod_of_nonneg _ (by omega : (0:Int) ≤ 9), Int.fmod_eq_emod_of_nonneg _ (by omega : (0:Int) ≤ 2004),
    Int.fmod_eq_emod_of_nonneg _ (Int.le_of_lt hmpos)]
  have hv0 := Int.emod_nonneg (11092004 - (c + 1)) (by omega : ((c + 1) % 11 + 1) * 119 ≠ 0)
  have hv1 := Int.emod_lt_of_pos (11092004 - (c + 1)) hmpos
  generalize (11092004 - (c + 1)) % (((c + 1) % 11 + 1) * 119) = v at hv0 hv1
  have hu0 : 0 ≤ (c + 1) % 9 + 1 := by omega
  have huv0 : 0 ≤ ((c + 1) % 9 + 1) * v := Int.mul_nonneg hu0 hv0
  have huv1 : ((c + 1) % 9 + 1) * v ≤ 9 * 1308 :=
    Int.mul_le_mul (by omega) (by omega) hv0 (by omega)
  simp only [Int.reducePow]
  generalize ((c + 1) % 9 + 1) * v = uv at huv0 huv1
  omega

private theorem fits_high : ∀ k : Fin 107,
    0 ≤ hash (11092004 + (k.val : Int)) ∧ hash (11092004 + (k.val : Int)) < 253 ^ 4 := by
  decide +kernel

/-- Up to the documented bound the hash is non-negative and fits an EO int. -/
theorem nonneg_fits (c : Int) (h0 : 0 ≤ c) (h1 : c ≤ 11092110) : 0 ≤ hash c ∧ hash c < 253 ^ 4 := by
  by_cases hl : c ≤ 11092003
  · exact fits_low c h0 hl
  · have hk : (c - 11092004).toNat < 107 := by omega
    have := fits_high ⟨(c - 11092004).toNat, hk⟩
    have e : 11092004 + (((c - 11092004).toNat : Nat) : Int) = c := by omega
    rw [e] at this
    exact this

/-- The documented bound is tight: the next challenge hashes to a negative number. -/
theorem bound_is_tight : hashC 11092111 < 0 ∧ hash 11092111 < 0 := by decide

/-! Sanity instances (the suite's own vectors; tests, labelled as such). -/
example : hash 0 = 114000 := by decide
example : hash 100000 = 145554 := by decide
example : hash 11092110 = 11016 := by decide

end EoVerif.Hash
