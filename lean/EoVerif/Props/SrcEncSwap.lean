import EoVerif.Props.SrcEnc
/-!
  # Source tie for `swap_multiples` (C10)

  The translated `swap_multiples` (nested `for` loops: the outer one tracks the current run of multiples, the inner one
  reverses it in place by swapping its ends) is the hand-written model `Enc.swapMultiples` (a one-pass accumulation of
  the current run, reversed) for every byte string with bytes < 256 and every `multiple`.
-/
namespace EoVerif.SrcTie
open EoVerif

/-! ### the inner loop reverses the segment `M` of `P ++ M ++ Q` in place -/

theorem getD_append_mid (P : List Int) (x : Int) (R : List Int) : (P ++ x :: R).getD P.length 0 = x := by simp

theorem set_append_mid (P : List Int) (x v : Int) (R : List Int) : (P ++ x :: R).set P.length v = P ++ v :: R := by
  simp

/-- a list with at least two elements is `x :: M' ++ [y]` -/
theorem ends_of_two_le (M : List Int) (h : 2 ≤ M.length) : ∃ x M' y, M = x :: M' ++ [y] := by
  match M, h with
  | x :: rest, h =>
    have hr : rest ≠ [] := by intro e; subst e; simp at h
    refine ⟨x, rest.dropLast, rest.getLast hr, ?_⟩
    rw [List.cons_append, List.dropLast_concat_getLast hr]

theorem reverse_loop (i sl : Int) : ∀ (k : Nat) (P M Q : List Int) (ii : Nat),
    (P.length : Int) = i - sl + ii → (M.length : Int) = sl - 2 * ii → (M.length / 2 = k) →
    (∀ x ∈ M, 0 ≤ x ∧ x < 256) →
    Py.forRangeGo (Src.Enc.swap_multiples_loop2_body i sl) k (ii : Int) (P ++ M ++ Q) = .ok (P ++ M.reverse ++ Q) := by
  intro k
  induction k with
  | zero =>
    intro P M Q ii _ _ hk _
    have : M.length ≤ 1 := by omega
    have hrev : M.reverse = M := by
      match M, this with
      | [], _ => rfl
      | [a], _ => rfl
    simp [Py.forRangeGo, hrev]
  | succ k ih =>
    intro P M Q ii hP hM hk hr
    obtain ⟨x, M', y, rfl⟩ := ends_of_two_le M (by omega)
    have hx := hr x (by simp)
    have hy := hr y (by simp)
    have hlen : ((P ++ (x :: M' ++ [y]) ++ Q).length : Int) = P.length + (M'.length + 2) + Q.length := by
      simp; omega
    simp only [List.length_append, List.length_cons, List.length_nil, Int.natCast_add, Int.natCast_one] at hM
    -- the two indices
    have hp : i - sl + (ii : Int) = (P.length : Int) := by omega
    have hq : i - (ii : Int) - 1 = ((P ++ x :: M').length : Int) := by simp; omega
    have hb : Src.Enc.swap_multiples_loop2_body i sl (ii : Int) (P ++ (x :: M' ++ [y]) ++ Q)
        = .ok (P ++ (y :: M' ++ [x]) ++ Q, false) := by
      simp only [Src.Enc.swap_multiples_loop2_body, hp, hq]
      have e1 : P ++ (x :: M' ++ [y]) ++ Q = P ++ x :: (M' ++ y :: Q) := by simp
      have e2 : P ++ (x :: M' ++ [y]) ++ Q = (P ++ x :: M') ++ y :: Q := by simp
      rw [Py.getItem_ok _ _ _ (by rw [hlen]; omega)]
      rw [Py.getItem_ok _ _ _ (by rw [hlen]; simp; omega)]
      have g1 : (P ++ (x :: M' ++ [y]) ++ Q).getD (P.length : Int).toNat 0 = x := by
        rw [e1, Int.toNat_natCast, getD_append_mid]
      have g2 : (P ++ (x :: M' ++ [y]) ++ Q).getD ((P ++ x :: M').length : Int).toNat 0 = y := by
        rw [e2, Int.toNat_natCast, getD_append_mid]
      rw [g1, g2]
      rw [Py.setItem_ok _ _ _ _ (by rw [hlen]; omega) hy]
      have s1 : (P ++ (x :: M' ++ [y]) ++ Q).set (P.length : Int).toNat y = (P ++ y :: M') ++ y :: Q := by
        rw [e1, Int.toNat_natCast, set_append_mid]; simp
      rw [s1]
      have hl2 : ((P ++ x :: M').length : Int) = ((P ++ y :: M').length : Int) := by simp
      rw [hl2, Py.setItem_ok _ _ _ _ (by simp; omega) hx, Int.toNat_natCast, set_append_mid]
      simp
    rw [Py.forRangeGo_step _ _ _ _ _ hb]
    have e3 : P ++ (y :: M' ++ [x]) ++ Q = (P ++ [y]) ++ M' ++ ([x] ++ Q) := by simp
    have e4 : ((ii : Int) + 1) = ((ii + 1 : Nat) : Int) := by omega
    rw [e3, e4, ih (P ++ [y]) M' ([x] ++ Q) (ii + 1) (by simp; omega) (by omega) (by simp at hk; omega)
      (fun z hz => hr z (by simp [hz]))]
    simp

/-! ### the flush: reverse the current run in place when it is longer than one -/

def inRange (l : List Int) : Prop := ∀ x ∈ l, 0 ≤ x ∧ x < 256

theorem flush_eq (done run rest : List Int) (hr : inRange run) :
    (if decide (((run.length : Nat) : Int) > 1) = true then
        Py.bind (Py.forRange (Int.fdiv ((run.length : Nat) : Int) 2) (done ++ run ++ rest)
          (Src.Enc.swap_multiples_loop2_body ((done.length + run.length : Nat) : Int) ((run.length : Nat) : Int)))
          fun data => (.ok data : Py.M (List Int))
      else .ok (done ++ run ++ rest))
      = .ok (done ++ run.reverse ++ rest) := by
  by_cases h : ((run.length : Nat) : Int) > 1
  · simp only [h, decide_true, if_true, Py.forRange]
    have hk : (Int.fdiv ((run.length : Nat) : Int) 2).toNat = run.length / 2 := by
      rw [Int.fdiv_eq_ediv_of_nonneg _ (by omega)]; omega
    rw [hk]
    have := reverse_loop ((done.length + run.length : Nat) : Int) ((run.length : Nat) : Int) (run.length / 2) done run rest 0
      (by simp) (by simp) rfl hr
    simp only [Int.natCast_zero] at this
    rw [this]; rfl
  · have hl : run.length ≤ 1 := by omega
    have hrev : run.reverse = run := by
      match run, hl with
      | [], _ => rfl
      | [a], _ => rfl
    simp [h, hrev]

/-! ### the outer loop against `swapAux` -/

theorem ofBytesE_inRange (bs : Bytes) (h : Bytes.ok bs) : inRange (ofBytesE bs) := by
  intro x hx
  simp only [ofBytesE, List.mem_map] at hx
  obtain ⟨n, hn, rfl⟩ := hx
  have := h n hn
  simp; omega

theorem fmod_cast (x m : Nat) (hm : 0 < m) : Int.fmod (x : Int) (m : Int) = ((x % m : Nat) : Int) := by
  rw [Int.fmod_eq_emod_of_nonneg _ (by omega)]; simp

theorem outer_loop (m : Nat) (hm : 0 < m) : ∀ (rest done run : Bytes),
    Bytes.ok (done ++ run ++ rest) →
    Py.forRangeGo (Src.Enc.swap_multiples_loop1_body (m : Int)) (rest.length + 1) ((done.length + run.length : Nat) : Int)
        (ofBytesE (done ++ run ++ rest), ((run.length : Nat) : Int))
      = .ok (ofBytesE (done ++ Enc.swapAux m rest run.reverse), 0) := by
  intro rest
  induction rest with
  | nil =>
    intro done run hok
    have hfl := flush_eq (ofBytesE done) (ofBytesE run) [] (ofBytesE_inRange run (fun b hb => hok b (by simp [hb])))
    have hb : Src.Enc.swap_multiples_loop1_body (m : Int) ((done.length + run.length : Nat) : Int)
        (ofBytesE (done ++ run ++ []), ((run.length : Nat) : Int)) = .ok ((ofBytesE (done ++ run.reverse), 0), false) := by
      simp only [Src.Enc.swap_multiples_loop1_body, Py.len, ofBytesE, List.append_nil, List.map_append, List.length_append,
        List.length_map, List.map_reverse] at hfl ⊢
      have hne : ¬ (((done.length + run.length : Nat) : Int) ≠ ((done.length + run.length : Nat) : Int)) := by simp
      simp only [hne, decide_false, Bool.false_eq_true, if_false]
      rw [hfl]; rfl
    rw [List.length_nil, Nat.zero_add, Py.forRangeGo_step _ _ _ _ _ hb]
    simp [Py.forRangeGo, Enc.swapAux]
  | cons x rest ih =>
    intro done run hok
    have hx : x < 256 := hok x (by simp)
    have hlen : ((ofBytesE (done ++ run ++ x :: rest)).length : Int) = done.length + run.length + (rest.length + 1) := by
      simp [ofBytesE]; omega
    have hne : ((done.length + run.length : Nat) : Int) ≠ Py.len (ofBytesE (done ++ run ++ x :: rest)) := by
      rw [Py.len, hlen]; omega
    have hget : (ofBytesE (done ++ run ++ x :: rest)).getD ((done.length + run.length : Nat) : Int).toNat 0 = (x : Int) := by
      rw [Int.toNat_natCast]
      have : ofBytesE (done ++ run ++ x :: rest) = ofBytesE (done ++ run) ++ (x : Int) :: ofBytesE rest := by simp [ofBytesE]
      rw [this]
      have hl : done.length + run.length = (ofBytesE (done ++ run)).length := by simp [ofBytesE]
      rw [hl, getD_append_mid]
    have hmne : (m : Int) ≠ 0 := by omega
    by_cases hdiv : x % m = 0
    · -- the run grows
      have hb : Src.Enc.swap_multiples_loop1_body (m : Int) ((done.length + run.length : Nat) : Int)
          (ofBytesE (done ++ run ++ x :: rest), ((run.length : Nat) : Int))
          = .ok ((ofBytesE (done ++ (run ++ [x]) ++ rest), (((run ++ [x]).length : Nat) : Int)), false) := by
        simp only [Src.Enc.swap_multiples_loop1_body, hne, decide_true, if_true, ne_eq, not_false_eq_true]
        rw [Py.getItem_ok _ _ _ (by rw [hlen]; omega), hget]
        simp only [Py.floorMod, hmne, if_false, fmod_cast x m hm, hdiv]
        simp [ofBytesE]
      rw [List.length_cons, Py.forRangeGo_step _ _ _ _ _ hb]
      have := ih done (run ++ [x]) (by simpa using hok)
      simp only [List.length_append, List.length_cons, List.length_nil, Nat.zero_add] at this
      have e : (((done.length + run.length : Nat) : Int) + 1) = ((done.length + (run.length + 1) : Nat) : Int) := by omega
      have e2 : (run ++ [x]).length = run.length + 1 := by simp
      rw [e, e2, this]
      simp [Enc.swapAux, hdiv]
    · -- a non-multiple flushes the run
      have hfl := flush_eq (ofBytesE done) (ofBytesE run) (ofBytesE (x :: rest))
        (ofBytesE_inRange run (fun b hb => hok b (by simp [hb])))
      have hb : Src.Enc.swap_multiples_loop1_body (m : Int) ((done.length + run.length : Nat) : Int)
          (ofBytesE (done ++ run ++ x :: rest), ((run.length : Nat) : Int))
          = .ok ((ofBytesE ((done ++ run.reverse ++ [x]) ++ [] ++ rest), (((([] : Bytes)).length : Nat) : Int)), false) := by
        simp only [Src.Enc.swap_multiples_loop1_body, hne, decide_true, if_true, ne_eq, not_false_eq_true]
        rw [Py.getItem_ok _ _ _ (by rw [hlen]; omega), hget]
        have hnz : ¬ (((x % m : Nat) : Int) = 0) := by omega
        simp only [Py.floorMod, hmne, if_false, fmod_cast x m hm, hnz, decide_false, Bool.false_eq_true]
        simp only [ofBytesE, List.map_append, List.length_map, List.map_cons, List.map_reverse] at hfl ⊢
        rw [hfl]
        simp
      rw [List.length_cons, Py.forRangeGo_step _ _ _ _ _ hb]
      have := ih (done ++ run.reverse ++ [x]) [] (by
        intro b hb
        simp only [List.append_nil, List.mem_append, List.mem_reverse, List.mem_cons, List.not_mem_nil, or_false] at hb
        apply hok b
        simp only [List.mem_append, List.mem_cons]
        rcases hb with ((h1 | h1) | h1) | h1
        · exact Or.inl (Or.inl h1)
        · exact Or.inl (Or.inr h1)
        · exact Or.inr (Or.inl h1)
        · exact Or.inr (Or.inr h1))
      simp only [List.length_append, List.length_reverse, List.length_cons, List.length_nil, Nat.add_zero] at this
      have e : (((done.length + run.length : Nat) : Int) + 1) = ((done.length + run.length + (0 + 1) + 0 : Nat) : Int) := by omega
      rw [e]
      simp only [Nat.zero_add, Nat.add_zero, List.length_nil] at this ⊢
      rw [this]
      simp [Enc.swapAux, hdiv]

theorem swap_multiples_eq (bs : Bytes) (hbs : Bytes.ok bs) (multiple : Int) :
    Src.Enc.swap_multiples (ofBytesE bs) multiple = (Enc.swapMultiples bs multiple).map ofBytesE := by
  unfold Src.Enc.swap_multiples Enc.swapMultiples
  by_cases h1 : multiple < 0
  · simp [h1, Except.map]
  · by_cases h2 : multiple = 0
    · simp [h1, h2, Except.map]
    · simp only [h1, h2, decide_false, Bool.false_eq_true, if_false, Py.forRange]
      obtain ⟨m, rfl⟩ : ∃ m : Nat, multiple = (m : Int) := ⟨multiple.toNat, by omega⟩
      have hm : 0 < m := by omega
      have hk : (Py.len (ofBytesE bs) + 1).toNat = bs.length + 1 := by simp [Py.len, ofBytesE]
      rw [hk]
      have := outer_loop m hm bs [] [] (by simpa using hbs)
      simp only [List.length_nil, Nat.add_zero, List.nil_append, Int.natCast_zero, List.reverse_nil] at this
      rw [this]
      simp [Except.map]

end EoVerif.SrcTie
