import EoVerif.Props.SrcPropsC09b
import EoVerif.Props.C07
/-!
  # C06 (why chunk framing works), stated about the translated source

  "No in-range integer encoding and no sanitised string ever contains the break byte": the bytes the translated writer
  appends for an in-range EO integer of any width contain no 0xFF (the sanitised-string half is
  `src_add_string_sanitised` / `src_add_encoded_string_sanitised`).
-/
namespace EoVerif.SrcProps
open EoVerif SrcTie

theorem addNumber_no_break (w : Writer) (k : Nat) (hk : 1 ≤ k ∧ k ≤ 4) (n : Int) (h0 : 0 ≤ n) (h1 : n < 253 ^ k) :
    ∃ bs : Bytes, wview (Writer.addNumber w n ((253 : Int) ^ k - 1) k) = .ok (ofBytes (w.data ++ bs)) ∧ bs.length = k ∧ 0xFF ∉ bs := by
  have hk' : k = 1 ∨ k = 2 ∨ k = 3 ∨ k = 4 := by omega
  have h4 : n < Num.INT_MAX := by
    rcases hk' with rfl | rfl | rfl | rfl <;> simp [Num.INT_MAX] at h1 ⊢ <;> omega
  obtain ⟨enc, henc, hl, _⟩ := Num.decode_encode n h0 h4
  have hsafe := Num.encode_wire_safe n h0 h4 enc henc
  have hcheck : Writer.checkNumberSize n ((253 : Int) ^ k - 1) = .ok () := by
    unfold Writer.checkNumberSize
    have : ¬ (n > (253 : Int) ^ k - 1) := by omega
    simp [this]
  refine ⟨enc.take k, ?_, by simp [hl]; omega, ?_⟩
  · simp [wview, Writer.addNumber, hcheck, henc]
  · intro hm
    exact (hsafe 0xFF (List.mem_of_mem_take hm)).2.1 rfl

theorem src_add_char_no_break (w : Writer) (n : Int) (h0 : 0 ≤ n) (h1 : n < 253) :
    ∃ bs : Bytes, Src.Writer.EoWriter.add_char (ofBytes w.data) w.san n = .ok (ofBytes (w.data ++ bs)) ∧ bs.length = 1 ∧ 0xFF ∉ bs := by
  have := addNumber_no_break w 1 (by omega) n h0 (by simpa using h1)
  rw [add_char_eq]; simpa [Writer.step, Num.CHAR_MAX] using this

theorem src_add_short_no_break (w : Writer) (n : Int) (h0 : 0 ≤ n) (h1 : n < 64009) :
    ∃ bs : Bytes, Src.Writer.EoWriter.add_short (ofBytes w.data) w.san n = .ok (ofBytes (w.data ++ bs)) ∧ bs.length = 2 ∧ 0xFF ∉ bs := by
  have := addNumber_no_break w 2 (by omega) n h0 (by simpa using h1)
  rw [add_short_eq]; simpa [Writer.step, Num.SHORT_MAX] using this

theorem src_add_three_no_break (w : Writer) (n : Int) (h0 : 0 ≤ n) (h1 : n < 16194277) :
    ∃ bs : Bytes, Src.Writer.EoWriter.add_three (ofBytes w.data) w.san n = .ok (ofBytes (w.data ++ bs)) ∧ bs.length = 3 ∧ 0xFF ∉ bs := by
  have := addNumber_no_break w 3 (by omega) n h0 (by simpa using h1)
  rw [add_three_eq]; simpa [Writer.step, Num.THREE_MAX] using this

theorem src_add_int_no_break (w : Writer) (n : Int) (h0 : 0 ≤ n) (h1 : n < 4097152081) :
    ∃ bs : Bytes, Src.Writer.EoWriter.add_int (ofBytes w.data) w.san n = .ok (ofBytes (w.data ++ bs)) ∧ bs.length = 4 ∧ 0xFF ∉ bs := by
  have := addNumber_no_break w 4 (by omega) n h0 (by simpa using h1)
  rw [add_int_eq]; simpa [Writer.step, Num.INT_MAX] using this

end EoVerif.SrcProps
