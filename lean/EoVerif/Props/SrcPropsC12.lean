import EoVerif.Props.SrcSeq
import EoVerif.Props.C12
import EoVerif.Props.C13
/-!
  # C12 and C13, stated about the translated source

  Compositions of `Props/SrcSeq.lean` (translated source = model) with the property theorems of `Props/C12.lean`
  and `Props/C13.lean`: only translated Python functions occur in the statements.
-/
namespace EoVerif.SrcProps
open EoVerif SrcTie

/-- INIT: whatever the random source returns inside the ranges the code asks for (and the second range is never empty),
    `generate()` succeeds, the value is the first draw, both wire components fit 0..252, and `from_init_values` of the
    components — what the peer does on receipt — reproduces the very same instance -/
theorem src_init_generate (r1 : Int) (h1 : 0 ≤ r1 ∧ r1 < 1757) :
    0 < Seq.initDraw2 r1 ∧ ∀ r2, 0 ≤ r2 ∧ r2 < Seq.initDraw2 r1 →
      ∃ v s1 s2 : Int, Src.SeqStart.InitSequenceStart.generate r1 r2 = .ok (v, s1, s2) ∧ v = r1 ∧
        0 ≤ s1 ∧ s1 ≤ 252 ∧ 0 ≤ s2 ∧ s2 ≤ 252 ∧
        Src.SeqStart.InitSequenceStart.from_init_values s1 s2 = .ok (v, s1, s2) := by
  have h1' : 0 ≤ r1 ∧ r1 < Seq.draw1 := h1
  obtain ⟨hpos, hall⟩ := Seq.init_ok r1 h1'
  refine ⟨hpos, ?_⟩
  intro r2 h2
  have h := hall r2 h2
  simp only at h
  obtain ⟨hv, _, _, a1, a2, b1, b2, hfrom⟩ := h
  refine ⟨(Seq.initGenerate r1 r2).value, (Seq.initGenerate r1 r2).seq1, (Seq.initGenerate r1 r2).seq2, ?_, hv, a1, a2, b1, b2, ?_⟩
  · rw [init_generate_eq]; simp [h1', h2, tupleOf]
  · rw [from_init_values_eq, hfrom]; rfl

/-- PING: the components are a short and a char, and `from_ping_values` reproduces the instance -/
theorem src_ping_generate (r1 r2 : Int) (h1 : 0 ≤ r1 ∧ r1 < 1757) (h2 : 0 ≤ r2 ∧ r2 < 252) :
    ∃ v s1 s2 : Int, Src.SeqStart.PingSequenceStart.generate r1 r2 = .ok (v, s1, s2) ∧ v = r1 ∧
      0 ≤ s1 ∧ s1 < 253 ^ 2 ∧ 0 ≤ s2 ∧ s2 < 253 ∧
      Src.SeqStart.PingSequenceStart.from_ping_values s1 s2 = .ok (v, s1, s2) := by
  have h1' : 0 ≤ r1 ∧ r1 < Seq.draw1 := h1
  have h2' : 0 ≤ r2 ∧ r2 < Seq.pingDraw2 := h2
  have h := (Seq.ping_ok r1 r2 h1' h2').2
  simp only at h
  obtain ⟨hv, _, _, a1, a2, b1, b2, hfrom⟩ := h
  refine ⟨(Seq.pingGenerate r1 r2).value, (Seq.pingGenerate r1 r2).seq1, (Seq.pingGenerate r1 r2).seq2, ?_, hv, a1, a2, b1, b2, ?_⟩
  · rw [ping_generate_eq]; simp [h1', h2', tupleOf]
  · rw [from_ping_values_eq, hfrom]; rfl

/-- ACCOUNT_REPLY: one char, reproduced by `from_value` -/
theorem src_account_generate (r : Int) (h : 0 ≤ r ∧ r < 240) :
    ∃ v : Int, Src.SeqStart.AccountReplySequenceStart.generate r = .ok v ∧ 0 ≤ v ∧ v < 253 ∧
      Src.SeqStart.AccountReplySequenceStart.from_value v = .ok v := by
  have h' : 0 ≤ r ∧ r < Seq.accountDraw := h
  obtain ⟨_, a, b, hf⟩ := Seq.account_ok r h'
  refine ⟨Seq.accountGenerate r, ?_, a, b, ?_⟩
  · rw [account_generate_eq]; simp [h']
  · rw [from_value_eq, hf]

/-- C13, one step: `next_sequence` of the translated sequencer returns start + counter and advances the counter mod 10;
    `set_sequence_start` changes the start and nothing else -/
theorem src_sequencer_step (start counter v : Int) :
    Src.Sequencer.PacketSequencer.next_sequence start counter = .ok ((counter + 1) % 10, start + counter) ∧
    Src.Sequencer.PacketSequencer.set_sequence_start start counter v = .ok v := by
  have h1 := (next_sequence_eq ⟨start, counter⟩).1
  have h2 := (set_sequence_start_eq ⟨start, counter⟩ v).1
  simp only [Seq.Sequencer.step] at h1 h2
  exact ⟨by simpa using h1, by simpa using h2⟩

end EoVerif.SrcProps
