import EoVerif.Generated.SrcWriter
import EoVerif.Model.Writer
import EoVerif.Lemmas.PyLoops
import EoVerif.Props.SrcNum
import EoVerif.Props.SrcStr
/-!
  # Source tie for `eolib/data/eo_writer.py` (C09; also the writer half of C04 and C06)

  Every method of `EoWriter` is translated from the working tree on every run (an instance is the pair
  `(data, _string_sanitization_mode)`; a method returns the fields it assigns; helper calls, the cross-module calls
  `encode_number` / `encode_string`, `bytearray` slicing, `append`/`extend` and the `'windows-1252'` codec call are
  rendered by the rules of DESIGN §8.8).  The theorems prove that each public method **is** the corresponding case of
  the hand-written model `Writer.step` — same bytes appended on success, same exception and an unchanged writer on
  failure — for every writer state and every argument.
-/
namespace EoVerif.SrcTie
open EoVerif

/-- how a model step is seen through the translated method: the new `data`, or the exception -/
def wview (r : Writer × Except PyErr Unit) : Py.M (List Int) :=
  match r.2 with
  | .ok () => .ok (ofBytes r.1.data)
  | .error e => .error e

theorem check_number_size_eq (n m : Int) :
    Src.Writer.EoWriter._check_number_size n m = Writer.checkNumberSize n m := by
  unfold Src.Writer.EoWriter._check_number_size Writer.checkNumberSize
  by_cases h : n > m <;> simp [h]

theorem check_string_length_eq (s : Ansi.Str) (length : Int) (padded : Bool) :
    Src.Writer.EoWriter._check_string_length s length padded = Writer.checkStringLength s length padded := by
  unfold Src.Writer.EoWriter._check_string_length Writer.checkStringLength Py.lenS
  cases padded
  · by_cases h : (s.length : Int) ≠ length <;> simp [h]
  · by_cases h : length ≥ (s.length : Int) <;> simp [h]

theorem encode_ansi_eq (s : Ansi.Str) : Src.Writer.EoWriter._encode_ansi s = .ok (ofBytes (Ansi.encode s)) := rfl

theorem sanitize_eq (d : List Int) (san : Bool) (bs : Bytes) :
    Src.Writer.EoWriter._sanitize_string d san (ofBytes bs) = .ok (ofBytes (Writer.sanitize san bs)) := by
  unfold Src.Writer.EoWriter._sanitize_string Writer.sanitize
  cases san
  · simp
  · simp only [if_true, Py.forRange]
    have hl : (Py.len (ofBytes bs)).toNat = (ofBytes bs).length := by simp [Py.len]
    rw [hl]
    have hmap : ofBytes (bs.map (fun b => if b = 0xFF then 0x79 else b)) =
        (ofBytes bs).map (fun c => if c = 255 then 121 else c) := by
      simp only [ofBytes, List.map_map]
      apply List.map_congr_left
      intro n _
      by_cases h : n = 255
      · simp [h]
      · have : ¬ ((n : Int) = 255) := by omega
        simp [h, this]
    have key := map_main (fun _ => True) (fun c => if c = 255 then 121 else c) Src.Writer.EoWriter__sanitize_string_loop1_body ?_ (ofBytes bs) (fun _ _ => trivial)
    · rw [hmap, key]; rfl
    · intro done c rest _
      have h0 : (0 : Int) ≤ done.length ∧ (done.length : Int) < ((done ++ c :: rest).length : Int) := by
        simp; omega
      simp only [Src.Writer.EoWriter__sanitize_string_loop1_body]
      rw [Py.getItem_ok _ _ _ h0]
      have hget : (done ++ c :: rest).getD (done.length : Int).toNat 0 = c := by simp
      rw [hget]
      by_cases hc : c = 255
      · simp only [hc, decide_true, if_true]
        rw [Py.setItem_ok _ _ _ _ (by simpa using h0) (by omega)]
        simp
      · simp [hc]

theorem add_padding_eq (bs : Bytes) (length : Int) (h : (bs.length : Int) ≤ length) :
    Src.Writer.EoWriter._add_padding (ofBytes bs) length = .ok (ofBytes (Writer.addPadding bs length)) := by
  unfold Src.Writer.EoWriter._add_padding Writer.addPadding
  have hl : Py.len (ofBytes bs) = (bs.length : Int) := Py.len_map_ofNat bs
  rw [hl]
  by_cases he : (bs.length : Int) = length
  · simp [he]
  · simp only [he, decide_false, Bool.false_eq_true, if_false]
    obtain ⟨n, rfl⟩ : ∃ n : Nat, length = (n : Int) := ⟨length.toNat, by omega⟩
    rw [Py.zeros_ok]
    have hall : (List.replicate ((n : Int) - (bs.length : Int)).toNat (255 : Int)).all
        (fun v => decide (0 ≤ v) && decide (v < 256)) = true := by
      simp
    simp only [Py.mkBytes, hall, if_true, Py.setPrefix, Py.setSuffix, Py.clip, Py.len, List.length_replicate,
      List.length_append, List.length_drop]
    have h1 : ¬ ((bs.length : Int) < 0) := by omega
    have hmin : min (bs.length : Int).toNat n = bs.length := by omega
    have hlenb : (ofBytes bs).length = bs.length := by simp [ofBytes]
    simp only [h1, if_false, hmin, hlenb]
    have hmin2 : min (bs.length : Int).toNat (bs.length + (n - bs.length)) = bs.length := by omega
    simp only [hmin2, List.take_left' hlenb]
    have : ((n : Int) - (bs.length : Int)).toNat = n - bs.length := by omega
    simp [ofBytes, this]

theorem slicePrefix_ofBytes (bs : Bytes) (k : Nat) : Py.slicePrefix (ofBytes bs) (k : Int) = ofBytes (bs.take k) := by
  have h1 : ¬ ((k : Int) < 0) := by omega
  simp only [Py.slicePrefix, Py.clip, h1, if_false, Int.toNat_natCast, ofBytes, List.length_map, List.map_take]
  by_cases h : k ≤ bs.length
  · rw [Nat.min_eq_left h]
  · rw [Nat.min_eq_right (by omega), List.take_of_length_le (by simp), List.take_of_length_le (by simp; omega)]

theorem strBytes_length (w : Writer) (s : Ansi.Str) : (Writer.strBytes w s).length = s.length := by
  unfold Writer.strBytes Writer.sanitize Ansi.encode
  cases w.san <;> simp

theorem ofBytes_append (a b : Bytes) : ofBytes a ++ ofBytes b = ofBytes (a ++ b) := by simp [ofBytes]

/-! ### the public methods -/

theorem init_eq : Src.Writer.EoWriter.__init__ = .ok (ofBytes ({} : Writer).data, ({} : Writer).san) := rfl

theorem san_getter_eq (w : Writer) :
    Src.Writer.EoWriter.string_sanitization_mode (ofBytes w.data) w.san = .ok w.san := rfl

theorem san_setter_eq (w : Writer) (b : Bool) :
    Src.Writer.EoWriter.string_sanitization_mode_setter (ofBytes w.data) w.san b = .ok (w.step (.setSan b)).1.san ∧
      (w.step (.setSan b)).1.data = w.data := ⟨rfl, rfl⟩

theorem to_bytearray_eq (w : Writer) : Src.Writer.EoWriter.to_bytearray (ofBytes w.data) w.san = .ok (ofBytes w.data) := rfl

theorem len_eq (w : Writer) : Src.Writer.EoWriter.__len__ (ofBytes w.data) w.san = .ok (w.data.length : Int) := by
  simp [Src.Writer.EoWriter.__len__, Py.len, ofBytes]

theorem add_byte_eq (w : Writer) (v : Int) :
    Src.Writer.EoWriter.add_byte (ofBytes w.data) w.san v = wview (w.step (.addByte v)) := by
  unfold Src.Writer.EoWriter.add_byte Writer.step wview
  rw [check_number_size_eq]
  unfold Writer.checkNumberSize Py.append
  by_cases h1 : v > 255
  · simp [h1]
  · by_cases h2 : v < 0
    · have : ¬ (0 ≤ v ∧ v < 256) := by omega
      simp [h1, h2, this]
    · have : 0 ≤ v ∧ v < 256 := by omega
      simp [h1, h2, this, ofBytes]
      omega

theorem add_bytes_eq (w : Writer) (bs : Bytes) :
    Src.Writer.EoWriter.add_bytes (ofBytes w.data) w.san (ofBytes bs) = wview (w.step (.addBytes bs)) := by
  simp [Src.Writer.EoWriter.add_bytes, Writer.step, wview, ofBytes]

/-- the common shape of `add_char` … `add_int` -/
theorem add_number_eq (w : Writer) (n maxValue : Int) (k : Nat) :
    (Py.bind (Src.Writer.EoWriter._check_number_size n maxValue) fun _ =>
      Py.bind (Src.Num.encode_number n) fun t2 =>
      Py.bind (Src.Writer.EoWriter._add_bytes_with_length (ofBytes w.data) w.san t2 (k : Int)) fun d => .ok d)
      = wview (Writer.addNumber w n maxValue k) := by
  rw [check_number_size_eq, encode_number_eq]
  unfold Writer.addNumber wview
  cases hc : Writer.checkNumberSize n maxValue with
  | error e => simp
  | ok u =>
    cases he : Num.encode n with
    | error e => simp [Except.map]
    | ok bs =>
      simp only [Except.map, Py.bind_ok, Src.Writer.EoWriter._add_bytes_with_length]
      have := slicePrefix_ofBytes bs k
      simp only [ofBytes] at this ⊢
      rw [this]; simp

theorem add_char_eq (w : Writer) (n : Int) :
    Src.Writer.EoWriter.add_char (ofBytes w.data) w.san n = wview (w.step (.addChar n)) := by
  have := add_number_eq w n (Num.CHAR_MAX - 1) 1
  simpa [Src.Writer.EoWriter.add_char, Writer.step, char_max, Num.CHAR_MAX] using this

theorem add_short_eq (w : Writer) (n : Int) :
    Src.Writer.EoWriter.add_short (ofBytes w.data) w.san n = wview (w.step (.addShort n)) := by
  have := add_number_eq w n (Num.SHORT_MAX - 1) 2
  simpa [Src.Writer.EoWriter.add_short, Writer.step, short_max, Num.SHORT_MAX] using this

theorem add_three_eq (w : Writer) (n : Int) :
    Src.Writer.EoWriter.add_three (ofBytes w.data) w.san n = wview (w.step (.addThree n)) := by
  have := add_number_eq w n (Num.THREE_MAX - 1) 3
  simpa [Src.Writer.EoWriter.add_three, Writer.step, three_max, Num.THREE_MAX] using this

theorem add_int_eq (w : Writer) (n : Int) :
    Src.Writer.EoWriter.add_int (ofBytes w.data) w.san n = wview (w.step (.addInt n)) := by
  have := add_number_eq w n (Num.INT_MAX - 1) 4
  simpa [Src.Writer.EoWriter.add_int, Writer.step, int_max, Num.INT_MAX] using this

theorem add_string_eq (w : Writer) (s : Ansi.Str) :
    Src.Writer.EoWriter.add_string (ofBytes w.data) w.san s = wview (w.step (.addString s)) := by
  unfold Src.Writer.EoWriter.add_string
  rw [encode_ansi_eq]
  simp only [Py.bind_ok, sanitize_eq, Src.Writer.EoWriter.add_bytes, Writer.step, wview, Writer.strBytes, ofBytes_append]

theorem add_encoded_string_eq (w : Writer) (s : Ansi.Str) :
    Src.Writer.EoWriter.add_encoded_string (ofBytes w.data) w.san s = wview (w.step (.addEncodedString s)) := by
  unfold Src.Writer.EoWriter.add_encoded_string
  rw [encode_ansi_eq]
  simp only [Py.bind_ok, sanitize_eq, encode_string_eq, Src.Writer.EoWriter.add_bytes, Writer.step, wview, Writer.strBytes,
    ofBytes_append]

/-- the padding step of the two fixed-length methods -/
theorem pad_step_eq (w : Writer) (s : Ansi.Str) (length : Int) (padded : Bool)
    (h : Writer.checkStringLength s length padded = .ok ()) :
    (Py.bind (α := List Int) (if padded = true then
        Py.bind (Src.Writer.EoWriter._add_padding (ofBytes (Writer.strBytes w s)) length) fun t4 => .ok t4
      else .ok (ofBytes (Writer.strBytes w s))) fun sb => (.ok sb : Py.M (List Int)))
      = .ok (ofBytes (if padded then Writer.addPadding (Writer.strBytes w s) length else Writer.strBytes w s)) := by
  cases padded
  · simp
  · have hl : ((Writer.strBytes w s).length : Int) ≤ length := by
      rw [strBytes_length]
      unfold Writer.checkStringLength at h
      by_cases hh : length ≥ (s.length : Int)
      · exact hh
      · simp [hh] at h
    simp [add_padding_eq _ _ hl]

theorem add_fixed_string_eq (w : Writer) (s : Ansi.Str) (length : Int) (padded : Bool) :
    Src.Writer.EoWriter.add_fixed_string (ofBytes w.data) w.san s length padded
      = wview (w.step (.addFixedString s length padded)) := by
  unfold Src.Writer.EoWriter.add_fixed_string
  rw [check_string_length_eq, encode_ansi_eq]
  unfold Writer.step wview
  cases hc : Writer.checkStringLength s length padded with
  | error e => simp [hc]
  | ok u =>
    simp only [Py.bind_ok, sanitize_eq, hc]
    cases padded
    · simp [Src.Writer.EoWriter.add_bytes, Writer.strBytes, ofBytes_append]
    · have hl : ((Writer.strBytes w s).length : Int) ≤ length := by
        rw [strBytes_length]
        unfold Writer.checkStringLength at hc
        by_cases hh : length ≥ (s.length : Int)
        · exact hh
        · simp [hh] at hc
      simp only [Writer.strBytes] at hl
      simp [add_padding_eq _ _ hl, Src.Writer.EoWriter.add_bytes, Writer.strBytes, ofBytes_append]

theorem add_fixed_encoded_string_eq (w : Writer) (s : Ansi.Str) (length : Int) (padded : Bool) :
    Src.Writer.EoWriter.add_fixed_encoded_string (ofBytes w.data) w.san s length padded
      = wview (w.step (.addFixedEncodedString s length padded)) := by
  unfold Src.Writer.EoWriter.add_fixed_encoded_string
  rw [check_string_length_eq, encode_ansi_eq]
  unfold Writer.step wview
  cases hc : Writer.checkStringLength s length padded with
  | error e => simp [hc]
  | ok u =>
    simp only [Py.bind_ok, sanitize_eq, hc]
    cases padded
    · simp [Src.Writer.EoWriter.add_bytes, Writer.strBytes, ofBytes_append, encode_string_eq]
    · have hl : ((Writer.strBytes w s).length : Int) ≤ length := by
        rw [strBytes_length]
        unfold Writer.checkStringLength at hc
        by_cases hh : length ≥ (s.length : Int)
        · exact hh
        · simp [hh] at hc
      simp only [Writer.strBytes] at hl
      simp [add_padding_eq _ _ hl, Src.Writer.EoWriter.add_bytes, Writer.strBytes, ofBytes_append, encode_string_eq]

end EoVerif.SrcTie
