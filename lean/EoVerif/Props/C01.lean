import EoVerif.Lemmas.RoundTripBody
import EoVerif.Lemmas.RoundTripObj
/-!
# C01 — round trip at the level of the declarative semantics

Writing an object with `wireClass` and reading the bytes back with `readClass` returns the object
(field by field, ignoring `byteSize`), consumes the bytes exactly, and records their number as the
object's byte size — for every *wire-unambiguous* specification (`Unambiguous`, a static, `Bool`-valued
check of the typed instruction tree) and every *lossless* value (`RTValue`, a decidable check of the
value against the specification).  All of the language is covered: fields of every scalar type,
hard-coded and named constants, length fields, `dummy`, optional tails, arrays (literal length,
length field, to-the-end; plain or delimited), struct-typed items and arrays of structs,
`<chunked>` / `<break>`, and `switch`.

The proof is a lockstep simulation of the writer and the reader (`Lemmas/RoundTripInstr.lean`,
`RoundTripArray.lean`, `RoundTripBody.lean`) over prefix-parsing lemmas for the abstract reader that
hold in both modes (`Lemmas/RoundTripReader.lean`), by recursion on the instruction tree inside an
induction on the call depth.
-/
namespace EoVerif.Spec.RT
open EoVerif
open EoVerif.Gen (IntKind Value)

/-- **The wire-unambiguous specifications.**  `Unambiguous t cls` walks the body of `cls` (and of
every class it reaches through struct-typed items, to call depth `t.classes.length + 1`, so cyclic
specifications are not covered) with `okInstr`, starting in plain (non-chunked) mode.  It demands:

* *names*: every attribute name of a body (fields, named constants, length fields, arrays,
  `<switch field=f>` ↦ `f_data`) is bound once; a switch field, and the length field a string or
  array refers to, are bound earlier in the same body (a case body is a body of its own);
* *unbounded items last*: a string without length, a blob, an array without length (and a struct or
  array element ending in one) only as the last item of its segment — at the end of a body that is
  itself in last position, or right before a `<break>` in chunked mode.  For a to-the-end array:
  delimited ⇒ trailing delimiter (see `falseRoundTrip_nonTrailing` below); plain with a declared
  element size ⇒ the element type really has that positive static size (integers, literal-length
  strings, structs made of such: `classSize`); plain without ⇒ nothing more (the values must then be
  "visible", see `RTValue`);
* *optionals last*: after an optional item only optional items follow, up to the end of the segment,
  and that end must be the end of the data / a break (so an optional item never sits in a struct
  that is followed by more data);
* *chunked*: delimited arrays and `<break>` only in chunked mode; a `<chunked>` section only in
  plain mode (or lexically nested in another one) and only where every byte written since the start
  of the current chunk is statically break-free — before it only non-`byte` integers / bools /
  enums / length fields, hard-coded integers whose bytes hold no 0xFF, arrays and structs of such,
  and switches all of whose cases are such (NOT: `byte`-typed fields, strings, blobs).  A case body
  is lexically inside whatever `<chunked>` section its switch sits in, so a `<chunked>` inside a case
  body of a switch that is itself inside a `<chunked>` section is covered (it is a no-op, as for
  directly nested sections).  Not covered: a `<chunked>` section inside a struct body that is itself
  read in chunked mode (nor inside a case body of a switch of such a struct, unless that switch is
  again lexically inside a `<chunked>` of the struct's own body — which is then rejected itself);
* `dummy` may stand anywhere an optional item does not precede it (it is written only into an empty
  body). -/
def Unambiguous (t : TSpec) (cls : String) : Bool :=
  (okClass t (t.classes.length + 1) cls false true true).isSome

/-- **The lossless values.**  `RTValue t cls v` runs `rtInstrs` along the writer's own run over the
body (so it sees the mode and the "stopped" flag the writer is in).  It demands:

* *shape* (`shapeOK`): `v = .obj cls fs _` (case data: the case class) with exactly the body's
  attribute names, in declaration order; every length attribute holds the length of the string /
  array it describes (`none` if that one is `none`) — what `readClass` stores there;
* *types*: integer and enum fields hold `.int`, bool fields `.bool`, strings `.str`, blobs `.bytes`,
  arrays `.tuple`, struct items / case data objects that are themselves lossless; a named constant
  holds its constant;
* *strings*: `Ansi.decode (strBytes san s) = s` (cp1252-encodable, and no ÿ where sanitised), no
  0x7E byte if encoded, no 0xFF byte if padded;
* *chunked mode*: no leaf item (raw `byte` 255, blob) writes a 0xFF byte; the elements of a
  to-the-end array of fixed-size elements hold none either;
* *optionals*: no optional present after an absent one; a present optional (and every element of an
  array read "until nothing remains") writes at least one byte, not starting with 0xFF in chunked
  mode.

Ranges, literal lengths, length limits and case data matching the switch value need no mention:
`wireClass` refuses otherwise. -/
def RTValue (t : TSpec) (cls : String) (v : Value) : Prop :=
  rtClass t (t.classes.length + 1) cls v false = true

instance (t : TSpec) (cls : String) (v : Value) : Decidable (RTValue t cls v) :=
  inferInstanceAs (Decidable (_ = true))

/-- round trip of one class, from any position of any reader in the matching mode, for every call
    depth -/
theorem class_rt (t : TSpec) :
    ∀ fuel, CallOK (wireClass t fuel) (readClass t fuel) (okClass t fuel) (rtClass t fuel) := by
  intro fuel
  induction fuel with
  | zero =>
    intro n v san cl tl cl' b r A post hu
    simp [okClass] at hu
  | succ fuel ih =>
    intro cls obj san cl tl cl' b r A post hu hv hw hd hp hm hc hend
    simp only [okClass] at hu
    simp only [rtClass] at hv
    simp only [wireClass] at hw
    cases hf : t.find? cls with
    | none => rw [hf] at hu; cases hu
    | some c =>
      rw [hf] at hu hv hw
      simp only [Bool.and_eq_true] at hu hv hw
      obtain ⟨hshape, hrt⟩ := hv
      cases obj with
      | obj cn fs sz =>
        simp only [shapeOK, Bool.and_eq_true, beq_iff_eq] at hshape
        obtain ⟨⟨hcn, hnames⟩, hfix⟩ := hshape
        rw [lensL_fun] at hrt
        subst hcn
        obtain ⟨st', hws, hb⟩ := map_some_inv _ _ _ hw
        have hinv0 : Inv (.obj cn fs sz) san cl [] { san := san } { r := r, start := r.pos } A
            (b ++ post) := by
          refine ⟨?_, ?_, hp, hm, rfl, hc, rfl, rfl, List.nodup_nil, ?_⟩
          · show r.data = A ++ [] ++ (b ++ post)
            rw [hd]; simp only [List.append_nil, List.append_assoc]
          · show r.pos = A.length + 0
            rw [hp]; rfl
          · intro p hp; cases hp
        obtain ⟨s', hrd, hinv'⟩ := instrs_rt (wireClass t fuel) (readClass t fuel) (okClass t fuel)
          (classSize t fuel) (rtClass t fuel) ih (class_size t fuel) c.body (lensOf c.body) (.obj cn fs sz) false san tl cl cl' []
          { san := san } st' { r := r, start := r.pos } A (b ++ post) post hu hws hrt hinv0
          (by rw [← hb]; rfl) hend
        simp only [List.nil_append] at hinv'
        have hpos : s'.r.pos = A.length + b.length := by rw [hinv'.pos, hb]
        have hrc : readClass t (fuel + 1) cn r = .ok ((s'.r.step (.setChunked r.chunked)).1,
            finishObj cn c.body s'.attrs ((s'.r.pos : Int) - r.pos)) := by
          simp only [readClass, hf, hrd]
        refine ⟨_, _, hrc, ?_, ⟨?_, ?_, rfl, ?_⟩, ?_⟩
        · exact finishObj_same cn c.body s'.attrs fs _ sz (by rw [hinv'.names, hnames])
            (by rw [hnames]; exact hinv'.nodup) hinv'.vals hfix
        · show s'.r.data = r.data
          rw [hinv'.data, hd, ← hb]
        · show s'.r.pos = r.pos + b.length
          rw [hpos, hp]
        · intro hs
          have := hinv'.clean hs
          exact ⟨this.1, this.2⟩
        · rw [finishObj_eq]
          simp only [byteSizeOf, hpos, hp]
          omega
      | _ => cases hshape

/-- **Round trip** at the level of the declarative semantics. -/
theorem spec_roundtrip (t : TSpec) (cls : String) (v : Value) (bs : Bytes)
    (hu : Unambiguous t cls) (hv : RTValue t cls v)
    (hw : wireClass t (t.classes.length + 1) cls v false = some bs) :
    ∃ r v', readClass t (t.classes.length + 1) cls ⟨bs, 0, false, 0⟩ = .ok (r, v') ∧
      SameFields v' v ∧ r.pos = bs.length ∧ r.remaining = 0 ∧ byteSizeOf v' = bs.length := by
  unfold Unambiguous at hu
  cases hok : okClass t (t.classes.length + 1) cls false true true with
  | none => rw [hok] at hu; cases hu
  | some cl' =>
    obtain ⟨r', v', h1, h2, h3, h4⟩ := class_rt t (t.classes.length + 1) cls v false true true cl'
      bs ⟨bs, 0, false, 0⟩ [] [] hok hv hw (by simp) rfl rfl
      (fun _ => ⟨Nat.le_refl _, by simp⟩) (fun _ => End.nil _)
    have hpos : r'.pos = bs.length := by simpa using h3.pos
    refine ⟨r', v', h1, h2, hpos, ?_, h4⟩
    unfold AReader.remaining
    have hm : r'.chunked = false := h3.mode
    have hdd : r'.data = bs := h3.data
    simp only [hm, Bool.false_eq_true, if_false, hdd, hpos]
    simp

/-- unfolding of `wireClass` that evaluates under `decide` (`lensOf` does not) -/
theorem wireClass_succ (t : TSpec) (fuel : Nat) (cls : String) (obj : Value) (san : Bool) :
    wireClass t (fuel + 1) cls obj san =
      match t.find? cls with
      | none => none
      | some c =>
        (wireInstrs (wireClass t fuel) (lensL c.body) obj false c.body { san := san }).map (·.out) := by
  simp only [wireClass, lensL_fun]
  cases t.find? cls <;> rfl

/-! ## Non-vacuity (tests, labelled as such) -/

/-- one class: length-prefixed, padded+encoded and trailing strings, constants, `dummy`, optional
    tail -/
def demoSpec : TSpec := ⟨[⟨"Demo", [
  .length "name_len" .char 1 false "name",
  .field "id" (.int .short) false,
  .field "flag" (.bool .char) false,
  .field "kind" (.enum .byte) false,
  .field "name" (.str false (some (.byField "name_len")) false) false,
  .const (.int .char) (.int 7),
  .namedConst "magic" (.int .three) (.int 70000) false,
  .field "tag" (.str true (some (.lit 4)) true) false,
  .dummy (.int .byte) (.int 0),
  .field "extra" (.int .int) true,
  .field "note" (.str true none false) true]⟩]⟩

def demoVal : Value := .obj "Demo" [
  ("name_len", .int 3), ("id", .int 64008), ("flag", .bool true), ("kind", .int 255),
  ("name", .str [0x41, 0x20AC, 0xFF]), ("magic", .int 70000), ("tag", .str [0x48, 0x69]),
  ("extra", .int 4097152080), ("note", .str [0x4F, 0x4B])] 0

example : Unambiguous demoSpec "Demo" = true := by decide
example : RTValue demoSpec "Demo" demoVal := by decide
example : wireClass demoSpec 2 "Demo" demoVal false =
    some [3, 253, 253, 2, 255, 65, 128, 255, 8, 173, 24, 2, 255, 255, 100, 87, 253, 253, 253, 253,
      38, 80] := by
  rw [wireClass_succ]; decide

/-- structs, arrays (length field / literal / delimited to-the-end / delimited counted / fixed-size
    to-the-end), a switch, a chunked section with breaks (inside structs too) -/
def demoSpec2 : TSpec := ⟨[
  ⟨"Coords", [.field "x" (.int .char) false, .field "y" (.int .char) false]⟩,
  ⟨"Player", [.field "name" (.str false none false) false, .brk,
              .field "title" (.str false none false) false, .brk,
              .field "pos" (.struct "Coords") false]⟩,
  ⟨"Pkt", [
    .field "kind" (.enum .char) false,
    .length "n_pts" .char 0 false "pts",
    .array "pts" (.struct "Coords") (some (.byField "n_pts")) false false true none,
    .array "trio" (.int .short) (some (.lit 3)) false false true none,
    .switch "kind" [
      .mk (some 1) "Pkt.KindData1" [.field "a" (.int .three) false, .field "s" (.int .short) false],
      .mk (some 2) "Pkt.KindData2" [],
      .mk none "Pkt.KindDataDefault" [.dummy (.int .byte) (.int 0)]],
    .chunked [
      .array "players" (.struct "Player") none false true true none,
      .brk,
      .field "motd" (.str false none false) false,
      .brk,
      .array "names" (.str false none false) (some (.lit 2)) false true false none,
      .brk,
      .array "places" (.struct "Coords") none false false true (some 2),
      .brk,
      .field "tail" (.str true none false) true]]⟩]⟩

def coords (x y : Int) : Value := .obj "Coords" [("x", .int x), ("y", .int y)] 0
def player (n t : List Nat) (x y : Int) : Value :=
  .obj "Player" [("name", .str n), ("title", .str t), ("pos", coords x y)] 0
def demoVal2 : Value := .obj "Pkt" [
  ("kind", .int 1), ("n_pts", .int 2), ("pts", .tuple [coords 1 2, coords 3 4]),
  ("trio", .tuple [.int 1, .int 2, .int 3]),
  ("kind_data", .obj "Pkt.KindData1" [("a", .int 100000), ("s", .int 77)] 0),
  ("players", .tuple [player [0x41] [0x42] 5 6, player [0x43] [] 7 8]),
  ("motd", .str [0x48, 0x69]),
  ("names", .tuple [.str [0x61], .str [0x62, 0x63]]),
  ("places", .tuple [coords 9 8, coords 7 6]),
  ("tail", .none)] 0

example : Unambiguous demoSpec2 "Pkt" = true := by decide
example : RTValue demoSpec2 "Pkt" demoVal2 := by decide +kernel

/-- the theorem applied -/
example : ∃ r v', readClass demoSpec 2 "Demo"
      ⟨[3, 253, 253, 2, 255, 65, 128, 255, 8, 173, 24, 2, 255, 255, 100, 87, 253, 253, 253, 253,
        38, 80], 0, false, 0⟩ = .ok (r, v') ∧
    SameFields v' demoVal ∧ r.pos = 22 ∧ r.remaining = 0 ∧ byteSizeOf v' = 22 :=
  spec_roundtrip demoSpec "Demo" demoVal _ (by decide) (by decide) (by rw [wireClass_succ]; decide)

/-! Lossy inputs really are lossy, and are rejected (tests, labelled as such). -/

/-- a to-the-end delimited array *without* trailing delimiter right before a `<break>`: the reading
    rule moves to the next chunk after every element, the last one included, so the break that
    belongs to `<break>` is swallowed and the next chunk is read as a third element -/
def nonTrailingSpec : TSpec := ⟨[⟨"P", [.chunked [
  .array "names" (.str false none false) none false true false none, .brk,
  .field "n" (.int .char) false]]⟩]⟩
def nonTrailingVal : Value := .obj "P" [("names", .tuple [.str [0x61], .str [0x62]]), ("n", .int 5)] 0
example : Unambiguous nonTrailingSpec "P" = false := by decide
example : wireClass nonTrailingSpec 2 "P" nonTrailingVal false = some [97, 255, 98, 255, 6] := by
  rw [wireClass_succ]; decide
/-- reading those bytes with the body of `P` (what `readClass` runs): three names, and `n = 0` -/
theorem falseRoundTrip_nonTrailing :
    (match readInstrs (readClass nonTrailingSpec 1) false
        [.chunked [.array "names" (.str false none false) none false true false none, .brk,
          .field "n" (.int .char) false]]
        { r := ⟨[97, 255, 98, 255, 6], 0, false, 0⟩ } with
     | .ok s => isIntVal (s.get "n") 0 &&
         (match s.get "names" with | .tuple vs => vs.length == 3 | _ => false)
     | .error _ => false) = true := by
  decide +kernel

/-- a `<chunked>` inside a case body of a switch that is lexically inside a `<chunked>` section:
    the case body inherits the lexical scope, the inner section is a no-op, and the round trip holds -/
def nestedCaseSpec : TSpec := ⟨[⟨"P", [.field "k" (.int .char) false, .chunked [
  .switch "k" [.mk (some 1) "P.KData1" [.chunked [.field "s" (.str false none false) false, .brk,
    .field "n" (.int .char) false]]]]]⟩]⟩
def nestedCaseVal : Value := .obj "P" [("k", .int 1),
  ("k_data", .obj "P.KData1" [("s", .str [0x61, 0x62]), ("n", .int 5)] 0)] 0
example : Unambiguous nestedCaseSpec "P" = true := by decide
example : RTValue nestedCaseSpec "P" nestedCaseVal := by decide
example : wireClass nestedCaseSpec 2 "P" nestedCaseVal false = some [2, 97, 98, 255, 6] := by
  rw [wireClass_succ]; decide
example : ∃ r v', readClass nestedCaseSpec 2 "P" ⟨[2, 97, 98, 255, 6], 0, false, 0⟩ = .ok (r, v') ∧
    SameFields v' nestedCaseVal ∧ r.pos = 5 ∧ r.remaining = 0 ∧ byteSizeOf v' = 5 :=
  spec_roundtrip nestedCaseSpec "P" nestedCaseVal _ (by decide) (by decide)
    (by rw [wireClass_succ]; decide)

/-- a raw 0xFF byte ahead of a chunked section ends the first chunk before it starts -/
def dirtySpec : TSpec := ⟨[⟨"P", [.field "b" (.int .byte) false,
  .chunked [.field "s" (.str false none false) false, .brk, .field "n" (.int .char) false]]⟩]⟩
example : Unambiguous dirtySpec "P" = false := by decide

end EoVerif.Spec.RT
