import EoVerif.Props.SrcPropsC10
/-!
  # C10 (whole pipelines), stated about the translated source

  `srcRunAll` runs any list of the four encryption steps through the **translated** functions of
  `eolib/encrypt/encryption_utils.py`.  `src_pipeline_inverse`: on every byte string the pipeline runs without an
  exception, and running the inverse steps in reverse order — again through the translated functions — gives the
  original bytes back (C10: "losslessly and exactly invertible", for compositions of any length).
-/
namespace EoVerif.SrcProps
open EoVerif SrcTie Enc

/-- one step through the translated function -/
def srcStepE : Step → List Int → Py.M (List Int)
  | .interleave, d => Src.Enc.interleave d
  | .deinterleave, d => Src.Enc.deinterleave d
  | .flipMsb, d => Src.Enc.flip_msb d
  | .swap m, d => Src.Enc.swap_multiples d (m : Int)

def srcRunAll : List Step → List Int → Py.M (List Int)
  | [], d => .ok d
  | s :: p, d => Py.bind (srcStepE s d) fun d' => srcRunAll p d'

theorem step_ok (s : Step) (d : Bytes) (hd : Bytes.ok d) : Bytes.ok (s.run d) := by
  cases s with
  | interleave => exact permute_ok _ d hd
  | deinterleave => exact permute_ok _ d hd
  | flipMsb => exact flipMsb_ok d hd
  | swap m =>
    simp only [Step.run]
    split
    · exact hd
    · exact swapAux_ok m d hd

/-- one translated step is the model's step -/
theorem srcStepE_eq (s : Step) (bs : Bytes) (h : Bytes.ok bs) : srcStepE s (ofBytesE bs) = .ok (ofBytesE (s.run bs)) := by
  cases s with
  | interleave => exact interleave_eq bs h
  | deinterleave => exact deinterleave_eq bs h
  | flipMsb => exact flip_msb_eq bs h
  | swap m =>
    simp only [srcStepE, Step.run]
    rw [swap_multiples_eq bs h]
    by_cases hm : m = 0
    · subst hm; simp [Enc.swapMultiples, Except.map]
    · have hpos : (0 : Int) < (m : Int) := by omega
      rw [Enc.swap_pos_ok bs m hpos]; simp [Except.map, hm]

theorem srcRunAll_eq (p : List Step) : ∀ (bs : Bytes), Bytes.ok bs →
    srcRunAll p (ofBytesE bs) = .ok (ofBytesE (runAll p bs)) ∧ Bytes.ok (runAll p bs) := by
  induction p with
  | nil => intro bs h; exact ⟨rfl, h⟩
  | cons s p ih =>
    intro bs h
    have h1 := srcStepE_eq s bs h
    have h2 := ih (s.run bs) (step_ok s bs h)
    simp only [srcRunAll, h1, Py.bind_ok, runAll, List.foldl_cons] at h2 ⊢
    exact h2

/-- **C10 on the translated primitives, pipelines of any length** -/
theorem src_pipeline_inverse (p : List Step) (bs : Bytes) (h : Bytes.ok bs) :
    ∃ es : Bytes, srcRunAll p (ofBytesE bs) = .ok (ofBytesE es) ∧ es.length = bs.length ∧
      srcRunAll (p.reverse.map Step.inv) (ofBytesE es) = .ok (ofBytesE bs) := by
  obtain ⟨h1, hok⟩ := srcRunAll_eq p bs h
  refine ⟨runAll p bs, h1, ?_, ?_⟩
  · clear h1 hok
    induction p generalizing bs with
    | nil => rfl
    | cons s p ih =>
      simp only [runAll, List.foldl_cons] at ih ⊢
      rw [ih (s.run bs) (step_ok s bs h)]
      cases s with
      | interleave => exact Enc.interleave_length bs
      | deinterleave => exact Enc.deinterleave_length bs
      | flipMsb => simp [Step.run, Enc.flipMsb]
      | swap m => simp only [Step.run]; split; rfl; exact Enc.swap_length m bs
  · rw [(srcRunAll_eq _ _ hok).1, pipeline_inverse p bs h]

/-- non-vacuity: a concrete pipeline through the translated functions, and back -/
example : srcRunAll [.interleave, .flipMsb, .swap 3] [1, 2, 3, 6, 9, 4] = .ok [132, 129, 130, 137, 131, 134] := by decide
example : srcRunAll ([Step.interleave, .flipMsb, .swap 3].reverse.map Step.inv) [132, 129, 130, 137, 131, 134]
    = .ok [1, 2, 3, 6, 9, 4] := by decide

end EoVerif.SrcProps
