import EoVerif.Spec.RW
import EoVerif.Lemmas.RW
import EoVerif.Lemmas.Chunk
/-!
# C06 — chunk framing isolates chunks from over- and under-reads
-/
namespace EoVerif.RW

/-- No accepted field write emits the break byte when sanitisation is on: in-range integer
    encodings and sanitised strings (plain or EO-encoded) never contain 0xFF. -/
theorem no_break_inside (w : Writer) (hs : w.san = true) (f : Field) (hf : f.ok = true) :
    ∃ bs, w.step f.writeOp = ({ w with data := w.data ++ bs }, .ok ()) ∧ 0xFF ∉ bs := by
  exact ⟨fieldBytes f, field_write w hs f hf⟩

/-- **Isolation**: chunks written with sanitisation on and separated by break bytes are recovered by
    a chunked reader chunk by chunk, whatever the per-chunk read plan: a prefix of a chunk's fields
    returns exactly those fields' values, reading all fields and then any surplus reads returns the
    values followed by zeros / empty strings, and nothing read in one chunk shifts or corrupts what
    is read from any later chunk. -/
theorem isolation (cs : List (List Field)) (plans : List Plan)
    (hok : ∀ c ∈ cs, chunkOk c = true) (hlen : plans.length = cs.length) :
    ∃ w, writeAll { san := true } (chunkWrites cs) = .ok w ∧
      (readAll ((Reader.new w.data).step (.setChunked true)).1 (allPlanOps cs plans)).2
        = allPlanExpect cs plans := by
  cases cs with
  | nil => exact ⟨_, rfl, rfl⟩
  | cons c cs =>
    cases plans with
    | nil => simp at hlen
    | cons p ps =>
      refine ⟨_, chunks_write cs c hok { san := true } rfl, ?_⟩
      obtain ⟨hfr, hp⟩ := initial_cframe (chunkBytes c) (wireTail cs)
        (chunkBytes_noFF c (hok c (by simp))) (wireTail_shape cs)
      exact chunks_read cs c p ps _ [] hok (by simpa using hlen) hfr hp

/-! Non-vacuity / sanity (tests, labelled as such). -/
def sampleChunks : List (List Field) :=
  [[.char 5, .string [0x48, 0xFF]], [], [.int 4097152080, .fixedEncodedString [0x41, 0x42], .short 7],
   [.encodedString [0xFF, 0x21]]]
def samplePlans : List Plan :=
  [.under 1, .over [.char, .string, .byte], .over [.int, .fixedString 3 true, .bytes 2], .under 0]
example : ∀ c ∈ sampleChunks, chunkOk c = true := by decide
example : (readAll ((Reader.new (Writer.run { san := true } (chunkWrites sampleChunks)).data).step (.setChunked true)).1
    (allPlanOps sampleChunks samplePlans)).2 = allPlanExpect sampleChunks samplePlans := by decide

end EoVerif.RW
