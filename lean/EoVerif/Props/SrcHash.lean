import EoVerif.Generated.SrcHash
import EoVerif.Model.Hash
/-!
  # Source tie for `eolib/encrypt/server_verification_utils.py` (C11)

  `EoVerif.Src.Hash._mod` / `server_verification_hash` are regenerated from the working tree on every run; the
  theorems prove they are the hand-written model `EoVerif.Hash` (the one `Props/C11.lean` is about) for **every**
  integer, including the zero divisors on which `%` raises.
-/
namespace EoVerif.SrcTie
open EoVerif

/-- `_mod(a, b)` of the source: `ZeroDivisionError` for `b = 0`, the model's `pyMod` otherwise. -/
theorem mod_eq (a b : Int) :
    Src.Hash._mod a b = if b = 0 then .error .ZeroDivisionError else .ok (Hash.pyMod a b) := by
  unfold Src.Hash._mod Py.floorMod Hash.pyMod
  by_cases hb : b = 0
  · simp [hb]
  · simp only [hb, if_false]
    by_cases h1 : a < 0 <;> by_cases h2 : Int.fmod a b = 0 <;> simp [h1, h2]

/-- no divisor in the hash is ever zero: `(c % 11 + 1) * 119 ≥ 119` -/
theorem divisor_pos (c : Int) : (Int.fmod c 11 + 1) * 119 ≠ 0 := by
  have h := Int.fmod_eq_emod_of_nonneg c (show (0 : Int) ≤ 11 by omega)
  rw [h]; omega

theorem server_verification_hash_eq (c : Int) :
    Src.Hash.server_verification_hash c = .ok (Hash.hash c) := by
  unfold Src.Hash.server_verification_hash Hash.hash Hash.hashWith
  simp only [mod_eq, divisor_pos, if_false, Py.bind_ok]
  simp
end EoVerif.SrcTie
