import EoVerif.Model.GenCompile
import EoVerif.Spec.WellFormedTyped
import EoVerif.Lemmas.GenTyped
/-!
# C17 (continued) — type-level rules for the instructions of struct / packet / case bodies:
unknown types (T1), non-integer length fields (T2), hard-coded values of the wrong type (T3), a `length`
on a non-string field (T4), switches on unsuitable fields or with unsuitable case values (T5)

Contrapositive of "the generator accepts ⇒ every struct and packet is well-typed" (`Spec.typedSpec`), for
every forest and every nesting (top level, inside `<chunked>`, inside switch cases).
-/
namespace EoVerif.Gen
open EoVerif.Spec

/-- If the generator accepts a forest, every struct and packet in it is well-typed. -/
theorem accepts_typed (files : List ProtoFile) (out : GenOutput) (h : compile files = .ok out) :
    Spec.typedSpec (files.map (·.root)) = true :=
  Typed.typedSpec_of_compile h

/-- An ill-typed struct or packet anywhere in the forest is rejected. -/
theorem rejects_ill_typed (files : List ProtoFile) (h : Spec.typedSpec (files.map (·.root)) = false) :
    ∃ m, compile files = .error m := by
  cases hc : compile files with
  | error m => exact ⟨m, rfl⟩
  | ok out => rw [accepts_typed files out hc] at h; cases h

/-! Non-vacuity (tests, labelled as such): one well-typed forest, and single edits of it. -/
private def el (tag : String) (attrs : List (String × String)) (children : List Xml := [])
    (text : Option String := none) : Xml := .mk tag attrs text none children
private def enumE : Xml := el "enum" [("name", "E"), ("type", "char")] [el "value" [("name", "A")] [] (some "1")]
/-- an enum whose only member is *named* `7` and has ordinal 3 -/
private def enumN : Xml := el "enum" [("name", "N"), ("type", "char")] [el "value" [("name", "7")] [] (some "3")]
/-- `<struct name="S">` with the places the examples edit:
    `<field name="k" type=kTy/> <length name="n" type=lenTy/> <field name="s" type="string" length="n"/>
     <field name="t" type="string" length="2">tTxt</field> <field name="u" type=uTy length="3"/>
     <switch field="k"><case value=caseV><field name="x" type="E:short"/></case></switch>` -/
private def forest (kTy lenTy tTxt uTy caseV : String) (extra : List Xml := []) : List ProtoFile :=
  [⟨".", el "protocol" [] [enumE, enumN, el "struct" [("name", "S")]
    ([ el "field" [("name", "k"), ("type", kTy)],
      el "length" [("name", "n"), ("type", lenTy)],
      el "field" [("name", "s"), ("type", "string"), ("length", "n")],
      el "field" [("name", "t"), ("type", "string"), ("length", "2")] [] (some tTxt),
      el "field" [("name", "u"), ("type", uTy), ("length", "3")],
      el "switch" [("field", "k")]
        [el "case" [("value", caseV)] [el "field" [("name", "x"), ("type", "E:short")]]] ] ++ extra)]⟩]
/-- (the generator accepts, the checker accepts) -/
private def both (fs : List ProtoFile) : Bool × Bool := ((compile fs).toBool, typedSpec (fs.map (·.root)))

example : both (forest "E" "char" "ab" "string" "A") = (true, true) := by decide +kernel
/-- T1: unknown type `F` -/
example : both (forest "F" "char" "ab" "string" "A") = (false, false) := by decide +kernel
/-- T1: two colons -/
example : both (forest "E:char:char" "char" "ab" "string" "A") = (false, false) := by decide +kernel
/-- T2: a length field of type `string` -/
example : both (forest "E" "string" "ab" "string" "A") = (false, false) := by decide +kernel
/-- T3: three characters for a `length="2"` string -/
example : both (forest "E" "char" "abc" "string" "A") = (false, false) := by decide +kernel
/-- T4: `length="3"` on an `int` field -/
example : both (forest "E" "char" "ab" "int" "A") = (false, false) := by decide +kernel
/-- T4: `string:char` with a length is not a string type either -/
example : both (forest "E" "char" "ab" "string:char" "A") = (false, false) := by decide +kernel
/-- T5: `B` is not a member of `E` -/
example : both (forest "E" "char" "ab" "string" "B") = (false, false) := by decide +kernel
/-- T5: `1` is the ordinal of member `A`: must be referred to by name -/
example : both (forest "E" "char" "ab" "string" "1") = (false, false) := by decide +kernel
/-- T5: `2` is not an ordinal of `E`: accepted -/
example : both (forest "E" "char" "ab" "string" "2") = (true, true) := by decide +kernel
/-- T5: a switch on a string field -/
example : both (forest "string" "char" "ab" "string" "1") = (false, false) := by decide +kernel

/-! The same rules at other placements and for the other instruction kinds: one extra instruction appended
    to the well-typed struct. -/
private def plus (extra : List Xml) : Bool × Bool := both (forest "E" "char" "ab" "string" "A" extra)
/-- T1 inside `<chunked>` / inside a case body / for an array / for a dummy -/
example : plus [el "chunked" [] [el "field" [("name", "z"), ("type", "Nope")]]] = (false, false) := by decide +kernel
example : plus [el "switch" [("field", "n")] [el "case" [("value", "1")] [el "field" [("name", "y"), ("type", "Nope")]]]]
    = (false, false) := by decide +kernel
example : plus [el "switch" [("field", "n")] [el "case" [("value", "1")] [el "field" [("name", "y"), ("type", "char")]]]]
    = (true, true) := by decide +kernel
example : plus [el "array" [("name", "a"), ("type", "bool:string")]] = (false, false) := by decide +kernel
example : plus [el "array" [("name", "a"), ("type", "bool:short")]] = (true, true) := by decide +kernel
example : plus [el "dummy" [("type", "Nope")] [] (some "1")] = (false, false) := by decide +kernel
/-- T3: unnamed fields and dummies; integer, bool, blob -/
example : plus [el "field" [("type", "char")] [] (some "x")] = (false, false) := by decide +kernel
example : plus [el "field" [("type", "bool")] [] (some "yes")] = (false, false) := by decide +kernel
example : plus [el "field" [("type", "bool")] [] (some "true")] = (true, true) := by decide +kernel
example : plus [el "dummy" [("type", "blob")] [] (some "1")] = (false, false) := by decide +kernel
example : plus [el "dummy" [("type", "short")] [] (some "1")] = (true, true) := by decide +kernel
/-- T3, stricter than one might expect: an enum-typed field takes no hard-coded value, not even a member -/
example : plus [el "field" [("name", "h"), ("type", "E")] [] (some "A")] = (false, false) := by decide +kernel
/-- T3: the `length` attribute is read with Python `int()`: `length="+2"` never gets past the context rule
    "numeral or length field", but a length field may be *named* `0_2`, and then a hard-coded string that
    refers to it must have 2 characters -/
example : plus [el "length" [("name", "0_2"), ("type", "char")],
    el "field" [("name", "w"), ("type", "string"), ("length", "0_2")] [] (some "abc")] = (false, false) := by decide +kernel
example : plus [el "length" [("name", "0_2"), ("type", "char")],
    el "field" [("name", "w"), ("type", "string"), ("length", "0_2")] [] (some "ab")] = (true, true) := by decide +kernel
/-- T5: switch on an array; a numeral case value is read as a number even when a member is *named* so -/
example : plus [el "array" [("name", "a"), ("type", "char")],
    el "switch" [("field", "a")] [el "case" [("value", "1")] []]] = (false, false) := by decide +kernel
example : plus [el "field" [("name", "m"), ("type", "N")],
    el "switch" [("field", "m")] [el "case" [("value", "7")] []]] = (true, true) := by decide +kernel
example : plus [el "field" [("name", "m"), ("type", "N")],
    el "switch" [("field", "m")] [el "case" [("value", "3")] []]] = (false, false) := by decide +kernel
/-- a switch without any `<case>` is not looked at (by either side) -/
example : plus [el "switch" [("field", "nowhere")] []] = (true, true) := by decide +kernel

end EoVerif.Gen

#print axioms EoVerif.Gen.accepts_typed
#print axioms EoVerif.Gen.rejects_ill_typed
