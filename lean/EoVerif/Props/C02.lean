import EoVerif.Lemmas.ConformTop
/-!
# C02 — the generated serializers conform to the XML (and C16: refusals are `SerializationError` /
`ValueError` on both sides)
-/
namespace EoVerif.Gen
open EoVerif.Spec EoVerif.Gen.Conform

/-!
## The typed-value domain

`TypedInstrs TV TVs obj body` (in `Lemmas/ConformSim.lean`) says, instruction by instruction, that the
attributes of `obj` which `body` talks about hold values of the Python type the declaration calls for, or
`None` (`None` in a required position is part of the domain: both sides refuse it):

* `<field>` of an integer or enum type: `.int n` with `0 ≤ n` (a Python `bool` in an integer field is
  *not* in the domain); of type `bool`: `.bool b`; of a string type: `.str s`, and if its `length=` names a
  length field, that attribute holds `len(s)` (what `__init__` establishes); `blob`: `.bytes bs`; of a
  struct type: an `.obj` which is a typed instance of that struct, one nesting level down.
* a named field with a hard-coded value holds that constant (what `__init__` establishes).
* `<length name=l …>` describing `ref`: either both `obj.l` and `obj.ref` are `None`, or `obj.l = len(obj.ref)`,
  **and `len - offset ≠ -1`** (see the finding in the report: `add_char(-1)` writes `0x00`).
* `<array>`: a `.tuple` of typed elements; with `length=` a length field, that attribute holds the count.
* `<switch field=f>`: `obj.f` exists; `obj.f_data` is `None` or an `.obj`; if its class is one of the case
  classes, it is a typed instance of that case body, one nesting level down.

Nesting (struct-typed fields and case-data objects) is bounded by a fuel `k`: `towerT t k` is the tower
`[TypedC t k, …, TypedC t 0]`; `Typed t cls obj` takes `k = number of classes + 1`, which every value of an
acyclic specification satisfies as far as struct nesting goes (case nesting counts as well).
-/

/-- `towerT t k = [TypedC t k, …, TypedC t 0]`: typed instances of the classes of `t` whose nesting
    (through struct-typed fields and through case-data objects) is bounded by `k`. -/
def towerT (t : TSpec) : Nat → List (String → Value → Prop)
  | 0 => [fun _ _ => False]
  | k + 1 =>
    (fun cls obj => ∃ c, t.find? cls = some c ∧
      TypedInstrs ((towerT t k).headD (fun _ _ => False)) (towerT t k).tail obj c.body) :: towerT t k

def TypedC (t : TSpec) (k : Nat) : String → Value → Prop := (towerT t k).headD (fun _ _ => False)

/-- the typed-value domain: `obj` is a typed instance of class `cls` (see the section comment above) -/
def Typed (t : TSpec) (cls : String) (obj : Value) : Prop := TypedC t (t.classes.length + 1) cls obj

/-- **The specifications covered** (a decidable check on the XML forest).

Every `<struct>` / `<packet>` body (and, recursively, every `<case>` body, which is a class body of its
own) must satisfy `fragBody` (`Lemmas/ConformCases.lean`):

* `<field>`: any `type` (the integer kinds, `bool`, `string` / `encoded_string` with literal, padded,
  length-field or unspecified length, `blob`, enum and struct types, `Type:underlying` overrides), named or
  unnamed, hard-coded or not, optional or not.  Required: a `type` attribute; a name that Python's `int()`
  does not parse; an unnamed field's `length=` is absent or a decimal numeral; and `scopeField`: looking the
  field's name up in the class body finds this field's `type` (implied by "no field is declared twice").
* `<length>` (with `offset`, optional or not), `<dummy>`, `<array>` (literal, length-field or unspecified
  length; delimited with or without trailing delimiter; optional or not), `<chunked>`, `<break>`: all
  covered; names as above.
* `<switch>`: at least one `<case>`; numeric and symbolic (enum member) case values and `default`; case
  bodies are class bodies of their own (nested switches, chunked sections, optional items allowed).

Further: every `<enum>` names one of `byte/char/short/three/int` as its `type`; in every class and case body
the length-field names are pairwise distinct (implied by generator acceptance; checked, not derived); the
names of the generated classes (structs, packets, nested case classes) are pairwise distinct.

**Not covered**: a `<switch>` without cases; an unnamed hard-coded string whose `length=` is a length
field; field / array / length names that `int()` parses (`"5"`, `"1_0"`);
specifications with clashing class names. -/
def Fragment (files : List ProtoFile) : Bool :=
  (srcs files).all (fun p => fragBody (fun _ => true) p.2.children p.2.children) &&
  files.all (fun f => (f.root.findall "enum").all (fun e => ((e.get "type").bind IntKind.ofName?).isSome)) &&
  (match elabSpec files with
   | some t => t.classes.all (fun c => decide (lenNamesL c.body).Nodup && lensDeepL c.body)
   | none => true) &&
  (match compile files with
   | .ok out => decide ((out.classes.map (·.name)).Nodup)
   | .error _ => true)

namespace Conform

theorem nodup_map_inj {α β} [DecidableEq β] (f : α → β) : ∀ {l : List α}, (l.map f).Nodup →
    ∀ a ∈ l, ∀ b ∈ l, f a = f b → a = b
  | [], _, a, ha, _, _, _ => by cases ha
  | x :: xs, h, a, ha, b, hb, hab => by
    rw [List.map_cons, List.nodup_cons] at h
    rcases List.mem_cons.1 ha with ha | ha <;> rcases List.mem_cons.1 hb with hb | hb
    · rw [ha, hb]
    · exact absurd (List.mem_map.2 ⟨b, hb, by rw [← hab, ha]⟩) h.1
    · exact absurd (List.mem_map.2 ⟨a, ha, by rw [hab, hb]⟩) h.1
    · exact nodup_map_inj f h.2 a ha b hb hab

theorem typedC_zero (t : TSpec) (cls : String) (obj : Value) : ¬ TypedC t 0 cls obj := fun h => h

theorem typedC_succ (t : TSpec) (k : Nat) (cls : String) (obj : Value) :
    TypedC t (k + 1) cls obj ↔
      ∃ c, t.find? cls = some c ∧ TypedInstrs (TypedC t k) (towerT t k).tail obj c.body := Iff.rfl

/-- the tower below level `k + 1` starts with `TypedC t k` -/
theorem tower_tail (t : TSpec) (k : Nat) : (towerT t (k + 1)).tail = TypedC t k :: (towerT t k).tail := by
  show towerT t k = _
  cases k with
  | zero => rfl
  | succ k => rfl

/-- everything the main induction needs about one class source -/
theorem src_facts {files : List ProtoFile} {t : TSpec}
    (he : elabSpec files = some t) (hfrag : Fragment files = true)
    {defs : Defs} (hinv : DefsInv defs (allDefs files)) {p : String × Xml} (hp : p ∈ srcs files) {ctx : Ctx} {d : Data}
    (hg : genBody (getType defs (4 * defs.length + 16)) {} { className := p.1 } p.2.children true = .ok (ctx, d)) :
    ∃ b recs, ⟨p.1, b⟩ ∈ t.classes ∧
      elabBody (specEnv files) (specSS files) p.1 p.2.children p.2.children false = some b ∧
      d.className = p.1 ∧ d.aux = recs.map (·.ir) ∧ RecsOK recs ∧ Covers recs false b ∧ ClassSim d.ser false b := by
  unfold Fragment at hfrag
  rw [he] at hfrag
  simp only [Bool.and_eq_true, List.all_eq_true, decide_eq_true_eq] at hfrag
  obtain ⟨⟨⟨hf1, hf2⟩, hf3⟩, _⟩ := hfrag
  have hev : EnumsValid files := by
    intro f hf e hee
    have := hf2 f hf e hee
    cases h : (e.get "type").bind IntKind.ofName? with
    | none => rw [h] at this; cases this
    | some k => exact ⟨k, rfl⟩
  obtain ⟨_, e2, _⟩ := elabSpec_classes he
  obtain ⟨c, hc, hmk⟩ := e2 p hp
  unfold mkClass at hmk
  cases hb : elabBody (specEnv files) (specSS files) p.1 p.2.children p.2.children false with
  | none => rw [hb] at hmk; cases hmk
  | some b =>
    rw [hb] at hmk
    simp only [Option.map_some, Option.some.injEq] at hmk
    subst hmk
    obtain ⟨hnd, hdeep⟩ := hf3 _ hc
    have hl : LensOK (lensOf b) b := lensOK_of_nodup b _ (by rwa [lenNamesL_eq] at hnd) (fun _ _ => rfl)
    have htf : TfOK (fun _ => true) (getType defs (4 * defs.length + 16)) (specEnv files) :=
      tfOK_all files defs (4 * defs.length + 14) hinv hev
    rw [elabBody_flag _ _ _ _ _ false true] at hb
    have sall := body_all htf p.2.children true {} { className := p.1 } ctx d b p.2.children p.1 false (lensOf b)
      (hf1 p hp) (CtxOK.empty _ rfl rfl) (CtxEnum.empty rfl) rfl rfl hg hb hl (lensDeepL_sound b hdeep)
    have hsim := classSim_of_stepAll sall rfl rfl
    obtain ⟨ops, recs, _, n1, a1, _, _, _, rOK, cov, _⟩ := sall
    rw [elabBody_flag _ _ _ _ _ true false] at hb
    exact ⟨b, recs, hc, rfl, n1, by simpa using a1, rOK, cov, hsim⟩

/-- a typed case-data object at nesting level `k` -/
def NodeTyped (t : TSpec) : Nat → List TInstr → Value → Prop
  | 0, _, _ => False
  | k + 1, b, dv => TypedInstrs (TypedC t k) (towerT t k).tail dv b

/-- the case classes generated anywhere in the specification -/
def IsRec (out : GenOutput) (r : CaseRec) : Prop :=
  ∃ recs, RecsOK recs ∧ r ∈ recs ∧ ∀ r' ∈ recs, r'.ir ∈ out.classes

theorem ser_conforms_aux (files : List ProtoFile) (out : GenOutput) (t : TSpec)
    (hc : compile files = .ok out) (he : elabSpec files = some t) (hfrag : Fragment files = true) :
    ∀ (k : Nat),
      (∀ (cls : String) (obj : Value) (w : Writer) (f1 f2 : Nat), k ≤ f1 → k ≤ f2 → TypedC t k cls obj →
        Conf (execSer out f1 cls obj w) (wireClass t f2 cls obj w.san)
          (fun w' bs => w' = { w with data := w.data ++ bs })) ∧
      (∀ (r : CaseRec), IsRec out r → ∀ (dv : Value) (w : Writer) (f1 f2 : Nat), k ≤ f1 → k ≤ f2 →
        NodeTyped t k r.b dv →
        Conf (execSer out f1 r.ir.name dv w)
          ((wireInstrs (wireClass t f2) (lensOf r.b) dv r.lex r.b { san := w.san }).map (·.out))
          (fun w' bs => w' = { w with data := w.data ++ bs })) := by
  obtain ⟨defs, hd, _, c2, _⟩ := compile_spec hc
  have hnd : (out.classes.map (·.name)).Nodup := by
    unfold Fragment at hfrag
    rw [hc] at hfrag
    simp only [Bool.and_eq_true, decide_eq_true_eq] at hfrag
    exact hfrag.2
  obtain ⟨e1, _, _⟩ := elabSpec_classes he
  -- looking a generated class up by its name
  have hfind : ∀ ir ∈ out.classes, out.findClass? ir.name = some ir := by
    intro ir hir
    unfold GenOutput.findClass?
    cases hf : List.find? (fun x => x.name == ir.name) out.classes with
    | none =>
      rw [List.find?_eq_none] at hf
      exact absurd (by simp) (hf ir hir)
    | some ir' =>
      have h1 : ir'.name = ir.name := by simpa using List.find?_some hf
      rw [nodup_map_inj (·.name) hnd ir' (List.mem_of_find?_eq_some hf) ir hir h1]
  intro k
  induction k with
  | zero =>
    exact ⟨fun cls obj w f1 f2 _ _ h => h.elim, fun r _ dv w f1 f2 _ _ h => h.elim⟩
  | succ k ih =>
    obtain ⟨ihTop, ihRec⟩ := ih
    -- the callbacks one level down
    have hcall : ∀ f1 f2, k ≤ f1 → k ≤ f2 → CallOK (execSer out f1) (wireClass t f2) (TypedC t k) := by
      intro f1 f2 h1 h2 n v w' hv
      exact ihTop n v w' f1 f2 h1 h2 hv
    have hcases : ∀ f1 f2, k ≤ f1 → k ≤ f2 → ∀ (recs : List CaseRec), RecsOK recs →
        (∀ r' ∈ recs, r'.ir ∈ out.classes) → ∀ lex b, Covers recs lex b →
        CasesOK (execSer out f1) (wireClass t f2) (towerT t k).tail lex b := by
      intro f1 f2 h1 h2 recs hrecs hin lex b hcov x hx hne
      obtain ⟨r, hr, hrn, hrb, hrl⟩ := hcov x hx hne
      unfold CaseOK
      cases k with
      | zero => exact trivial
      | succ k' =>
        rw [tower_tail]
        intro dv w' hty
        have := ihRec r ⟨recs, hrecs, hr, hin⟩ dv w' f1 f2 h1 h2 (by rw [hrb]; exact hty)
        rw [hrn, hrb, hrl] at this
        exact this
    refine ⟨?_, ?_⟩
    · intro cls obj w f1 f2 h1 h2 hty
      obtain ⟨f1, rfl⟩ : ∃ f, f1 = f + 1 := ⟨f1 - 1, by omega⟩
      obtain ⟨f2, rfl⟩ : ∃ f, f2 = f + 1 := ⟨f2 - 1, by omega⟩
      obtain ⟨c, hfc, htyped⟩ := (typedC_succ t k cls obj).1 hty
      have hcm : c ∈ t.classes := List.mem_of_find?_eq_some hfc
      have hcn : c.name = cls := by simpa using List.find?_some hfc
      obtain ⟨p, hp, hmk⟩ := e1 c hcm
      obtain ⟨ctx, d, ir0, hg, hir0, hn0, hs0, haux⟩ := c2 p hp
      obtain ⟨b, recs, _, hb, hdn, hda, hrecs, hcov, hsim⟩ := src_facts he hfrag hd hp hg
      have hcb : c = ⟨p.1, b⟩ := by
        unfold mkClass at hmk
        rw [hb] at hmk
        simp only [Option.map_some, Option.some.injEq] at hmk
        exact hmk.symm
      have hpn : p.1 = cls := by rw [← hcn, hcb]
      have hir : out.findClass? cls = some ir0 := by
        have := hfind ir0 hir0
        rwa [hn0, hdn, hpn] at this
      have hin : ∀ r' ∈ recs, r'.ir ∈ out.classes := by
        intro r' hr'
        exact haux _ (by rw [hda]; exact List.mem_map.2 ⟨r', hr', rfl⟩)
      rw [execSer, wireClass, hfc]
      simp only [hir]
      subst hcb
      exact hsim (execSer out f1) (wireClass t f2) (TypedC t k) (towerT t k).tail obj w ir0 hs0
        (hcall f1 f2 (by omega) (by omega)) (hcases f1 f2 (by omega) (by omega) recs hrecs hin false b hcov) htyped
    · intro r hrec dv w f1 f2 h1 h2 hty
      obtain ⟨f1, rfl⟩ : ∃ f, f1 = f + 1 := ⟨f1 - 1, by omega⟩
      obtain ⟨recs, hrecs, hr, hin⟩ := hrec
      obtain ⟨hsim, hcov⟩ := hrecs r hr
      have hir := hfind r.ir (hin r hr)
      rw [execSer]
      simp only [hir]
      exact hsim (execSer out f1) (wireClass t f2) (TypedC t k) (towerT t k).tail dv w r.ir rfl
        (hcall f1 f2 (by omega) (by omega)) (hcases f1 f2 (by omega) (by omega) recs hrecs hin r.lex r.b hcov) hty

end Conform

/-- **Serializer conformance.** For every specification in the fragment that the generator accepts and
    the declarative reading elaborates, and every typed instance, the generated `serialize` writes
    exactly the bytes the XML prescribes, or both refuse — the generated code with
    `SerializationError` / `ValueError` only (C16). -/
theorem ser_conforms (files : List ProtoFile) (out : GenOutput) (t : TSpec)
    (hc : compile files = .ok out) (he : Spec.elabSpec files = some t)
    (hfrag : Fragment files = true) (cls : String) (obj : Value) (san : Bool) (hty : Typed t cls obj) :
    match execSer out out.depth cls obj { data := [], san := san },
          Spec.wireClass t (t.classes.length + 1) cls obj san with
    | (w, .ok ()), some bs => w.data = bs
    | (_, .error e), none => e = .SerializationError ∨ e = .ValueError
    | _, _ => False := by
  obtain ⟨_, _, _, _, hlen⟩ := Conform.compile_spec hc
  obtain ⟨_, _, hlen'⟩ := Conform.elabSpec_classes he
  have h := (Conform.ser_conforms_aux files out t hc he hfrag (t.classes.length + 1)).1 cls obj
    { data := [], san := san } out.depth (t.classes.length + 1)
    (by unfold GenOutput.depth; omega) (Nat.le_refl _) hty
  generalize execSer out out.depth cls obj { data := [], san := san } = r at h
  obtain ⟨w, x⟩ := r
  cases hw : wireClass t (t.classes.length + 1) cls obj san with
  | none =>
    rw [show ({ data := [], san := san } : Writer).san = san from rfl, hw] at h
    cases x with
    | error e => exact h
    | ok u => cases u; exact h.elim
  | some bs =>
    rw [show ({ data := [], san := san } : Writer).san = san from rfl, hw] at h
    cases x with
    | error e => exact h.elim
    | ok u =>
      cases u
      simp only [Conform.Conf_ok_some] at h
      rw [h]; rfl

/-! Non-vacuity (a test, labelled as such): a concrete two-class specification in the fragment which
    the generator accepts and the declarative reading elaborates. -/
namespace Conform.Example

private def el (tag : String) (attrs : List (String × String)) (children : List Xml := [])
    (text : Option String := none) : Xml := .mk tag attrs text none children

def exFiles : List ProtoFile :=
  [⟨".", el "protocol" []
    [el "enum" [("name", "Dir"), ("type", "char")]
      [el "value" [("name", "Down")] [] (some "0"), el "value" [("name", "Up")] [] (some "1")],
     el "struct" [("name", "Coords")]
      [el "field" [("name", "x"), ("type", "char")],
       el "field" [("name", "y"), ("type", "char")]],
     el "struct" [("name", "Msg")]
      [el "field" [("type", "byte")] [] (some "255"),
       el "field" [("name", "pos"), ("type", "Coords")],
       el "field" [("name", "dir"), ("type", "Dir")],
       el "field" [("name", "dir2"), ("type", "Dir:short")],
       el "length" [("name", "name_length"), ("type", "char")],
       el "field" [("name", "name"), ("type", "string"), ("length", "name_length")],
       el "field" [("name", "tag"), ("type", "string"), ("length", "3"), ("padded", "true")],
       el "array" [("name", "corners"), ("type", "Coords"), ("length", "4")],
       el "length" [("name", "n_codes"), ("type", "short"), ("offset", "1")],
       el "array" [("name", "codes"), ("type", "three"), ("length", "n_codes")],
       el "chunked" []
        [el "array" [("name", "lines"), ("type", "string"), ("delimited", "true"), ("trailing-delimiter", "false")],
         el "break" [],
         el "field" [("name", "title"), ("type", "string")],
         el "break" [],
         el "field" [("name", "flag"), ("type", "bool:short"), ("optional", "true")],
         el "field" [("name", "note"), ("type", "encoded_string"), ("optional", "true")]],
       el "dummy" [("type", "short")] [] (some "0")],
     el "struct" [("name", "Reply")]
      [el "field" [("name", "code"), ("type", "Dir")],
       el "switch" [("field", "code")]
        [el "case" [("value", "Down")]
          [el "field" [("name", "msg"), ("type", "Msg")]],
         el "case" [("value", "Up")]
          [el "field" [("name", "where"), ("type", "Coords")],
           el "field" [("name", "kind"), ("type", "char")],
           el "switch" [("field", "kind")]
            [el "case" [("value", "7")]
              [el "field" [("name", "extra"), ("type", "int")],
               el "field" [("name", "more"), ("type", "string"), ("optional", "true")]],
             el "case" [("default", "true")] []]]]]]⟩]

example : Fragment exFiles = true := by decide +kernel
example : (elabSpec exFiles).isSome = true := by decide
example : (match compile exFiles with | .ok _ => true | .error _ => false) = true := by decide +kernel

/-- a typed instance of `Coords` (so `Typed` is inhabited on this specification) -/
def coordsObj : Value := .obj "Coords" [("x", .int 3), ("y", .int 250)] 0

theorem coords_find : ∀ t, elabSpec exFiles = some t →
    t.find? "Coords" = some ⟨"Coords", [.field "x" (.int .char) false, .field "y" (.int .char) false]⟩ := by
  intro t ht
  have h2 : (elabSpec exFiles).bind (fun t => t.find? "Coords")
      = some ⟨"Coords", [.field "x" (.int .char) false, .field "y" (.int .char) false]⟩ := by rfl
  rw [ht] at h2
  exact h2

example : ∀ t, elabSpec exFiles = some t → Typed t "Coords" coordsObj := by
  intro t ht
  unfold Typed
  rw [typedC_succ]
  refine ⟨_, coords_find t ht, ?_⟩
  simp only [TypedInstrs, TypedInstr, TypedVal, coordsObj, Value.attr]
  exact ⟨Or.inr ⟨3, rfl, by decide⟩, Or.inr ⟨250, rfl, by decide⟩, trivial⟩

end Conform.Example

end EoVerif.Gen
