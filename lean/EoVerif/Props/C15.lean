import EoVerif.Model.GenExec
/-!
# C15 — (de)serialization leaves reader and writer modes as it found them

The theorems quantify over **every** generator output `o` (hence every specification the
generator accepts — and even IR no specification produces), every class name (top-level structs,
packets and nested case-data classes alike), every value / byte string / reader and writer state,
every call depth, and cover calls that return as well as calls that raise at any instruction.
-/
namespace EoVerif.Gen

/-- A generated `serialize` leaves the writer's sanitisation mode exactly as on entry — whether it
    returns or raises, whatever the entry mode and the nesting. -/
theorem ser_restores (o : GenOutput) (fuel : Nat) (cls : String) (obj : Value) (w : Writer) :
    (execSer o fuel cls obj w).1.san = w.san := by
  cases fuel with
  | zero => rfl
  | succ n =>
    simp only [execSer]
    split
    · rfl
    · simp [serializeBody]

/-- A generated `deserialize` leaves the reader's chunked-reading mode exactly as on entry. -/
theorem de_restores (o : GenOutput) (fuel : Nat) (cls : String) (r : Reader) :
    (execDe o fuel cls r).1.chunked = r.chunked := by
  cases fuel with
  | zero => rfl
  | succ n =>
    simp only [execDe]
    split
    · rfl
    · simp only [deserializeBody]
      have h : ∀ (r' : Reader) (b : Bool), ((r'.step (.setChunked b)).1).chunked = b := by
        intro r' b
        simp only [Reader.step]
        split <;> rfl
      split
      · exact h _ _
      · split
        · exact h _ _
        · split <;> exact h _ _

/-- Mode scoping inside a parent: a nested struct write starts in the parent's current mode and
    hands the writer back in that same mode (success or failure), so a structure nested in a
    non-chunked parent is never sanitised as chunked unless it says so, and vice versa. -/
theorem nested_ser_scoping (o : GenOutput) (fuel : Nat) (obj : Value) (st : SerSt) (cls : String)
    (v : Value) (off : Int) :
    (doWrite (execSer o fuel) obj st (.struct cls) v off).1.w.san = st.w.san := by
  simp only [doWrite]
  exact ser_restores o fuel cls v st.w

/-- The same for a nested struct read and for switch case data. -/
theorem nested_de_scoping (o : GenOutput) (fuel : Nat) (st : DeSt) (cls : String) :
    (doRead (execDe o fuel) st (.struct cls)).1.r.chunked = st.r.chunked := by
  simp only [doRead]
  exact de_restores o fuel cls st.r

/-- The writer's mode changes only through the emitted `string_sanitization_mode = …` statements
    (`setSan`): every other instruction of a body preserves it, provided nested calls do. -/
theorem writes_keep_mode (call : SerCall) (hcall : ∀ c v w, (call c v w).1.san = w.san)
    (obj : Value) (st : SerSt) (kind : IOKind) (v : Value) (off : Int) :
    (doWrite call obj st kind v off).1.w.san = st.w.san := by
  have hstep : ∀ (op : Writer.Op), (∀ b, op ≠ .setSan b) → (wstep st op).1.w.san = st.w.san := by
    intro op hop
    simp only [wstep]
    cases op <;> simp_all [Writer.step, Writer.addNumber] <;> (repeat' split) <;> simp_all
  cases kind with
  | int k =>
    simp only [doWrite]
    cases v <;> try rfl
    all_goals cases k <;> exact hstep _ (by intro b h; cases h)
  | str enc len padded =>
    simp only [doWrite]
    cases v <;> try rfl
    cases len with
    | none => simp only []; split <;> exact hstep _ (by intro b h; cases h)
    | some le =>
      simp only []
      split
      · rfl
      · split <;> exact hstep _ (by intro b h; cases h)
  | blob =>
    simp only [doWrite]
    cases v <;> first | rfl | exact hstep _ (by intro b h; cases h)
  | struct c =>
    simp only [doWrite]
    exact hcall c v st.w

/-! Non-vacuity: a concrete class whose body switches the mode on and then fails part-way. -/
def sampleOut : GenOutput :=
  { classes := [{ name := "K", fields := [⟨"x", .normal, false⟩],
                  ser := [.setSan true, .noneCheck "x", .write (.int .char) (.field "x" false) .none 0, .setSan false],
                  de := [.setChunked true, .read (.var "x") (.int .char) .none 0, .nextChunk, .setChunked false],
                  deArgs := ["x"], params := [⟨"x", false⟩], initBody := [.assign "x" (.param "x")] }] }
example : (execSer sampleOut 2 "K" (.obj "K" [("x", .none)] 0) { san := false }).2 = .error .SerializationError := by decide
example : (execSer sampleOut 2 "K" (.obj "K" [("x", .none)] 0) { san := false }).1.san = false := by decide
example : (execSer sampleOut 2 "K" (.obj "K" [("x", .int 300)] 0) { data := [7], san := true }) =
    ({ data := [7], san := true }, .error .ValueError) := by decide

end EoVerif.Gen
