import EoVerif.Model.GenCompile
import EoVerif.Spec.WellFormedTypes
import EoVerif.Lemmas.GenDecls
/-!
# C17 (continued) — declaration-level rules: redefined types, malformed enum values and underlying types,
unknown packet families or actions, packets outside `net/client|net/server`, duplicate packets, file roots

Contrapositives of "the generator accepts ⇒ the declarations are well-formed", for every forest.
-/
namespace EoVerif.Gen
open EoVerif.Spec

/-- If the generator accepts a forest, its type declarations are well-formed: `<protocol>` roots, named
    enums and structs, no type declared twice (in any file), every enum with an integer underlying type
    other than itself, named values, integer ordinals, no duplicate ordinal or name. -/
theorem accepts_decls_wf (files : List ProtoFile) (out : GenOutput) (h : compile files = .ok out) :
    declsWF (files.map (·.root)) = true := by
  exact Decls.declsWF_of_compile h

/-- If the generator accepts a forest, every packet is under `net/client` or `net/server`, names a
    declared family and action, and is not a duplicate within its file. -/
theorem accepts_packets_wf (files : List ProtoFile) (out : GenOutput) (h : compile files = .ok out) :
    packetsWF (files.map (fun f => (f.dir, f.root))) = true := by
  exact Decls.packetsWF_of_compile h

/-- Ill-formed declarations are rejected. -/
theorem rejects_ill_formed_decls (files : List ProtoFile)
    (hbad : declsWF (files.map (·.root)) = false ∨ packetsWF (files.map (fun f => (f.dir, f.root))) = false) :
    ∃ m, compile files = .error m := by
  cases hc : compile files with
  | error m => exact ⟨m, rfl⟩
  | ok out =>
    rcases hbad with hb | hb
    · rw [accepts_decls_wf files out hc] at hb; cases hb
    · rw [accepts_packets_wf files out hc] at hb; cases hb

/-! Non-vacuity (tests, labelled as such). -/
private def ev (n t : String) : Xml := .mk "value" [("name", n)] (some t) none []
example : enumWF (.mk "enum" [("name", "E"), ("type", "char")] none none [ev "A" "1", ev "None" "2"]) = true := by decide
example : enumWF (.mk "enum" [("name", "E"), ("type", "char")] none none [ev "A" "1", ev "B" "1"]) = false := by decide
example : enumWF (.mk "enum" [("name", "E"), ("type", "string")] none none [ev "A" "1"]) = false := by decide
example : enumWF (.mk "enum" [("name", "E"), ("type", "char")] none none [ev "A" "x"]) = false := by decide

/-! Why `declsWF` exempts enums whose own name contains `':'` (`nameHasColon`): the generator resolves the
    name `A:char` as "enum `A` with underlying type `char`", so the element's own `type` attribute and its
    own values are never read.  The forest below is accepted although its second enum is not `enumWF`. -/
private def cexA : Xml := .mk "enum" [("name", "A"), ("type", "char")] none none [ev "X" "1"]
private def cexB : Xml := .mk "enum" [("name", "A:char"), ("type", "string")] none none []
private def cexFiles : List ProtoFile := [⟨".", .mk "protocol" [] none none [cexA, cexB]⟩]
example : (compile cexFiles).toBool = true := by decide
example : enumWF cexB = false := by decide
example : nameHasColon cexB = true := by decide
example : (cexFiles.map (·.root)).all (fun r => (r.findall "enum").all enumWF) = false := by decide
example : declsWF (cexFiles.map (·.root)) = true := by decide

end EoVerif.Gen
