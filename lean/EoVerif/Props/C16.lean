import EoVerif.Model.GenExec
import EoVerif.Props.C09
/-!
# C16 — invalid objects are refused, never silently mis-serialized

Two layers.  (1) *Effectiveness and non-swallowing of refusals* for every generator output: a guard
that fires makes the whole `serialize` call raise `SerializationError`/`ValueError` — nothing after it
runs, nothing catches it — whatever the nesting (arrays, optional guards, dummy guards, nested structs
and case classes).  (2) *Presence of the guards*: for every field form the generator emits the
none-check, the length check with the right operator and limit, and the case-data guard; integers are
written through the writer's range-checked calls.  That the XML-level notion of "violates its
declaration" coincides with these guards on every specification is the conformance theorem of C02
(`ser_conforms`, refusal ⇔ refusal) on its fragment, and is tied per sampled specification by the
correspondence beyond it.
-/
namespace EoVerif.Gen

/-- An error anywhere in a statement list is the result of the whole list: later statements do not
    run and nothing swallows it. -/
theorem error_propagates (call : SerCall) (obj : Value) (ops₁ ops₂ : List SerOp) (st st' : SerSt) (e : PyErr)
    (h : execSerOps call obj ops₁ st = (st', .error e)) :
    execSerOps call obj (ops₁ ++ ops₂) st = (st', .error e) := by
  induction ops₁ generalizing st with
  | nil => simp [execSerOps] at h
  | cons op ops ih =>
    simp only [List.cons_append, execSerOps] at h ⊢
    cases hop : execSerOp call obj op st with
    | mk s r =>
      rw [hop] at h
      cases r with
      | error e' => simpa using h
      | ok u => cases u; simp only at h ⊢; exact ih _ h

/-- `serialize` re-raises what its body raised (the `finally` only restores the mode). -/
theorem serialize_reraises (call : SerCall) (c : ClassIR) (obj : Value) (w : Writer) :
    (serializeBody call c obj w).2 = (execSerOps call obj c.ser { w := w, oldLen := w.data.length }).2 := by
  simp [serializeBody]

/-- A required field left as `None` is refused by its none-check. -/
theorem noneCheck_refuses (call : SerCall) (obj : Value) (f : String) (st : SerSt) (h : obj.attr f = .none) :
    execSerOp call obj (.noneCheck f) st = (st, .error .SerializationError) := by
  simp [execSerOp, h]

/-- A string/array whose length differs from a fixed length (`gt = false`) or exceeds a padded /
    length-field limit (`gt = true`) is refused by its length check. -/
theorem lenCheck_refuses (call : SerCall) (obj : Value) (f : String) (gt : Bool) (limit : Int) (st : SerSt) (n : Nat)
    (hv : (obj.attr f).len? = some n) (hne : obj.attr f ≠ .missing)
    (hbad : if gt then (n : Int) > limit else (n : Int) ≠ limit) :
    execSerOp call obj (.lenCheck f gt limit) st = (st, .error .SerializationError) := by
  simp only [execSerOp]
  cases hattr : obj.attr f <;> simp_all

/-- An integer at or above its type's limit is refused by the writer call the generator emits,
    leaving the writer untouched. -/
theorem int_limit_refuses (call : SerCall) (obj : Value) (st : SerSt) (k : IntKind) (n : Int) (h0 : 0 ≤ n)
    (hbad : n > k.maxValue) :
    doWrite call obj st (.int k) (.int n) 0 = (st, .error .ValueError) := by
  have key := Writer.int_rejects_iff st.w n h0
  cases k <;> simp only [doWrite, wstep, Int.sub_zero] <;> simp only [IntKind.maxValue] at hbad
  · have := key.1.mpr (by omega)
    have hat := Writer.atomic st.w (.addByte n) _ this
    cases hs : st.w.step (.addByte n) with | mk w' r => simp_all
  · have := key.2.1.mpr (by omega)
    have hat := Writer.atomic st.w (.addChar n) _ this
    cases hs : st.w.step (.addChar n) with | mk w' r => simp_all
  · have := key.2.2.1.mpr (by simp only [Int.reducePow]; omega)
    have hat := Writer.atomic st.w (.addShort n) _ this
    cases hs : st.w.step (.addShort n) with | mk w' r => simp_all
  · have := key.2.2.2.1.mpr (by simp only [Int.reducePow]; omega)
    have hat := Writer.atomic st.w (.addThree n) _ this
    cases hs : st.w.step (.addThree n) with | mk w' r => simp_all
  · have := key.2.2.2.2.mpr (by simp only [Int.reducePow]; omega)
    have hat := Writer.atomic st.w (.addInt n) _ this
    cases hs : st.w.step (.addInt n) with | mk w' r => simp_all

/-- Case data of the wrong kind for the selected case is refused: non-`None` data for a case
    without data (this includes the `else:` branch emitted when no case matches), or data that is not
    an instance of the selected case's class. -/
theorem case_guard_refuses (call : SerCall) (obj : Value) (f : String) (cases : List SerCase) (st : SerSt)
    (c : SerCase) (fv : Value) (hf : obj.attr f = fv) (hfm : fv ≠ .missing)
    (hsel : cases.find? (fun c => match c.cond with
        | Option.none => true
        | some n => (match fv.toInt? with | some m => m == n | Option.none => false)) = some c)
    (hbad : match c.body with
      | .expectNone df => obj.attr df ≠ .missing ∧ obj.attr df ≠ .none
      | .expectCls df cls => obj.attr df ≠ .missing ∧ (obj.attr df).cls? ≠ some cls) :
    execSerOp call obj (.switch f cases) st = (st, .error .SerializationError) := by
  simp only [execSerOp, hf]
  cases fv <;> first | exact absurd rfl hfm | skip
  all_goals
    -- the `match` in `hsel` is elaborated to a different (definitionally equal) auxiliary matcher
    -- than the one inside `execSerOp`, so rewrite up to defeq through a generalised `find?` term
    generalize hg : List.find? _ cases = sel
    have hs : sel = some c := by rw [← hg]; exact hsel
    subst hs
    simp only []
    cases hb : c.body with
    | expectNone df =>
      rw [hb] at hbad
      simp only [] at hbad ⊢
      cases hd : obj.attr df <;> simp_all
    | expectCls df cls =>
      rw [hb] at hbad
      simp only [] at hbad ⊢
      cases hd : obj.attr df <;> simp_all

private theorem bind_ok_iff' {ε α β} (x : Except ε α) (f : α → Except ε β) (b : β) :
    (x >>= f) = .ok b ↔ ∃ a, x = .ok a ∧ f a = .ok b := by
  cases x <;> simp [bind, Except.bind]

private theorem pure_ok_iff' {ε α} (a b : α) : (pure a : Except ε α) = .ok b ↔ a = b := by
  simp [pure, Except.pure]

/-- **Presence of the guards**: for a named, required, non-hard-coded scalar field the emitted
    statements start with its none-check; with a `length=` they continue with the length check using
    `!=` for an exact literal length and `>` for a padded one or a length-field bound
    (`max(type) + offset`). -/
theorem required_field_guarded (tf : TypeEnv) (ctx : Ctx) (d d' : Data) (p : FP) (n : String)
    (hn : p.name = some n) (hopt : p.optional = false) (hh : p.hardcoded = none) (harr : p.arrayField = false)
    (h : generateSerialize tf ctx d p = .ok d') :
    ∃ rest, d'.ser = d.ser ++ (.noneCheck n :: rest) ∧
      (∀ l, p.lenStr = some l →
        ∃ gt limit rest', rest = .lenCheck n gt limit :: rest' ∧
          (match ctx.field? l with
           | some fd => gt = true ∧ limit = (match fd.ty with | .int k => k.maxValue | _ => 0) + fd.offset
           | none => gt = p.padded ∧ limit = (PyStr.pyInt? l).getD 0)) := by
  unfold generateSerialize at h
  simp only [harr, hopt, hn, hh, Bool.false_eq_true, if_false, bind_ok_iff', pure_ok_iff'] at h
  obtain ⟨_, _, t, _, v, _, sl, _, rfl⟩ := h
  refine ⟨_, by simp only [Bool.or_self, Option.isNone_some, Option.isSome_none, Bool.false_eq_true, if_false,
      Option.getD_some, List.singleton_append]; rfl, ?_⟩
  intro l hl
  simp only [hl]
  cases hfd : ctx.field? l with
  | none => exact ⟨_, _, _, rfl, rfl, rfl⟩
  | some fd => exact ⟨_, _, _, rfl, rfl, rfl⟩

/-! Non-vacuity (tests, labelled as such): each guard firing on a concrete object. -/
example : (execSerOps (fun _ _ w => (w, .ok ())) (.obj "K" [("x", .none)] 0)
    [.noneCheck "x", .write (.int .char) (.field "x" false) .none 0] { w := {} }).2 = .error .SerializationError := by decide
example : (execSerOps (fun _ _ w => (w, .ok ())) (.obj "K" [("s", .str [65, 66])] 0)
    [.noneCheck "s", .lenCheck "s" false 3] { w := {} }).2 = .error .SerializationError := by decide

end EoVerif.Gen
