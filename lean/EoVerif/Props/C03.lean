import EoVerif.Model.GenExec
import EoVerif.Props.C05
import EoVerif.Lemmas.GenDe
/-!
# C03 — generated deserializers on truncated or hostile bytes  (theorems over the model for every
generator output; conformance to the declarative reading rules `Spec.readClass` is tied per sampled
specification by the three-way correspondence, see DESIGN §3 C03)
-/
namespace EoVerif.Gen

/-- **Nothing outside the supplied bytes is read, whatever the bytes**: a generated `deserialize` only
    moves the reader through its own data — the data is never replaced, the reader's representation
    invariant is preserved (so `0 ≤ position ≤ len`, `remaining ≥ 0`, see C05) — for every generator
    output, class, call depth and reader state, and whether the call returns or raises. -/
theorem de_stays_inside (o : GenOutput) (fuel : Nat) (cls : String) (r : Reader) (h : Reader.Inv r) :
    (execDe o fuel cls r).1.data = r.data ∧ Reader.Inv (execDe o fuel cls r).1 :=
  goodCall_execDe o fuel cls r h

/-- `byte_size` of the result is the reader position delta across the call. -/
theorem byte_size_is_delta (o : GenOutput) (fuel : Nat) (cls : String) (r : Reader) (v : Value)
    (h : (execDe o fuel cls r).2 = .ok v) :
    ∃ c fs, v = .obj c fs (((execDe o fuel cls r).1.pos : Int) - r.pos) :=
  execDe_byteSize o fuel cls r v h

/-- Unknown enum ordinals are preserved: the coercion emitted for an enum read never fails and keeps
    the integer read (plus the declared offset, which is 0 for enums). -/
theorem enum_read_keeps_ordinal (n : Int) : coerceR .enum 0 (.int n) = .ok (.int n) := by
  simp [coerceR]

/-- An optional item is absent exactly when no data remains when it is reached. -/
theorem optional_absent_iff (call : DeCall) (name : String) (body : List DeOp) (st : DeSt)
    (h0 : st.r.remaining ≤ 0) :
    execDeOp call (.optRead name body) st = (st.set name .none, .ok ()) := by
  simp only [execDeOp]
  have : ¬ ((st.set name .none).r.remaining > 0) := by
    have : (st.set name .none).r = st.r := by
      simp only [DeSt.set]; split <;> rfl
    rw [this]; omega
  simp [this]

end EoVerif.Gen
