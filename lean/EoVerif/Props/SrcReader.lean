import EoVerif.Generated.SrcReader
import EoVerif.Model.Reader
import EoVerif.Lemmas.Reader
import EoVerif.Lemmas.PyLoops
import EoVerif.Props.SrcNum
import EoVerif.Props.SrcStr
/-!
  # Source tie for `eolib/data/eo_reader.py` (C05; the reader half of C04 and C06)

  Every method of `EoReader` is translated from the working tree on every run (an instance is the tuple
  `(_data, _position, _chunked_reading_mode, _chunk_start, _next_break)`; a method returns the fields it assigns and
  its value).  The theorems prove that each translated method **is** the corresponding case of the hand-written model
  `Reader.step` / `Reader.slice` on every state that satisfies the representation invariant `RInv` of the C05
  refinement proof (which C05 proves for every reachable state) and every non-negative length argument.
-/
set_option linter.unusedSimpArgs false
namespace EoVerif.SrcTie
open EoVerif Reader

/-! ### helpers -/

theorem ofBytes_length (bs : Bytes) : (ofBytes bs).length = bs.length := by simp [ofBytes]

theorem clip_nat (xs : List Int) (k : Nat) : Py.clip xs (k : Int) = min k xs.length := by
  have h : ¬ ((k : Int) < 0) := by omega
  simp [Py.clip, h]

/-- `data[p : p + k]` inside the data -/
theorem slice_ofBytes (bs : Bytes) (p k : Nat) (h : p + k ≤ bs.length) :
    Py.slice (ofBytes bs) (p : Int) ((p : Int) + (k : Int)) = ofBytes ((bs.drop p).take k) := by
  have e : ((p : Int) + (k : Int)) = ((p + k : Nat) : Int) := by omega
  rw [e]
  simp only [Py.slice, clip_nat, ofBytes_length]
  rw [Nat.min_eq_left (by omega), Nat.min_eq_left (by omega)]
  simp [ofBytes, List.map_take, List.map_drop]

theorem decode_ansi_ofBytes (bs : Bytes) : Py.decodeAnsi (ofBytes bs) = Ansi.decode bs := by
  have : List.map (Int.toNat ∘ Int.ofNat) bs = bs := by
    induction bs with
    | nil => rfl
    | cons a t ih => simp [ih]
  simp [Py.decodeAnsi, ofBytes, List.map_map, this]

theorem getD_ofBytes (bs : Bytes) (p : Nat) : (ofBytes bs).getD p 0 = ((bs.getD p 0 : Nat) : Int) := by
  unfold ofBytes
  by_cases h : p < bs.length
  · simp [List.getD_eq_getElem?_getD, List.getElem?_eq_getElem h, List.getElem?_map]
  · simp [List.getD_eq_getElem?_getD, List.getElem?_eq_none (Nat.le_of_not_lt h), List.getElem?_map]

/-- the unpadded part (`removePadding`), with its defining equations -/
def tw (bs : Bytes) : Bytes := Reader.removePadding bs
theorem tw_nil : tw [] = [] := rfl
theorem tw_cons_eq (bs : Bytes) : tw (255 :: bs) = [] := by simp [tw, Reader.removePadding]
theorem tw_cons_ne (b : Nat) (bs : Bytes) (h : b ≠ 255) : tw (b :: bs) = b :: tw bs := by
  simp [tw, Reader.removePadding, h]
theorem tw_prefix (bs : Bytes) : tw bs <+: bs := List.takeWhile_prefix _

/-- `array.find(b'\xff')` against `removePadding` -/
theorem findByteFrom_spec (bs : Bytes) : ∀ i : Nat,
    Py.findByteFrom 255 (ofBytes bs) i =
      if (tw bs).length = bs.length then -1 else ((i + (tw bs).length : Nat) : Int) := by
  induction bs with
  | nil => intro i; simp [Py.findByteFrom, ofBytes, tw_nil]
  | cons b bs ih =>
    intro i
    by_cases hb : b = 255
    · subst hb; simp [ofBytes, Py.findByteFrom, tw_cons_eq]
    · have hb' : ¬ ((b : Int) = 255) := by omega
      have e : Py.findByteFrom 255 (ofBytes (b :: bs)) i = Py.findByteFrom 255 (ofBytes bs) (i + 1) := by
        simp [ofBytes, Py.findByteFrom, hb']
      rw [e, ih (i + 1), tw_cons_ne b bs hb]
      by_cases hl : (tw bs).length = bs.length
      · simp [hl]
      · have : ¬ ((tw bs).length + 1 = bs.length + 1) := by omega
        simp only [hl, if_false, List.length_cons, this]; omega

theorem remove_padding_eq (bs : Bytes) :
    Src.Reader.EoReader._remove_padding (ofBytes bs) = .ok (ofBytes (Reader.removePadding bs)) := by
  show _ = Except.ok (ofBytes (tw bs))
  unfold Src.Reader.EoReader._remove_padding Py.findByte
  rw [findByteFrom_spec]
  have hpre := tw_prefix bs
  by_cases hl : (tw bs).length = bs.length
  · have : tw bs = bs := hpre.eq_of_length hl
    simp [hl, this]
  · have hle : (tw bs).length ≤ bs.length := hpre.length_le
    have hne : ¬ (((0 + (tw bs).length : Nat) : Int) = -1) := by omega
    simp only [hl, if_false, hne, decide_true, if_true, ne_eq, not_false_eq_true]
    have hp : tw bs = bs.take (tw bs).length := List.prefix_iff_eq_take.mp hpre
    simp only [Py.slicePrefix, Nat.zero_add, clip_nat, ofBytes_length, Nat.min_eq_left hle]
    rw [show ofBytes (tw bs) = ofBytes (bs.take (tw bs).length) by rw [← hp]]
    simp [ofBytes, List.map_take]

/-! ### the private helpers of the reader -/

theorem remaining_eq (r : Reader) :
    Src.Reader.EoReader.remaining (ofBytes r.data) r.pos r.chunked r.chunkStart r.nextBreak = .ok r.remaining := by
  unfold Src.Reader.EoReader.remaining Reader.remaining
  cases r.chunked <;> simp [Py.len, ofBytes]

theorem read_bytes_eq (r : Reader) (h : RInv r) (n : Nat) :
    Src.Reader.EoReader._read_bytes (ofBytes r.data) r.pos r.chunked r.chunkStart r.nextBreak (n : Int)
      = .ok (((r.readBytes n).1.pos : Int), ofBytes (r.readBytes n).2) := by
  unfold Src.Reader.EoReader._read_bytes
  rw [remaining_eq, readBytes_eq r h n]
  have hle := pos_add_remaining_le r h
  have e : min (n : Int) r.remaining = ((min n (toA r).remaining : Nat) : Int) := by
    rw [remaining_toA r h]; omega
  simp only [Py.bind_ok, e]
  rw [slice_ofBytes _ _ _ (by have := Nat.min_le_right n (toA r).remaining; omega)]
  simp

theorem read_byte_eq (r : Reader) (h : RInv r) :
    Src.Reader.EoReader._read_byte (ofBytes r.data) r.pos r.chunked r.chunkStart r.nextBreak
      = .ok (((r.readByte).1.pos : Int), ((r.readByte).2 : Int)) := by
  unfold Src.Reader.EoReader._read_byte Reader.readByte
  rw [remaining_eq]
  have hle := pos_add_remaining_le r h
  have hrem := remaining_toA r h
  by_cases hp : r.remaining > 0
  · have hin : (0 : Int) ≤ (r.pos : Int) ∧ (r.pos : Int) < ((ofBytes r.data).length : Int) := by
      rw [ofBytes_length]; omega
    simp only [Py.bind_ok, hp, decide_true, if_true]
    rw [Py.getItem_ok _ _ _ hin, Int.toNat_natCast, getD_ofBytes]
    simp
  · simp [hp]

/-- the search loop of `_find_next_break_index` -/
theorem find_loop (data : Bytes) : ∀ (suf pre : Bytes), data = pre ++ suf →
    Py.bind (Py.forRangeGo (Src.Reader.EoReader__find_next_break_index_loop1_body (ofBytes data)) suf.length (pre.length : Int)
        (none : Option Int))
      (fun ret_slot => match ret_slot with
        | some ret_val => (.ok ret_val : Py.M Int)
        | none => .ok (Py.len (ofBytes data)))
      = .ok ((Reader.findFrom suf pre.length : Nat) : Int) := by
  intro suf
  induction suf with
  | nil =>
    intro pre hd
    simp [Py.forRangeGo, Reader.findFrom, Py.len, ofBytes_length, hd]
  | cons c cs ih =>
    intro pre hd
    have hin : (0 : Int) ≤ (pre.length : Int) ∧ (pre.length : Int) < ((ofBytes data).length : Int) := by
      rw [ofBytes_length, hd]; simp; omega
    have hget : (ofBytes data).getD (pre.length : Int).toNat 0 = (c : Int) := by
      rw [getD_ofBytes, hd]; simp
    by_cases hc : c = 255
    · have hb : Src.Reader.EoReader__find_next_break_index_loop1_body (ofBytes data) (pre.length : Int) none
          = .ok (some (pre.length : Int), true) := by
        simp only [Src.Reader.EoReader__find_next_break_index_loop1_body]
        rw [Py.getItem_ok _ _ _ hin, hget]; simp [hc]
      rw [List.length_cons, Py.forRangeGo_break _ _ _ _ _ hb]
      simp [Reader.findFrom, hc]
    · have hc' : ¬ ((c : Int) = 255) := by omega
      have hb : Src.Reader.EoReader__find_next_break_index_loop1_body (ofBytes data) (pre.length : Int) none
          = .ok (none, false) := by
        simp only [Src.Reader.EoReader__find_next_break_index_loop1_body]
        rw [Py.getItem_ok _ _ _ hin, hget]; simp [hc']
      rw [List.length_cons, Py.forRangeGo_step _ _ _ _ _ hb]
      have := ih (pre ++ [c]) (by simp [hd])
      simp only [List.length_append, List.length_cons, List.length_nil, Nat.zero_add, Int.natCast_add, Int.natCast_one] at this
      rw [this]
      simp [Reader.findFrom, hc]

theorem find_next_break_eq (r : Reader) (hcs : r.chunkStart ≤ r.data.length) :
    Src.Reader.EoReader._find_next_break_index (ofBytes r.data) r.pos r.chunked r.chunkStart r.nextBreak
      = .ok ((r.findNextBreak : Nat) : Int) := by
  unfold Src.Reader.EoReader._find_next_break_index Py.forRange2 Reader.findNextBreak
  have hn : (Py.len (ofBytes r.data) - (r.chunkStart : Int)).toNat = (r.data.drop r.chunkStart).length := by
    simp [Py.len, ofBytes_length]
  have := find_loop r.data (r.data.drop r.chunkStart) (r.data.take r.chunkStart) (by simp)
  have hl : (r.data.take r.chunkStart).length = r.chunkStart := by simp [Nat.min_eq_left hcs]
  rw [hl] at this
  rw [hn]
  simp only [hcs, if_true]
  exact this


/-! ### the public methods -/

theorem init_reader_eq (data : Bytes) :
    Src.Reader.EoReader.__init__ (ofBytes data) =
      .ok (ofBytes (Reader.new data).data, ((Reader.new data).pos : Int), (Reader.new data).chunked,
        ((Reader.new data).chunkStart : Int), (Reader.new data).nextBreak) := rfl

theorem position_eq (r : Reader) :
    Src.Reader.EoReader.position (ofBytes r.data) r.pos r.chunked r.chunkStart r.nextBreak = .ok (r.pos : Int) := rfl

theorem chunked_getter_eq (r : Reader) :
    Src.Reader.EoReader.chunked_reading_mode (ofBytes r.data) r.pos r.chunked r.chunkStart r.nextBreak = .ok r.chunked := rfl

theorem get_byte_eq (r : Reader) (h : RInv r) :
    ∃ v : Int, (r.step .getByte).2 = .ok (.int v) ∧
      Src.Reader.EoReader.get_byte (ofBytes r.data) r.pos r.chunked r.chunkStart r.nextBreak
        = .ok (((r.step .getByte).1.pos : Int), v) := by
  refine ⟨((r.readByte).2 : Int), by simp [Reader.step], ?_⟩
  unfold Src.Reader.EoReader.get_byte
  rw [read_byte_eq r h]
  simp [Reader.step]

theorem get_bytes_eq (r : Reader) (h : RInv r) (n : Nat) :
    ∃ bs : Bytes, (r.step (.getBytes n)).2 = .ok (.bytes bs) ∧
      Src.Reader.EoReader.get_bytes (ofBytes r.data) r.pos r.chunked r.chunkStart r.nextBreak (n : Int)
        = .ok (((r.step (.getBytes n)).1.pos : Int), ofBytes bs) := by
  refine ⟨(r.readBytes n).2, by simp [Reader.step], ?_⟩
  unfold Src.Reader.EoReader.get_bytes
  rw [read_bytes_eq r h n]
  simp [Reader.step]

/-- the common shape of `get_char` … `get_int` -/
theorem get_number_eq (r : Reader) (h : RInv r) (k : Nat) :
    (Py.bind (Src.Reader.EoReader._read_bytes (ofBytes r.data) r.pos r.chunked r.chunkStart r.nextBreak (k : Int))
      fun (x : Int × List Int) => Py.bind (Src.Num.decode_number x.2) fun t2 => (.ok (x.1, t2) : Py.M (Int × Int)))
      = .ok (((r.readBytes k).1.pos : Int), Num.decode (r.readBytes k).2) := by
  rw [read_bytes_eq r h k]
  simp only [Py.bind_ok]
  have := decode_number_eq (r.readBytes k).2
  simp only [ofBytes] at this ⊢
  rw [this]; rfl

theorem get_char_eq (r : Reader) (h : RInv r) :
    ∃ v : Int, (r.step .getChar).2 = .ok (.int v) ∧
      Src.Reader.EoReader.get_char (ofBytes r.data) r.pos r.chunked r.chunkStart r.nextBreak
        = .ok (((r.step .getChar).1.pos : Int), v) :=
  ⟨Num.decode (r.readBytes 1).2, by simp [Reader.step], by
    have := get_number_eq r h 1; simpa [Src.Reader.EoReader.get_char, Reader.step] using this⟩

theorem get_short_eq (r : Reader) (h : RInv r) :
    ∃ v : Int, (r.step .getShort).2 = .ok (.int v) ∧
      Src.Reader.EoReader.get_short (ofBytes r.data) r.pos r.chunked r.chunkStart r.nextBreak
        = .ok (((r.step .getShort).1.pos : Int), v) :=
  ⟨Num.decode (r.readBytes 2).2, by simp [Reader.step], by
    have := get_number_eq r h 2; simpa [Src.Reader.EoReader.get_short, Reader.step] using this⟩

theorem get_three_eq (r : Reader) (h : RInv r) :
    ∃ v : Int, (r.step .getThree).2 = .ok (.int v) ∧
      Src.Reader.EoReader.get_three (ofBytes r.data) r.pos r.chunked r.chunkStart r.nextBreak
        = .ok (((r.step .getThree).1.pos : Int), v) :=
  ⟨Num.decode (r.readBytes 3).2, by simp [Reader.step], by
    have := get_number_eq r h 3; simpa [Src.Reader.EoReader.get_three, Reader.step] using this⟩

theorem get_int_eq (r : Reader) (h : RInv r) :
    ∃ v : Int, (r.step .getInt).2 = .ok (.int v) ∧
      Src.Reader.EoReader.get_int (ofBytes r.data) r.pos r.chunked r.chunkStart r.nextBreak
        = .ok (((r.step .getInt).1.pos : Int), v) :=
  ⟨Num.decode (r.readBytes 4).2, by simp [Reader.step], by
    have := get_number_eq r h 4; simpa [Src.Reader.EoReader.get_int, Reader.step] using this⟩

theorem remaining_nonneg (r : Reader) (h : RInv r) : r.remaining = ((r.remaining.toNat : Nat) : Int) := by
  rw [remaining_toA r h]; omega

theorem get_string_eq (r : Reader) (h : RInv r) :
    ∃ s : Ansi.Str, (r.step .getString).2 = .ok (.str s) ∧
      Src.Reader.EoReader.get_string (ofBytes r.data) r.pos r.chunked r.chunkStart r.nextBreak
        = .ok (((r.step .getString).1.pos : Int), s) := by
  have e : (max r.remaining 0).toNat = r.remaining.toNat := by omega
  refine ⟨Ansi.decode (r.readBytes r.remaining.toNat).2, by simp [Reader.step, e], ?_⟩
  unfold Src.Reader.EoReader.get_string
  rw [remaining_eq]
  simp only [Py.bind_ok]
  rw [remaining_nonneg r h, read_bytes_eq r h]
  simp [Reader.step, Src.Reader.EoReader._decode_ansi, decode_ansi_ofBytes, e]

theorem get_encoded_string_eq (r : Reader) (h : RInv r) :
    ∃ s : Ansi.Str, (r.step .getEncodedString).2 = .ok (.str s) ∧
      Src.Reader.EoReader.get_encoded_string (ofBytes r.data) r.pos r.chunked r.chunkStart r.nextBreak
        = .ok (((r.step .getEncodedString).1.pos : Int), s) := by
  have e : (max r.remaining 0).toNat = r.remaining.toNat := by omega
  refine ⟨Ansi.decode (Str.decode (r.readBytes r.remaining.toNat).2), by simp [Reader.step, e], ?_⟩
  unfold Src.Reader.EoReader.get_encoded_string
  rw [remaining_eq]
  simp only [Py.bind_ok]
  rw [remaining_nonneg r h, read_bytes_eq r h]
  simp [Reader.step, Src.Reader.EoReader._decode_ansi, decode_ansi_ofBytes, decode_string_eq, e]

theorem get_fixed_string_eq (r : Reader) (h : RInv r) (length : Int) (padded : Bool) :
    Src.Reader.EoReader.get_fixed_string (ofBytes r.data) r.pos r.chunked r.chunkStart r.nextBreak length padded
      = match (r.step (.getFixedString length padded)).2 with
        | .ok (.str s) => .ok (((r.step (.getFixedString length padded)).1.pos : Int), s)
        | .ok _ => .error .Other
        | .error e => .error e := by
  unfold Src.Reader.EoReader.get_fixed_string
  by_cases hl : length < 0
  · simp [Reader.step, hl]
  · obtain ⟨n, rfl⟩ : ∃ n : Nat, length = (n : Int) := ⟨length.toNat, by omega⟩
    simp only [hl, decide_false, Bool.false_eq_true, if_false]
    rw [read_bytes_eq r h n]
    cases padded <;>
      simp [Reader.step, hl, Src.Reader.EoReader._decode_ansi, decode_ansi_ofBytes, remove_padding_eq]

theorem get_fixed_encoded_string_eq (r : Reader) (h : RInv r) (length : Int) (padded : Bool) :
    Src.Reader.EoReader.get_fixed_encoded_string (ofBytes r.data) r.pos r.chunked r.chunkStart r.nextBreak length padded
      = match (r.step (.getFixedEncodedString length padded)).2 with
        | .ok (.str s) => .ok (((r.step (.getFixedEncodedString length padded)).1.pos : Int), s)
        | .ok _ => .error .Other
        | .error e => .error e := by
  unfold Src.Reader.EoReader.get_fixed_encoded_string
  by_cases hl : length < 0
  · simp [Reader.step, hl]
  · obtain ⟨n, rfl⟩ : ∃ n : Nat, length = (n : Int) := ⟨length.toNat, by omega⟩
    simp only [hl, decide_false, Bool.false_eq_true, if_false]
    rw [read_bytes_eq r h n]
    cases padded <;>
      simp [Reader.step, hl, Src.Reader.EoReader._decode_ansi, decode_ansi_ofBytes, remove_padding_eq, decode_string_eq]


/-- the setter of `chunked_reading_mode` returns the two fields it assigns -/
theorem chunked_setter_eq (r : Reader) (h : RInv r) (b : Bool) :
    Src.Reader.EoReader.chunked_reading_mode_setter (ofBytes r.data) r.pos r.chunked r.chunkStart r.nextBreak b
      = .ok ((r.step (.setChunked b)).1.chunked, (r.step (.setChunked b)).1.nextBreak) ∧
    (r.step (.setChunked b)).1.data = r.data ∧ (r.step (.setChunked b)).1.pos = r.pos ∧
    (r.step (.setChunked b)).1.chunkStart = r.chunkStart ∧ (r.step (.setChunked b)).2 = .ok .none := by
  unfold Src.Reader.EoReader.chunked_reading_mode_setter Reader.step
  have hcs : r.chunkStart ≤ r.data.length := h.2.2.2.2
  have hf := find_next_break_eq { r with chunked := b } hcs
  by_cases hn : r.nextBreak = -1
  · simp only [hn, decide_true, if_true] at hf ⊢
    simp only [hf, Py.bind_ok]
    simp [Reader.findNextBreak]
  · simp [hn]

theorem next_chunk_eq (r : Reader) (h : RInv r) :
    Src.Reader.EoReader.next_chunk (ofBytes r.data) r.pos r.chunked r.chunkStart r.nextBreak
      = match (r.step .nextChunk).2 with
        | .ok _ => .ok (((r.step .nextChunk).1.pos : Int), ((r.step .nextChunk).1.chunkStart : Int), (r.step .nextChunk).1.nextBreak)
        | .error e => .error e := by
  unfold Src.Reader.EoReader.next_chunk Reader.step
  by_cases hc : r.chunked = true
  · have hnb : r.nextBreak = (((toA r).brk : Nat) : Int) := by
      rcases h.1 with h1 | h1
      · exact absurd h1 (h.2.1 hc)
      · exact h1
    have hble : (toA r).brk ≤ r.data.length := brk_le (toA r)
    simp only [hc, Bool.not_true, Bool.false_eq_true, if_false, Py.len, ofBytes_length]
    -- the new position, as a natural number
    have hp : (if decide (r.nextBreak < (r.data.length : Int)) = true then (.ok (r.nextBreak + 1) : Py.M Int) else .ok r.nextBreak)
        = .ok (((if r.nextBreak.toNat < r.data.length then r.nextBreak.toNat + 1 else r.nextBreak.toNat : Nat)) : Int) := by
      rw [hnb]
      by_cases hlt : (toA r).brk < r.data.length
      · have : ((((toA r).brk : Nat) : Int) < (r.data.length : Int)) := by omega
        simp [hlt, this]
      · have : ¬ ((((toA r).brk : Nat) : Int) < (r.data.length : Int)) := by omega
        simp [hlt, this]
    rw [hp]
    simp only [Py.bind_ok]
    have hple : (if r.nextBreak.toNat < r.data.length then r.nextBreak.toNat + 1 else r.nextBreak.toNat) ≤ r.data.length := by
      rw [hnb]; simp only [Int.toNat_natCast]; split <;> omega
    have hf := find_next_break_eq
      { r with pos := (if r.nextBreak.toNat < r.data.length then r.nextBreak.toNat + 1 else r.nextBreak.toNat),
               chunkStart := (if r.nextBreak.toNat < r.data.length then r.nextBreak.toNat + 1 else r.nextBreak.toNat) } hple
    simp only [hc] at hf
    rw [hf]
    simp [Reader.findNextBreak]
  · have hc' : r.chunked = false := by simpa using hc
    simp [hc']

theorem slice_core (r : Reader) (ix ln : Int) :
    (if decide (ix < 0) = true then (.error .ValueError : Py.M (List Int × Int × Bool × Int × Int))
     else if decide (ln < 0) = true then .error .ValueError
     else Py.bind (Src.Reader.EoReader.__init__ (Py.slice (ofBytes r.data)
        (max 0 (min (r.data.length : Int) ix))
        (max 0 (min (r.data.length : Int) ix) + min ((r.data.length : Int) - max 0 (min (r.data.length : Int) ix)) ln)))
        fun t1 => .ok t1)
    = match (if ix < 0 then (.error .ValueError : Except PyErr Reader)
        else if ln < 0 then .error .ValueError
        else .ok (Reader.new ((r.data.drop (max 0 (min (r.data.length : Int) ix)).toNat).take
          ((max 0 (min (r.data.length : Int) ix)).toNat +
            (min ((r.data.length : Int) - ((max 0 (min (r.data.length : Int) ix)).toNat : Int)) ln).toNat
            - (max 0 (min (r.data.length : Int) ix)).toNat)))) with
      | .ok r' => .ok (ofBytes r'.data, (r'.pos : Int), r'.chunked, (r'.chunkStart : Int), r'.nextBreak)
      | .error e => .error e := by
  by_cases h1 : ix < 0
  · simp [h1]
  · by_cases h2 : ln < 0
    · simp [h1, h2]
    · simp only [h1, h2, decide_false, Bool.false_eq_true, if_false]
      obtain ⟨p, hp⟩ : ∃ p : Nat, max (0 : Int) (min (r.data.length : Int) ix) = (p : Int) :=
        ⟨(max (0 : Int) (min (r.data.length : Int) ix)).toNat, by omega⟩
      obtain ⟨k, hk⟩ : ∃ k : Nat, min ((r.data.length : Int) - (p : Int)) ln = (k : Int) :=
        ⟨(min ((r.data.length : Int) - (p : Int)) ln).toNat, by omega⟩
      rw [hp]
      simp only [Int.toNat_natCast]
      rw [hk, slice_ofBytes _ _ _ (by omega)]
      simp [Src.Reader.EoReader.__init__, Reader.new]

/-- `slice(index, length)`: the new reader's fields, or the documented `ValueError` -/
theorem slice_eq (r : Reader) (index length : Option Int) :
    Src.Reader.EoReader.slice (ofBytes r.data) r.pos r.chunked r.chunkStart r.nextBreak index length
      = match r.slice index length with
        | .ok r' => .ok (ofBytes r'.data, (r'.pos : Int), r'.chunked, (r'.chunkStart : Int), r'.nextBreak)
        | .error e => .error e := by
  unfold Src.Reader.EoReader.slice Reader.slice
  cases index <;> cases length <;> simp only [Py.len, ofBytes_length, Option.getD_none, Option.getD_some] <;>
    exact slice_core r _ _

end EoVerif.SrcTie
