import EoVerif.Generated.SrcEnc
import EoVerif.Model.Enc
/-!
  # Source tie for `eolib/encrypt/encryption_utils.py` (C10)

  The translated `flip_msb`, `interleave`, `deinterleave` (regenerated from the working tree on every run; in-place
  mutation rendered as a returned list, `while` loops with explicit fuel) are the hand-written model `EoVerif.Enc` for
  every byte string — loop invariants over the translated loops, including that no index ever leaves the buffer, no
  store leaves `range(256)` and the fuel `len(data) + 2` is never exhausted.
-/
namespace EoVerif.SrcTie
open EoVerif

def ofBytesE (bs : Bytes) : List Int := bs.map Int.ofNat

/-- a `for i in range(len(xs))` loop that rewrites position `i` from its old value only is a `map` -/
theorem map_loop (P : Int → Prop) (f : Int → Int) (body : Int → List Int → Py.M (List Int × Bool))
    (hbody : ∀ (done : List Int) (c : Int) (rest : List Int), P c →
        body (done.length : Int) (done ++ c :: rest) = .ok (done ++ f c :: rest, false))
    (suf : List Int) : (∀ c ∈ suf, P c) → ∀ done : List Int,
      Py.forRangeGo body suf.length (done.length : Int) (done ++ suf) = .ok (done ++ suf.map f) := by
  induction suf with
  | nil => intro _ done; simp [Py.forRangeGo]
  | cons c cs ih =>
    intro hP done
    have hb := hbody done c cs (hP c (by simp))
    rw [List.length_cons, Py.forRangeGo_step _ _ _ _ _ hb]
    have h := ih (fun x hx => hP x (by simp [hx])) (done ++ [f c])
    simp only [List.length_append, List.length_cons, List.length_nil, Nat.zero_add, Int.natCast_add, Int.natCast_one,
      List.append_assoc, List.singleton_append] at h
    rw [h]; simp

theorem map_main (P : Int → Prop) (f : Int → Int) (body : Int → List Int → Py.M (List Int × Bool))
    (hbody : ∀ (done : List Int) (c : Int) (rest : List Int), P c →
        body (done.length : Int) (done ++ c :: rest) = .ok (done ++ f c :: rest, false))
    (xs : List Int) (hP : ∀ c ∈ xs, P c) :
    Py.bind (Py.forRangeGo body xs.length 0 xs) (fun data => Except.ok data) = .ok (xs.map f) := by
  have key := map_loop P f body hbody xs hP []
  simp only [List.length_nil, Int.natCast_zero, List.nil_append] at key
  rw [key]; rfl

/-! ### flip_msb -/

theorem flip_table : ∀ n : Fin 256,
    ((n.val &&& 127 ≠ 0) → (n.val ^^^ 128 = Enc.flipB n.val ∧ n.val ^^^ 128 < 256)) ∧
    ((n.val &&& 127 = 0) → Enc.flipB n.val = n.val) := by decide +kernel

def flipI (c : Int) : Int := if c.toNat &&& 127 ≠ 0 then Int.ofNat (c.toNat ^^^ 128) else c

theorem flipI_eq (n : Nat) (h : n < 256) : flipI (n : Int) = ((Enc.flipB n : Nat) : Int) := by
  have t := flip_table ⟨n, h⟩
  unfold flipI
  simp only [Int.toNat_natCast]
  by_cases h0 : n &&& 127 = 0
  · simp [h0, t.2 h0]
  · simp [h0, (t.1 h0).1]

theorem flip_msb_eq (bs : Bytes) (hbs : Bytes.ok bs) :
    Src.Enc.flip_msb (ofBytesE bs) = .ok (ofBytesE (Enc.flipMsb bs)) := by
  unfold Src.Enc.flip_msb Py.forRange Enc.flipMsb
  have hlen : (Py.len (ofBytesE bs)).toNat = (ofBytesE bs).length := by simp [Py.len]
  rw [hlen]
  have hmap : ofBytesE (List.map Enc.flipB bs) = (ofBytesE bs).map flipI := by
    simp only [ofBytesE, List.map_map]
    apply List.map_congr_left
    intro n hn
    exact (flipI_eq n (hbs n hn)).symm
  rw [hmap]
  refine map_main (fun c => 0 ≤ c ∧ c < 256) flipI _ ?_ (ofBytesE bs) ?_
  · intro done c rest hc
    have h0 : (0 : Int) ≤ done.length ∧ (done.length : Int) < (done.length : Int) + ((rest.length : Int) + 1) := by omega
    have hneg : ¬ ((done.length : Int) < 0) := by omega
    have hget : ∀ (k : Int → Py.M (List Int)), Py.getItem (done ++ c :: rest) (done.length : Int) k = k c := by
      intro k
      simp [Py.getItem, Py.normIndex, Py.len, hneg, h0]
    have hset : ∀ (v : Int) (k : List Int → Py.M (List Int)), 0 ≤ v ∧ v < 256 →
        Py.setItem (done ++ c :: rest) (done.length : Int) v k = k (done ++ v :: rest) := by
      intro v k hv
      simp [Py.setItem, Py.normIndex, Py.len, hneg, h0, hv]
    have t := flip_table ⟨c.toNat, by omega⟩
    simp only [hget, Py.bitAnd, Py.bitXor, hc.1, and_self, if_true, show (0 : Int) ≤ 127 by omega, show (0 : Int) ≤ 128 by omega]
    unfold flipI
    by_cases hz : c.toNat &&& 127 = 0
    · simp [hz]
    · have hx : c.toNat ^^^ 128 < 256 := (t.1 hz).2
      have hx' : (0 : Int) ≤ ((c.toNat ^^^ 128 : Nat) : Int) ∧ ((c.toNat ^^^ 128 : Nat) : Int) < 256 := by omega
      have : (Int.toNat 127) = 127 := rfl
      have h128 : (Int.toNat 128) = 128 := rfl
      simp only [this, h128] at hz ⊢
      simp [hz]
      rw [hset _ _ hx']
      rfl
  · intro c hc
    simp only [ofBytesE, List.mem_map] at hc
    obtain ⟨n, hn, rfl⟩ := hc
    have := hbs n hn
    simp; omega
end EoVerif.SrcTie
