import EoVerif.Generated.SrcEnc
import EoVerif.Model.Enc
import EoVerif.Lemmas.PyLoops
/-!
  # Source tie for `eolib/encrypt/encryption_utils.py` (C10)

  The translated `flip_msb`, `interleave`, `deinterleave` (regenerated from the working tree on every run; in-place
  mutation rendered as a returned list, `while` loops with explicit fuel) are the hand-written model `EoVerif.Enc` for
  every byte string — loop invariants over the translated loops, including that no index ever leaves the buffer, no
  store leaves `range(256)` and the fuel `len(data) + 2` is never exhausted.
-/
namespace EoVerif.SrcTie
open EoVerif

def ofBytesE (bs : Bytes) : List Int := bs.map Int.ofNat

/-! ### flip_msb -/

theorem flip_table : ∀ n : Fin 256,
    ((n.val &&& 127 ≠ 0) → (n.val ^^^ 128 = Enc.flipB n.val ∧ n.val ^^^ 128 < 256)) ∧
    ((n.val &&& 127 = 0) → Enc.flipB n.val = n.val) := by decide +kernel

def flipI (c : Int) : Int := if c.toNat &&& 127 ≠ 0 then Int.ofNat (c.toNat ^^^ 128) else c

theorem flipI_eq (n : Nat) (h : n < 256) : flipI (n : Int) = ((Enc.flipB n : Nat) : Int) := by
  have t := flip_table ⟨n, h⟩
  unfold flipI
  simp only [Int.toNat_natCast]
  by_cases h0 : n &&& 127 = 0
  · simp [h0, t.2 h0]
  · simp [h0, (t.1 h0).1]

theorem flip_msb_eq (bs : Bytes) (hbs : Bytes.ok bs) :
    Src.Enc.flip_msb (ofBytesE bs) = .ok (ofBytesE (Enc.flipMsb bs)) := by
  unfold Src.Enc.flip_msb Py.forRange Enc.flipMsb
  have hlen : (Py.len (ofBytesE bs)).toNat = (ofBytesE bs).length := by simp [Py.len]
  rw [hlen]
  have hmap : ofBytesE (List.map Enc.flipB bs) = (ofBytesE bs).map flipI := by
    simp only [ofBytesE, List.map_map]
    apply List.map_congr_left
    intro n hn
    exact (flipI_eq n (hbs n hn)).symm
  rw [hmap]
  refine map_main (fun c => 0 ≤ c ∧ c < 256) flipI _ ?_ (ofBytesE bs) ?_
  · intro done c rest hc
    have h0 : (0 : Int) ≤ done.length ∧ (done.length : Int) < (done.length : Int) + ((rest.length : Int) + 1) := by omega
    have hneg : ¬ ((done.length : Int) < 0) := by omega
    have hget : ∀ (k : Int → Py.M (List Int)), Py.getItem (done ++ c :: rest) (done.length : Int) k = k c := by
      intro k
      simp [Py.getItem, Py.normIndex, Py.len, hneg, h0]
    have hset : ∀ (v : Int) (k : List Int → Py.M (List Int)), 0 ≤ v ∧ v < 256 →
        Py.setItem (done ++ c :: rest) (done.length : Int) v k = k (done ++ v :: rest) := by
      intro v k hv
      simp [Py.setItem, Py.normIndex, Py.len, hneg, h0, hv]
    have t := flip_table ⟨c.toNat, by omega⟩
    simp only [Src.Enc.flip_msb_loop1_body, hget, Py.bitAnd, Py.bitXor, hc.1, and_self, if_true, show (0 : Int) ≤ 127 by omega, show (0 : Int) ≤ 128 by omega]
    unfold flipI
    by_cases hz : c.toNat &&& 127 = 0
    · simp [hz]
    · have hx : c.toNat ^^^ 128 < 256 := (t.1 hz).2
      have hx' : (0 : Int) ≤ ((c.toNat ^^^ 128 : Nat) : Int) ∧ ((c.toNat ^^^ 128 : Nat) : Int) < 256 := by omega
      have : (Int.toNat 127) = 127 := rfl
      have h128 : (Int.toNat 128) = 128 := rfl
      simp only [this, h128] at hz ⊢
      simp [hz]
      rw [hset _ _ hx']
      rfl
  · intro c hc
    simp only [ofBytesE, List.mem_map] at hc
    obtain ⟨n, hn, rfl⟩ := hc
    have := hbs n hn
    simp; omega

/-! ### copy loops: `while c(i): buffer[w] = data[r]; i += di; ii += 1`

  Both loops of `interleave` and of `deinterleave` have this shape.  `wT t`, `rT t` are the write and read index of
  iteration `t`; the buffer after the iterations `ts` is a fold of `List.set`. -/

def wstep (d : List Int) (wT rT : Nat → Int) (B : List Int) (t : Nat) : List Int :=
  B.set (wT t).toNat (d.getD (rT t).toNat 0)

theorem wfold_length (d : List Int) (wT rT : Nat → Int) (ts : List Nat) : ∀ B : List Int,
    (ts.foldl (wstep d wT rT) B).length = B.length := by
  induction ts with
  | nil => intro B; rfl
  | cons t ts ih => intro B; simp [List.foldl_cons, ih, wstep]

theorem wfold_unchanged (d : List Int) (wT rT : Nat → Int) (p : Nat) (ts : List Nat) : ∀ B : List Int,
    (∀ t ∈ ts, (wT t).toNat ≠ p) → (ts.foldl (wstep d wT rT) B).getD p 0 = B.getD p 0 := by
  induction ts with
  | nil => intro B _; rfl
  | cons t ts ih =>
    intro B h
    rw [List.foldl_cons, ih _ (fun s hs => h s (by simp [hs]))]
    have := h t (by simp)
    simp [wstep, List.getD_eq_getElem?_getD, List.getElem?_set_ne this]

theorem wfold_written (d : List Int) (wT rT : Nat → Int) (t : Nat) : ∀ (m k : Nat) (B : List Int),
    k ≤ t → t < k + m → (wT t).toNat < B.length →
    (∀ s, t < s → s < k + m → (wT s).toNat ≠ (wT t).toNat) →
    ((List.range' k m).foldl (wstep d wT rT) B).getD (wT t).toNat 0 = d.getD (rT t).toNat 0 := by
  intro m
  induction m with
  | zero => intro k B h1 h2; omega
  | succ m ih =>
    intro k B hk ht hin hinj
    rw [List.range'_succ, List.foldl_cons]
    by_cases hkt : k = t
    · subst hkt
      rw [wfold_unchanged]
      · simp [wstep, List.getD_eq_getElem?_getD, List.getElem?_set_self hin]
      · intro s hs
        rw [List.mem_range'_1] at hs
        exact hinj s (by omega) (by omega)
    · apply ih (k + 1) _ (by omega) (by omega)
      · simpa [wstep] using hin
      · intro s h1 h2; exact hinj s h1 (by omega)

/-- the loop runs exactly the iterations `k, …, T-1` and stops -/
theorem copy_loop (d : List Int) (n : Nat) (cond : (List Int × Int × Int) → Bool)
    (body : (List Int × Int × Int) → Py.M (List Int × Int × Int)) (iT iiT wT rT : Nat → Int) (T : Nat)
    (hcT : ∀ t, t < T → ∀ B, cond (B, iT t, iiT t) = true)
    (hcF : ∀ B, cond (B, iT T, iiT T) = false)
    (hbody : ∀ t, t < T → ∀ B : List Int, B.length = n →
      body (B, iT t, iiT t) = .ok (wstep d wT rT B t, iT (t + 1), iiT (t + 1))) :
    ∀ (m k : Nat), k + m = T → ∀ B : List Int, B.length = n → ∀ fuel, m ≤ fuel →
      Py.whileLoop cond body fuel (B, iT k, iiT k) = .ok ((List.range' k m).foldl (wstep d wT rT) B, iT T, iiT T) := by
  intro m
  induction m with
  | zero =>
    intro k hk B _ fuel _
    have : k = T := by omega
    subst this
    rw [Py.whileLoop_done _ _ _ _ (hcF B)]; rfl
  | succ m ih =>
    intro k hk B hB fuel hf
    obtain ⟨f, rfl⟩ : ∃ f, fuel = f + 1 := ⟨fuel - 1, by omega⟩
    rw [Py.whileLoop_step _ _ _ _ _ (hcT k (by omega) B) (hbody k (by omega) B hB)]
    rw [ih (k + 1) (by omega) _ (by simp [wstep, hB]) f (by omega), List.range'_succ, List.foldl_cons]

theorem ext_getD (l1 l2 : List Int) (hl : l1.length = l2.length)
    (h : ∀ j, j < l1.length → l1.getD j 0 = l2.getD j 0) : l1 = l2 := by
  apply List.ext_getElem hl
  intro j h1 h2
  have := h j h1
  simpa [List.getD_eq_getElem?_getD, List.getElem?_eq_getElem h1, List.getElem?_eq_getElem h2] using this

theorem getD_ofBytesE (bs : Bytes) (p : Nat) : (ofBytesE bs).getD p 0 = ((bs.getD p 0 : Nat) : Int) := by
  unfold ofBytesE
  by_cases h : p < bs.length
  · simp [List.getD_eq_getElem?_getD, List.getElem?_eq_getElem h, List.getElem?_map]
  · simp [List.getD_eq_getElem?_getD, List.getElem?_eq_none (Nat.le_of_not_lt h), List.getElem?_map]

theorem getD_range (bs : Bytes) (hbs : Bytes.ok bs) (p : Nat) : bs.getD p 0 < 256 := by
  by_cases h : p < bs.length
  · simp only [List.getD_eq_getElem?_getD, List.getElem?_eq_getElem h, Option.getD_some]
    exact hbs _ (List.getElem_mem h)
  · simp [List.getD_eq_getElem?_getD, List.getElem?_eq_none (Nat.le_of_not_lt h)]


/-! ### interleave -/

theorem getD_permute (idx : Nat → Nat → Nat) (bs : Bytes) (j : Nat) (h : j < bs.length) :
    (Enc.permute idx bs).getD j 0 = bs.getD (idx bs.length j) 0 := by
  simp [Enc.permute, List.getD_eq_getElem?_getD, List.getElem?_map, List.getElem?_range h]

theorem length_permute (idx : Nat → Nat → Nat) (bs : Bytes) : (Enc.permute idx bs).length = bs.length := by
  simp [Enc.permute]

theorem interleave_eq (bs : Bytes) (hbs : Bytes.ok bs) :
    Src.Enc.interleave (ofBytesE bs) = .ok (ofBytesE (Enc.interleave bs)) := by
  have hlen : Py.len (ofBytesE bs) = (bs.length : Int) := Py.len_map_ofNat bs
  have hl' : (ofBytesE bs).length = bs.length := by simp [ofBytesE]
  -- where the second loop starts: the last odd position
  obtain ⟨i0, hi0⟩ : ∃ i0 : Int, (bs.length % 2 = 0 ∧ i0 = (bs.length : Int) - 1) ∨ (bs.length % 2 = 1 ∧ i0 = (bs.length : Int) - 2) := by
    rcases Nat.mod_two_eq_zero_or_one bs.length with h | h
    · exact ⟨(bs.length : Int) - 1, Or.inl ⟨h, rfl⟩⟩
    · exact ⟨(bs.length : Int) - 2, Or.inr ⟨h, rfl⟩⟩
  -- the two loops, as instances of `copy_loop`
  have L1 := copy_loop (ofBytesE bs) bs.length (Src.Enc.interleave_loop1_cond (ofBytesE bs))
    (Src.Enc.interleave_loop1_body (ofBytesE bs)) (fun t => 2 * (t : Int)) (fun t => (t : Int)) (fun t => 2 * (t : Int))
    (fun t => (t : Int)) ((bs.length + 1) / 2)
    (by intro t ht B; simp [Src.Enc.interleave_loop1_cond, hlen]; omega)
    (by intro B; simp [Src.Enc.interleave_loop1_cond, hlen]; omega)
    (by
      intro t ht B hB
      have hv := getD_range bs hbs t
      simp only [Src.Enc.interleave_loop1_body]
      rw [Py.getItem_ok _ _ _ (by rw [hl']; omega)]
      simp only [getD_ofBytesE, Int.toNat_natCast]
      rw [Py.setItem_ok _ _ _ _ (by rw [hB]; omega) (by omega)]
      simp only [wstep, getD_ofBytesE, Int.toNat_natCast]
      congr 2 <;> omega)
  have L2 := copy_loop (ofBytesE bs) bs.length (Src.Enc.interleave_loop2_cond (ofBytesE bs))
    (Src.Enc.interleave_loop2_body (ofBytesE bs)) (fun t => i0 - 2 * (t : Int))
    (fun t => (((bs.length + 1) / 2 : Nat) : Int) + (t : Int)) (fun t => i0 - 2 * (t : Int))
    (fun t => (((bs.length + 1) / 2 : Nat) : Int) + (t : Int)) (bs.length / 2)
    (by intro t ht B; simp [Src.Enc.interleave_loop2_cond]; omega)
    (by intro B; simp [Src.Enc.interleave_loop2_cond]; omega)
    (by
      intro t ht B hB
      have hv := getD_range bs hbs ((bs.length + 1) / 2 + t)
      simp only [Src.Enc.interleave_loop2_body]
      rw [Py.getItem_ok _ _ _ (by rw [hl']; omega)]
      have e : ((((bs.length + 1) / 2 : Nat) : Int) + (t : Int)).toNat = (bs.length + 1) / 2 + t := by omega
      simp only [getD_ofBytesE, e]
      rw [Py.setItem_ok _ _ _ _ (by rw [hB]; omega) (by omega)]
      simp only [wstep, getD_ofBytesE, e]
      have e3 : i0 - 2 * (t : Int) - 2 = i0 - 2 * ((t + 1 : Nat) : Int) := by omega
      have e4 : (((bs.length + 1) / 2 : Nat) : Int) + (t : Int) + 1 = (((bs.length + 1) / 2 : Nat) : Int) + ((t + 1 : Nat) : Int) := by omega
      rw [e3, e4])
  have L1' := L1 ((bs.length + 1) / 2) 0 (by omega) (List.replicate bs.length 0) (by simp) (bs.length + 2) (by omega)
  simp only [Int.natCast_zero, Int.mul_zero] at L1'
  unfold Src.Enc.interleave
  simp only [hlen, Py.zeros_ok, hl', L1', Py.bind_ok]
  generalize hB1 : List.foldl (wstep (ofBytesE bs) (fun t => 2 * (t : Int)) (fun t => (t : Int))) (List.replicate bs.length 0)
    (List.range' 0 ((bs.length + 1) / 2)) = B1 at *
  have hB1len : B1.length = bs.length := by rw [← hB1, wfold_length]; simp
  have hstart : (if decide (Int.fmod (bs.length : Int) 2 ≠ 0) = true then 2 * (((bs.length + 1) / 2 : Nat) : Int) - 1 - 2
      else 2 * (((bs.length + 1) / 2 : Nat) : Int) - 1) = i0 - 2 * ((0 : Nat) : Int) := by
    rw [Int.fmod_eq_emod_of_nonneg _ (by omega)]
    by_cases h : (bs.length : Int) % 2 = 0
    · have hd : decide ((bs.length : Int) % 2 ≠ 0) = false := by simp [h]
      rw [hd]; simp only [Bool.false_eq_true, if_false]; omega
    · have hd : decide ((bs.length : Int) % 2 ≠ 0) = true := by simp [h]
      rw [hd]; simp only [if_true]; omega
  have L2' := L2 (bs.length / 2) 0 (by omega) B1 hB1len (bs.length + 2) (by omega)
  simp only [hstart]
  have hst2 : ((((bs.length + 1) / 2 : Nat) : Int)) = (((bs.length + 1) / 2 : Nat) : Int) + ((0 : Nat) : Int) := by simp
  rw [hst2, L2']
  simp only [Py.bind_ok]
  congr 1
  -- pointwise comparison with the permutation model
  apply ext_getD
  · rw [wfold_length, hB1len]; simp [ofBytesE, Enc.interleave, length_permute]
  · intro j hj
    rw [wfold_length, hB1len] at hj
    rw [getD_ofBytesE, Enc.interleave, getD_permute _ _ _ hj]
    by_cases hpar : j % 2 = 0
    · -- even position: written by the first loop, untouched by the second
      rw [wfold_unchanged _ _ _ j _ _ (by
        intro t ht; rw [List.mem_range'_1] at ht; omega)]
      have h := wfold_written (ofBytesE bs) (fun t => 2 * (t : Int)) (fun t => (t : Int)) (j / 2) ((bs.length + 1) / 2) 0
        (List.replicate bs.length 0) (by omega) (by omega) (by simp; omega) (by intro s h1 h2; omega)
      have e : (2 * ((j / 2 : Nat) : Int)).toNat = j := by omega
      simp only [e, hB1, Int.toNat_natCast, getD_ofBytesE] at h
      rw [h]
      simp [Enc.ilvIdx, hpar]
    · -- odd position: written by the second loop
      have hodd : j % 2 = 1 := by omega
      have hT : (i0.toNat - j) / 2 < bs.length / 2 := by omega
      have h := wfold_written (ofBytesE bs) (fun t => i0 - 2 * (t : Int))
        (fun t => (((bs.length + 1) / 2 : Nat) : Int) + (t : Int)) ((i0.toNat - j) / 2) (bs.length / 2) 0 B1
        (by omega) (by omega) (by rw [hB1len]; omega) (by intro s h1 h2; omega)
      have e : (i0 - 2 * (((i0.toNat - j) / 2 : Nat) : Int)).toNat = j := by omega
      have e2 : ((((bs.length + 1) / 2 : Nat) : Int) + (((i0.toNat - j) / 2 : Nat) : Int)).toNat
          = bs.length - 1 - (j - 1) / 2 := by omega
      simp only [e, e2, getD_ofBytesE] at h
      rw [h]
      simp [Enc.ilvIdx, hpar]

/-! ### deinterleave -/

theorem deinterleave_eq (bs : Bytes) (hbs : Bytes.ok bs) :
    Src.Enc.deinterleave (ofBytesE bs) = .ok (ofBytesE (Enc.deinterleave bs)) := by
  have hlen : Py.len (ofBytesE bs) = (bs.length : Int) := Py.len_map_ofNat bs
  have hl' : (ofBytesE bs).length = bs.length := by simp [ofBytesE]
  obtain ⟨i0, hi0⟩ : ∃ i0 : Int, (bs.length % 2 = 0 ∧ i0 = (bs.length : Int) - 1) ∨ (bs.length % 2 = 1 ∧ i0 = (bs.length : Int) - 2) := by
    rcases Nat.mod_two_eq_zero_or_one bs.length with h | h
    · exact ⟨(bs.length : Int) - 1, Or.inl ⟨h, rfl⟩⟩
    · exact ⟨(bs.length : Int) - 2, Or.inr ⟨h, rfl⟩⟩
  have L1 := copy_loop (ofBytesE bs) bs.length (Src.Enc.deinterleave_loop1_cond (ofBytesE bs))
    (Src.Enc.deinterleave_loop1_body (ofBytesE bs)) (fun t => 2 * (t : Int)) (fun t => (t : Int)) (fun t => (t : Int))
    (fun t => 2 * (t : Int)) ((bs.length + 1) / 2)
    (by intro t ht B; simp [Src.Enc.deinterleave_loop1_cond, hlen]; omega)
    (by intro B; simp [Src.Enc.deinterleave_loop1_cond, hlen]; omega)
    (by
      intro t ht B hB
      have hv := getD_range bs hbs (2 * t)
      simp only [Src.Enc.deinterleave_loop1_body]
      rw [Py.getItem_ok _ _ _ (by rw [hl']; omega)]
      have e : (2 * (t : Int)).toNat = 2 * t := by omega
      simp only [getD_ofBytesE, e]
      rw [Py.setItem_ok _ _ _ _ (by rw [hB]; omega) (by omega)]
      simp only [wstep, getD_ofBytesE, e, Int.toNat_natCast]
      have e3 : 2 * (t : Int) + 2 = 2 * ((t + 1 : Nat) : Int) := by omega
      have e4 : (t : Int) + 1 = ((t + 1 : Nat) : Int) := by omega
      rw [e3, e4])
  have L2 := copy_loop (ofBytesE bs) bs.length (Src.Enc.deinterleave_loop2_cond (ofBytesE bs))
    (Src.Enc.deinterleave_loop2_body (ofBytesE bs)) (fun t => i0 - 2 * (t : Int))
    (fun t => (((bs.length + 1) / 2 : Nat) : Int) + (t : Int))
    (fun t => (((bs.length + 1) / 2 : Nat) : Int) + (t : Int)) (fun t => i0 - 2 * (t : Int)) (bs.length / 2)
    (by intro t ht B; simp [Src.Enc.deinterleave_loop2_cond]; omega)
    (by intro B; simp [Src.Enc.deinterleave_loop2_cond]; omega)
    (by
      intro t ht B hB
      have hv := getD_range bs hbs (i0 - 2 * (t : Int)).toNat
      simp only [Src.Enc.deinterleave_loop2_body]
      rw [Py.getItem_ok _ _ _ (by rw [hl']; omega)]
      simp only [getD_ofBytesE]
      rw [Py.setItem_ok _ _ _ _ (by rw [hB]; omega) (by omega)]
      simp only [wstep, getD_ofBytesE]
      have e3 : i0 - 2 * (t : Int) - 2 = i0 - 2 * ((t + 1 : Nat) : Int) := by omega
      have e4 : (((bs.length + 1) / 2 : Nat) : Int) + (t : Int) + 1 = (((bs.length + 1) / 2 : Nat) : Int) + ((t + 1 : Nat) : Int) := by omega
      rw [e3, e4])
  have L1' := L1 ((bs.length + 1) / 2) 0 (by omega) (List.replicate bs.length 0) (by simp) (bs.length + 2) (by omega)
  simp only [Int.natCast_zero, Int.mul_zero] at L1'
  unfold Src.Enc.deinterleave
  simp only [hlen, Py.zeros_ok, hl', L1', Py.bind_ok]
  generalize hB1 : List.foldl (wstep (ofBytesE bs) (fun t => (t : Int)) (fun t => 2 * (t : Int))) (List.replicate bs.length 0)
    (List.range' 0 ((bs.length + 1) / 2)) = B1 at *
  have hB1len : B1.length = bs.length := by rw [← hB1, wfold_length]; simp
  have hstart : (if decide (Int.fmod (bs.length : Int) 2 ≠ 0) = true then 2 * (((bs.length + 1) / 2 : Nat) : Int) - 1 - 2
      else 2 * (((bs.length + 1) / 2 : Nat) : Int) - 1) = i0 - 2 * ((0 : Nat) : Int) := by
    rw [Int.fmod_eq_emod_of_nonneg _ (by omega)]
    by_cases h : (bs.length : Int) % 2 = 0
    · have hd : decide ((bs.length : Int) % 2 ≠ 0) = false := by simp [h]
      rw [hd]; simp only [Bool.false_eq_true, if_false]; omega
    · have hd : decide ((bs.length : Int) % 2 ≠ 0) = true := by simp [h]
      rw [hd]; simp only [if_true]; omega
  have L2' := L2 (bs.length / 2) 0 (by omega) B1 hB1len (bs.length + 2) (by omega)
  simp only [hstart]
  have hst2 : ((((bs.length + 1) / 2 : Nat) : Int)) = (((bs.length + 1) / 2 : Nat) : Int) + ((0 : Nat) : Int) := by simp
  rw [hst2, L2']
  simp only [Py.bind_ok]
  congr 1
  apply ext_getD
  · rw [wfold_length, hB1len]; simp [ofBytesE, Enc.deinterleave, length_permute]
  · intro k hk
    rw [wfold_length, hB1len] at hk
    rw [getD_ofBytesE, Enc.deinterleave, getD_permute _ _ _ hk]
    by_cases hlow : k < (bs.length + 1) / 2
    · -- first half: written by the first loop, untouched by the second
      rw [wfold_unchanged _ _ _ k _ _ (by
        intro t ht; rw [List.mem_range'_1] at ht; omega)]
      have h := wfold_written (ofBytesE bs) (fun t => (t : Int)) (fun t => 2 * (t : Int)) k ((bs.length + 1) / 2) 0
        (List.replicate bs.length 0) (by omega) (by omega) (by simp; omega) (by intro s h1 h2; omega)
      have e : (2 * (k : Int)).toNat = 2 * k := by omega
      simp only [e, hB1, Int.toNat_natCast, getD_ofBytesE] at h
      rw [h]
      simp [Enc.dlvIdx, hlow]
    · -- second half: written by the second loop
      have h := wfold_written (ofBytesE bs) (fun t => (((bs.length + 1) / 2 : Nat) : Int) + (t : Int))
        (fun t => i0 - 2 * (t : Int)) (k - (bs.length + 1) / 2) (bs.length / 2) 0 B1
        (by omega) (by omega) (by rw [hB1len]; omega) (by intro s h1 h2; omega)
      have e : ((((bs.length + 1) / 2 : Nat) : Int) + ((k - (bs.length + 1) / 2 : Nat) : Int)).toNat = k := by omega
      have e2 : (i0 - 2 * ((k - (bs.length + 1) / 2 : Nat) : Int)).toNat = 2 * (bs.length - 1 - k) + 1 := by omega
      simp only [e, e2, getD_ofBytesE] at h
      rw [h]
      simp [Enc.dlvIdx, hlow]

end EoVerif.SrcTie
