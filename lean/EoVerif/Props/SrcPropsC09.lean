import EoVerif.Props.SrcWriter
import EoVerif.Props.C09
/-!
  # C09, stated about the translated source

  `Props/Cxx.lean` proves each property of the hand-written model; `Props/Src*.lean` proves that the source, as
  translated from the working tree on this run, *is* that model.  This file composes the two: the statements below
  are the properties of C07, C08, C09, C10 and C11 **with the translated Python functions as their subject**
  (`Src.Num.encode_number`, `Src.Str.encode_string`, `Src.Writer.EoWriter.add_char`, `Src.Enc.interleave`,
  `Src.Hash.server_verification_hash`, …).  Nothing hand-written stands between these theorems and the code except the
  translator and the Python semantics of `Model/PyOps.lean`.
-/
namespace EoVerif.SrcProps
open EoVerif SrcTie

/-! ### C09 — the writer of the source validates atomically -/

/-- every public write method of the translated `EoWriter`, as a function of the model operation it implements -/
def srcWrite (w : Writer) : Writer.Op → Py.M (List Int)
  | .addByte v => Src.Writer.EoWriter.add_byte (ofBytes w.data) w.san v
  | .addBytes bs => Src.Writer.EoWriter.add_bytes (ofBytes w.data) w.san (ofBytes bs)
  | .addChar n => Src.Writer.EoWriter.add_char (ofBytes w.data) w.san n
  | .addShort n => Src.Writer.EoWriter.add_short (ofBytes w.data) w.san n
  | .addThree n => Src.Writer.EoWriter.add_three (ofBytes w.data) w.san n
  | .addInt n => Src.Writer.EoWriter.add_int (ofBytes w.data) w.san n
  | .addString s => Src.Writer.EoWriter.add_string (ofBytes w.data) w.san s
  | .addFixedString s l p => Src.Writer.EoWriter.add_fixed_string (ofBytes w.data) w.san s l p
  | .addEncodedString s => Src.Writer.EoWriter.add_encoded_string (ofBytes w.data) w.san s
  | .addFixedEncodedString s l p => Src.Writer.EoWriter.add_fixed_encoded_string (ofBytes w.data) w.san s l p
  | .setSan _ => .ok (ofBytes w.data)

theorem srcWrite_eq (w : Writer) (op : Writer.Op) : srcWrite w op = wview (w.step op) := by
  cases op with
  | addByte v => exact add_byte_eq w v
  | addBytes bs => exact add_bytes_eq w bs
  | addChar n => exact add_char_eq w n
  | addShort n => exact add_short_eq w n
  | addThree n => exact add_three_eq w n
  | addInt n => exact add_int_eq w n
  | addString s => exact add_string_eq w s
  | addFixedString s l p => exact add_fixed_string_eq w s l p
  | addEncodedString s => exact add_encoded_string_eq w s
  | addFixedEncodedString s l p => exact add_fixed_encoded_string_eq w s l p
  | setSan b => simp [srcWrite, wview, Writer.step]

/-- a write of the translated writer either raises `ValueError` (and hands back no new buffer: the data is untouched)
    or appends exactly the declared number of bytes to the data it was given -/
theorem src_write_atomic_or_declared (w : Writer) (op : Writer.Op) :
    srcWrite w op = .error .ValueError ∨
      ∃ bs : Bytes, srcWrite w op = .ok (ofBytes (w.data ++ bs)) ∧ bs.length = Writer.declared op := by
  rw [srcWrite_eq]
  unfold wview
  cases h : (w.step op).2 with
  | error e =>
    left
    have := Writer.only_value_error w op e h
    simp [this]
  | ok u =>
    right
    obtain ⟨bs, hbs, hl⟩ := Writer.appends_declared w op h
    exact ⟨bs, by simp [hbs], hl⟩

end EoVerif.SrcProps
