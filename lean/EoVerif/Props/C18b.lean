import EoVerif.Model.GenCompile
import EoVerif.Lemmas.GenPerm
/-!
# C18b — generation does not depend on the order in which the protocol files are enumerated

The generator finds its input with `os.walk`, whose directory order is that of the file system.  The model
`compile` takes the files as a *list*; this file proves that the list order is immaterial:

* the index (`indexFiles`) of a permuted forest is a permutation of the index, with the same pairwise distinct
  names, so every lookup by name gives the same definition;
* type resolution (`getType` and the three `create*` functions) consults the index only through such lookups
  and through the *number* of definitions (the recursion bound), so the two type environments are the same
  function (`typeEnv_order_independent`);
* hence every single file emits exactly the same classes, enums and modules (`compile_perm_filewise`), and the
  whole output is the same up to the enumeration order (`compile_perm`); a forest is rejected in one order iff it
  is rejected in every order (`compile_perm_rejects`).

No position dependence was found in the model: nothing depends on *where* in the index a definition sits.  What
does depend on the order is *which* error is reported when a forest has several defects (the first one met):
see the last example.
-/
namespace EoVerif.Gen
open EoVerif.Gen.Perm EoVerif.Gen.Decls

/-- The type environments built from two enumerations of the same files are the same function. -/
theorem typeEnv_order_independent (files files' : List ProtoFile) (hp : files.Perm files') (defs defs' : Defs)
    (h : indexFiles files [] = .ok defs) (h' : indexFiles files' [] = .ok defs') :
    defs'.Perm defs ∧ getType defs (4 * defs.length + 16) = getType defs' (4 * defs'.length + 16) := by
  obtain ⟨_, hnd, rfl⟩ := (indexFiles_ok_iff files defs).1 h
  obtain ⟨_, _, rfl⟩ := (indexFiles_ok_iff files' defs').1 h'
  exact ⟨(allEntries_perm hp).symm, envOf_perm (allEntries_perm hp) hnd⟩

/-- Acceptance by the indexing pass does not depend on the enumeration order. -/
theorem indexFiles_perm (files files' : List ProtoFile) (hp : files.Perm files') (defs : Defs)
    (h : indexFiles files [] = .ok defs) : ∃ defs', indexFiles files' [] = .ok defs' ∧ defs'.Perm defs := by
  obtain ⟨h1, hnd, rfl⟩ := (indexFiles_ok_iff files defs).1 h
  refine ⟨allEntries files', (indexFiles_ok_iff files' _).2 ⟨?_, ?_, rfl⟩, (allEntries_perm hp).symm⟩
  · intro f hf; exact h1 f (hp.mem_iff.2 hf)
  · exact (((allEntries_perm hp).map (·.1)).nodup_iff).1 hnd

/-- **Order independence, file by file.**  There is one type environment `tf` and one result `gen f` per
    file such that, whatever the enumeration order, the generator emits `gen f` for the file `f` and the output
    is the concatenation of these results in enumeration order. -/
theorem compile_perm_filewise (files files' : List ProtoFile) (hp : files.Perm files') (out : GenOutput)
    (h : compile files = .ok out) :
    ∃ (tf : TypeEnv) (gen : ProtoFile → GenOutput),
      (∀ f ∈ files, genFile tf f = .ok (gen f)) ∧
      out = { classes := (files.map (fun f => (gen f).classes)).flatten,
              enums := (files.map (fun f => (gen f).enums)).flatten,
              files := (files.map (fun f => (gen f).files)).flatten } ∧
      compile files' = .ok { classes := (files'.map (fun f => (gen f).classes)).flatten,
                             enums := (files'.map (fun f => (gen f).enums)).flatten,
                             files := (files'.map (fun f => (gen f).files)).flatten } := by
  obtain ⟨h1, h2, h3, rfl⟩ := (compile_ok_iff files out).1 h
  have htf := Perm.typeEnv_perm hp h2
  refine ⟨typeEnv files, fileOut (typeEnv files), ?_, ?_, ?_⟩
  · intro f hf
    obtain ⟨o, ho⟩ := h3 f hf
    simp [fileOut, okD, ho]
  · simp [assemble, List.map_map, Function.comp_def]
  · have : compile files' = .ok (assemble (files'.map (fileOut (typeEnv files')))) := by
      apply (compile_ok_iff files' _).2
      refine ⟨?_, ?_, ?_, rfl⟩
      · intro f hf; exact h1 f (hp.mem_iff.2 hf)
      · exact (((allEntries_perm hp).map (·.1)).nodup_iff).1 h2
      · intro f hf; rw [← htf]; exact h3 f (hp.mem_iff.2 hf)
    rw [this, ← htf]
    simp [assemble, List.map_map, Function.comp_def]

/-- **Order independence.**  Enumerating the same protocol files in another order changes neither whether the
    generator accepts them nor what it emits: the emitted files, classes and enums are the same up to that order. -/
theorem compile_perm (files files' : List ProtoFile) (hp : files.Perm files') (out : GenOutput)
    (h : compile files = .ok out) :
    ∃ out', compile files' = .ok out' ∧ out'.files.Perm out.files ∧ out'.classes.Perm out.classes ∧
      out'.enums.Perm out.enums := by
  obtain ⟨tf, gen, _, rfl, h'⟩ := compile_perm_filewise files files' hp out h
  exact ⟨_, h', ((hp.symm.map _).flatten), ((hp.symm.map _).flatten), ((hp.symm.map _).flatten)⟩

/-- A forest rejected in one enumeration order is rejected in every order (the *message* may differ: the
    generator reports the first defect it meets). -/
theorem compile_perm_rejects (files files' : List ProtoFile) (hp : files.Perm files')
    (h : ∃ m, compile files = .error m) : ∃ m', compile files' = .error m' := by
  cases h' : compile files' with
  | error m' => exact ⟨m', rfl⟩
  | ok out' =>
    obtain ⟨out, ho, _⟩ := compile_perm files' files hp.symm out' h'
    obtain ⟨m, hm⟩ := h
    rw [hm] at ho; cases ho

/-! Non-vacuity (tests, labelled as such): a struct in one directory uses an enum declared in another one;
    the generator accepts the forest in both enumeration orders. -/
namespace PermExample

private def el (tag : String) (attrs : List (String × String)) (children : List Xml := [])
    (text : Option String := none) : Xml := .mk tag attrs text none children

def fileA : ProtoFile :=
  ⟨"a", el "protocol" []
    [el "enum" [("name", "Dir"), ("type", "char")]
      [el "value" [("name", "Down")] [] (some "0"), el "value" [("name", "Up")] [] (some "1")]]⟩

def fileB : ProtoFile :=
  ⟨"b/c", el "protocol" []
    [el "struct" [("name", "Step")]
      [el "field" [("name", "dir"), ("type", "Dir")],
       el "field" [("name", "n"), ("type", "char")]]]⟩

def accepted (fs : List ProtoFile) : Bool := match compile fs with | .ok _ => true | .error _ => false
def message (fs : List ProtoFile) : String := match compile fs with | .ok _ => "" | .error m => m

example : accepted [fileA, fileB] = true := by decide +kernel
example : accepted [fileB, fileA] = true := by decide +kernel
/-- the struct alone is rejected (its field type is declared in the other file): the index really is shared -/
example : accepted [fileB] = false := by decide +kernel

/-- the theorem applied to the example -/
example : ∃ out out', compile [fileA, fileB] = .ok out ∧ compile [fileB, fileA] = .ok out' ∧
    out'.files.Perm out.files ∧ out'.classes.Perm out.classes ∧ out'.enums.Perm out.enums := by
  cases h : compile [fileA, fileB] with
  | error m =>
    have : accepted [fileA, fileB] = true := by decide +kernel
    simp [accepted, h] at this
  | ok out =>
    obtain ⟨out', h', p⟩ := compile_perm _ [fileB, fileA] (List.Perm.swap ..) out h
    exact ⟨out, out', rfl, h', p⟩

/-- two defective files: a root that is not `<protocol>`, and a name declared twice -/
def badRoot : ProtoFile := ⟨"x", el "protocols" []⟩
def twice : ProtoFile := ⟨"y", el "protocol" [] [el "struct" [("name", "S")], el "struct" [("name", "S")]]⟩

/-- Both orders are rejected, but *which* defect is reported depends on the order: this is why
    `compile_perm_rejects` cannot promise the same message. -/
example : message [badRoot, twice] = "expected a root <protocol> element" ∧
    message [twice, badRoot] = "S type cannot be redefined" := by decide +kernel

end PermExample

end EoVerif.Gen
