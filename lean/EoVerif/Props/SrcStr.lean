import EoVerif.Generated.SrcStr
import EoVerif.Model.Str
import EoVerif.Lemmas.PyLoops
/-!
  # Source tie for `eolib/data/string_encoding_utils.py` (C08)

  The translated `_invert_characters`, `encode_string`, `decode_string` (regenerated from the working tree on every
  run, in-place mutation rendered as a returned list) are the hand-written model `EoVerif.Str` for **every** byte
  string — proved by a loop invariant over the translated `for i in range(len(bytes))`: after `k` iterations the first
  `k` bytes are inverted with alternating `flippy`, the rest is untouched, and no store ever leaves `range(256)`.
-/
namespace EoVerif.SrcTie
open EoVerif


/-- one loop iteration on an `Int` byte -/
def invI (fl : Bool) (c : Int) : Int :=
  if 0x22 ≤ c ∧ c ≤ 0x7E then 0x9F - c - (if fl then (if c ≥ 0x50 then -0x2E else 0x2E) else 0) else c

theorem invI_eq (fl : Bool) (c : Nat) : invI fl (c : Int) = ((Str.invByte fl c : Nat) : Int) := by
  unfold invI Str.invByte
  by_cases h : 0x22 ≤ c ∧ c ≤ 0x7E
  · have h' : (0x22 : Int) ≤ c ∧ (c : Int) ≤ 0x7E := by omega
    simp only [h, h', and_self, if_true]
    cases fl <;> by_cases h5 : c ≥ 0x50 <;> simp [h5] <;> omega
  · have h' : ¬ ((0x22 : Int) ≤ c ∧ (c : Int) ≤ 0x7E) := by omega
    simp [h, h']

theorem invI_range (fl : Bool) (c : Int) (h : 0x22 ≤ c ∧ c ≤ 0x7E) : 0 ≤ invI fl c ∧ invI fl c < 256 := by
  unfold invI
  simp only [h, and_self, if_true]
  cases fl <;> by_cases h5 : c ≥ 0x50 <;> simp [h5] <;> omega

/-- the loop of `_invert_characters`, for any body that does what one iteration does -/
theorem invert_loop (body : Int → (List Int × Bool) → Py.M ((List Int × Bool) × Bool))
    (hbody : ∀ (done : List Int) (c : Int) (rest : List Int) (fl : Bool),
      body (done.length : Int) (done ++ c :: rest, fl) = .ok ((done ++ invI fl c :: rest, !fl), false))
    (suf : Bytes) : ∀ (done : List Int) (fl : Bool),
      ∃ fl', Py.forRangeGo body suf.length (done.length : Int) (done ++ ofBytes suf, fl)
        = .ok (done ++ ofBytes (Str.invertAux fl suf), fl') := by
  induction suf with
  | nil => intro done fl; exact ⟨fl, rfl⟩
  | cons c cs ih =>
    intro done fl
    have hb := hbody done (c : Int) (ofBytes cs) fl
    obtain ⟨fl', h⟩ := ih (done ++ [invI fl c]) (!fl)
    refine ⟨fl', ?_⟩
    have hlen : ((done ++ [invI fl (c : Int)]).length : Int) = (done.length : Int) + 1 := by simp
    simp only [ofBytes, List.map_cons, Int.ofNat_eq_natCast, List.length_cons] at hb ⊢
    rw [Py.forRangeGo_step _ _ _ _ _ hb]
    simp only [ofBytes, hlen, List.append_assoc, List.singleton_append] at h
    rw [h]
    simp [Str.invertAux, invI_eq]

/-- the whole function, for any loop body that does what one iteration does -/
theorem invert_main (body : Int → (List Int × Bool) → Py.M ((List Int × Bool) × Bool))
    (hbody : ∀ (done : List Int) (c : Int) (rest : List Int) (fl : Bool),
      body (done.length : Int) (done ++ c :: rest, fl) = .ok ((done ++ invI fl c :: rest, !fl), false))
    (bs : Bytes) (fl : Bool) :
    Py.bind (Py.forRangeGo body bs.length 0 (ofBytes bs, fl)) (fun x => match x with | (bytes, _) => Except.ok bytes)
      = .ok (ofBytes (Str.invertAux fl bs)) := by
  obtain ⟨fl', h⟩ := invert_loop body hbody bs [] fl
  simp only [List.length_nil, Int.natCast_zero, List.nil_append] at h
  rw [h]; rfl

theorem invert_characters_eq (bs : Bytes) :
    Src.Str._invert_characters (ofBytes bs) = .ok (ofBytes (Str.invert bs)) := by
  unfold Src.Str._invert_characters Py.forRange Str.invert
  have hlen : Py.len (ofBytes bs) = (bs.length : Int) := Py.len_map_ofNat bs
  have hf : decide (Int.fmod (bs.length : Int) 2 = 1) = (bs.length % 2 == 1) := by
    rw [Int.fmod_eq_emod_of_nonneg _ (by omega)]
    by_cases h : bs.length % 2 = 1
    · have : (bs.length : Int) % 2 = 1 := by omega
      simp [h, this]
    · have : ¬ (bs.length : Int) % 2 = 1 := by omega
      simp [h, this]
  simp only [hlen, hf, Int.toNat_natCast]
  refine invert_main _ ?_ bs _
  intro done c rest fl
  have h0 : (0 : Int) ≤ done.length ∧ (done.length : Int) < (done.length : Int) + ((rest.length : Int) + 1) := by omega
  have hneg : ¬ ((done.length : Int) < 0) := by omega
  have hget : ∀ k : Int → Py.M ((List Int × Bool) × Bool),
      Py.getItem (done ++ c :: rest) (done.length : Int) k = k c := by
    intro k
    simp [Py.getItem, Py.normIndex, Py.len, hneg, h0]
  have hset : ∀ (v : Int) (k : List Int → Py.M (List Int)), 0 ≤ v ∧ v < 256 →
      Py.setItem (done ++ c :: rest) (done.length : Int) v k = k (done ++ v :: rest) := by
    intro v k hv
    simp [Py.setItem, Py.normIndex, Py.len, hneg, h0, hv]
  simp only [Src.Str._invert_characters_loop1_body, hget]
  by_cases hc : (0x22 : Int) ≤ c ∧ c ≤ 0x7E
  · have hr := invI_range fl c hc
    have hv : invI fl c = 0x9F - c - (if fl then (if c ≥ 0x50 then -0x2E else 0x2E) else 0) := by
      unfold invI; simp only [hc, and_self, if_true]
    cases fl <;> by_cases h5 : c ≥ 0x50 <;> simp [hc, h5] at hv hr ⊢ <;> rw [hset _ _ (by omega)] <;> simp [hv] <;> omega
  · have hv : invI fl c = c := by unfold invI; simp only [hc, if_false]
    have hc' : ¬ (34 ≤ c ∧ c ≤ 126) := hc
    cases fl <;> simp [hc', hv]

/-- `encode_string` / `decode_string` of the source are the model's `encode` / `decode`. -/
theorem encode_string_eq (bs : Bytes) : Src.Str.encode_string (ofBytes bs) = .ok (ofBytes (Str.encode bs)) := by
  unfold Src.Str.encode_string Str.encode
  rw [invert_characters_eq]; simp [ofBytes]

theorem decode_string_eq (bs : Bytes) : Src.Str.decode_string (ofBytes bs) = .ok (ofBytes (Str.decode bs)) := by
  unfold Src.Str.decode_string Str.decode
  have : (ofBytes bs).reverse = ofBytes bs.reverse := by simp [ofBytes]
  simp only [this, invert_characters_eq]; rfl
end EoVerif.SrcTie
