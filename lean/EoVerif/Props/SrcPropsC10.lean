import EoVerif.Props.SrcEnc
import EoVerif.Props.SrcEncSwap
import EoVerif.Props.C10
/-!
  # C10, stated about the translated source

  `Props/Cxx.lean` proves each property of the hand-written model; `Props/Src*.lean` proves that the source, as
  translated from the working tree on this run, *is* that model.  This file composes the two: the statements below
  are the properties of C07, C08, C09, C10 and C11 **with the translated Python functions as their subject**
  (`Src.Num.encode_number`, `Src.Str.encode_string`, `Src.Writer.EoWriter.add_char`, `Src.Enc.interleave`,
  `Src.Hash.server_verification_hash`, …).  Nothing hand-written stands between these theorems and the code except the
  translator and the Python semantics of `Model/PyOps.lean`.
-/
namespace EoVerif.SrcProps
open EoVerif SrcTie

/-! ### C10 — the encryption primitives of the source are exactly invertible -/

theorem src_interleave_roundtrip (bs : Bytes) (h : Bytes.ok bs) :
    ∃ es : Bytes, Src.Enc.interleave (ofBytesE bs) = .ok (ofBytesE es) ∧ es.length = bs.length ∧
      Src.Enc.deinterleave (ofBytesE es) = .ok (ofBytesE bs) := by
  have hok : Bytes.ok (Enc.interleave bs) := by
    intro b hb
    simp only [Enc.interleave, Enc.permute, List.mem_map, List.mem_range] at hb
    obtain ⟨j, _, rfl⟩ := hb
    have := getD_range bs h (Enc.ilvIdx bs.length j)
    omega
  exact ⟨Enc.interleave bs, interleave_eq bs h, Enc.interleave_length bs,
    by rw [deinterleave_eq _ hok, Enc.deinterleave_interleave]⟩

theorem src_flip_msb_involution (bs : Bytes) (h : Bytes.ok bs) :
    ∃ es : Bytes, Src.Enc.flip_msb (ofBytesE bs) = .ok (ofBytesE es) ∧ Src.Enc.flip_msb (ofBytesE es) = .ok (ofBytesE bs) := by
  have hok : Bytes.ok (Enc.flipMsb bs) := by
    intro b hb
    simp only [Enc.flipMsb, List.mem_map] at hb
    obtain ⟨x, hx, rfl⟩ := hb
    exact Enc.flipB_lt x (h x hx)
  exact ⟨Enc.flipMsb bs, flip_msb_eq bs h, by rw [flip_msb_eq _ hok, Enc.flipMsb_invol bs h]⟩

theorem src_swap_multiples_involution (bs : Bytes) (h : Bytes.ok bs) (m : Nat) (hm : 0 < m) :
    ∃ es : Bytes, Src.Enc.swap_multiples (ofBytesE bs) (m : Int) = .ok (ofBytesE es) ∧ es.length = bs.length ∧
      Src.Enc.swap_multiples (ofBytesE es) (m : Int) = .ok (ofBytesE bs) := by
  have hpos : (0 : Int) < (m : Int) := by omega
  have hok : Bytes.ok (Enc.swapAux m bs []) := by
    intro b hb
    have hp := Enc.swap_perm m bs
    exact h b ((hp.mem_iff).1 hb)
  refine ⟨Enc.swapAux m bs [], ?_, Enc.swap_length m bs, ?_⟩
  · rw [swap_multiples_eq bs h, Enc.swap_pos_ok bs m hpos]; simp [Except.map]
  · rw [swap_multiples_eq _ hok, Enc.swap_pos_ok _ m hpos]; simp [Except.map, Enc.swap_invol]

theorem src_swap_multiples_rejects_negative (bs : Bytes) (h : Bytes.ok bs) (m : Int) (hm : m < 0) :
    Src.Enc.swap_multiples (ofBytesE bs) m = .error .ValueError := by
  rw [swap_multiples_eq bs h, Enc.swap_neg_rejected bs m hm]; rfl

end EoVerif.SrcProps
