import EoVerif.Model.Seq
/-!
# C12 — generated sequence starts are always transmittable and reconstructible

The random source is universally quantified: `r1`, `r2`, `r` are *any* values a call
`random.randrange(0, stop)` may return, i.e. any integer in `[0, stop)`; "generation never fails"
is the statement that every requested range is non-empty.
-/
namespace EoVerif.Seq

private theorem tdiv7 (x : Int) : x.tdiv 7 = if 0 ≤ x then x / 7 else -((-x) / 7) := by
  rw [Int.tdiv_eq_ediv]
  have : Int.sign 7 = 1 := rfl
  rw [this]
  split <;> split <;> omega

/-- INIT: for every first draw the second range is non-empty, and every outcome has its value in
    0..1756, both wire components in 0..252, and is reconstructed exactly by `from_init_values`. -/
theorem init_ok (r1 : Int) (h1 : 0 ≤ r1 ∧ r1 < draw1) :
    0 < initDraw2 r1 ∧
    ∀ r2, 0 ≤ r2 ∧ r2 < initDraw2 r1 →
      let s := initGenerate r1 r2
      s.value = r1 ∧ 0 ≤ s.value ∧ s.value < 1757 ∧
      0 ≤ s.seq1 ∧ s.seq1 ≤ 252 ∧ 0 ≤ s.seq2 ∧ s.seq2 ≤ 252 ∧
      fromInitValues s.seq1 s.seq2 = s := by
  unfold draw1 at h1
  unfold initDraw2 seq1Max seq1Min CHAR_MAX
  rw [tdiv7, tdiv7]
  refine ⟨?_, ?_⟩
  · split <;> split <;> omega
  · intro r2 h2
    simp only [initGenerate, fromInitValues, seq1Min, CHAR_MAX]
    rw [tdiv7]
    split at h2 <;> split at h2 <;> and_intros <;> first | trivial | omega | (congr 1; omega)

/-- PING: value in 0..1756, `seq1` fits a short, `seq2` fits a char, reconstruction exact. -/
theorem ping_ok (r1 r2 : Int) (h1 : 0 ≤ r1 ∧ r1 < draw1) (h2 : 0 ≤ r2 ∧ r2 < pingDraw2) :
    0 < pingDraw2 ∧
    let s := pingGenerate r1 r2
    s.value = r1 ∧ 0 ≤ s.value ∧ s.value < 1757 ∧
    0 ≤ s.seq1 ∧ s.seq1 < 253 ^ 2 ∧ 0 ≤ s.seq2 ∧ s.seq2 < 253 ∧
    fromPingValues s.seq1 s.seq2 = s := by
  unfold draw1 at h1
  unfold pingDraw2 CHAR_MAX at *
  simp only [pingGenerate, fromPingValues, Int.reducePow]
  and_intros <;> first | trivial | omega | (congr 1; omega)

/-- ACCOUNT_REPLY: one char, reconstructed by `from_value`. -/
theorem account_ok (r : Int) (h : 0 ≤ r ∧ r < accountDraw) :
    0 < accountDraw ∧ 0 ≤ accountGenerate r ∧ accountGenerate r < 253 ∧
    fromValue (accountGenerate r) = accountGenerate r := by
  unfold accountDraw at *
  unfold accountGenerate fromValue
  omega

/-- the first draw range is non-empty too -/
theorem draw1_pos : 0 < draw1 := by decide

/-! Non-vacuity: the hypotheses are satisfiable (e.g. the midpoint the suite pins). -/
example : (0 : Int) ≤ 879 ∧ (879 : Int) < draw1 ∧ 0 < initDraw2 879 := by decide
example : initDraw2 879 = 35 ∧ initGenerate 879 18 = ⟨879, 110, 122⟩ := by decide

end EoVerif.Seq
