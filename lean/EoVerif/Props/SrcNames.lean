import EoVerif.Generated.SrcNames
import EoVerif.Model.PyStr
import EoVerif.Model.PyOps
/-!
  # Source tie for `protocol_code_generator/util/name_utils.py` (the generator's file and class naming: C18, C20)

  `pascal_case_to_snake_case` and `snake_case_to_pascal_case` are translated from the working tree on every run (a `str` is
  the list of its code points; `for c in name` / `for i, c in enumerate(name)` are range loops that first bind the character;
  the short-circuit test of the first function, whose operands index the string, becomes nested conditionals).  The theorems
  prove them equal to the models `PyStr.pascalToSnake` / `PyStr.snakeToPascal` that `Model/GenCompile.lean` uses for module
  and class names, for every string — under the ASCII reading of `isupper` / `islower` / `lower` / `upper` shared by
  `Model/PyStr.lean` and `Model/PyOps.lean`.
-/
namespace EoVerif.SrcTie
open EoVerif

def toN (l : List Char) : List Nat := l.map Char.toNat

theorem isUpper_eq (c : Char) : PyStr.isUpperC c = Py.chrIsUpper c.toNat := by
  simp only [PyStr.isUpperC, Py.chrIsUpper, Char.toNat]
  have h1 : ('A' ≤ c) ↔ 65 ≤ c.val.toNat := by
    rw [Char.le_def]; exact UInt32.le_iff_toNat_le
  have h2 : (c ≤ 'Z') ↔ c.val.toNat ≤ 90 := by
    rw [Char.le_def]; exact UInt32.le_iff_toNat_le
  simp [h1, h2]
theorem isLower_eq (c : Char) : PyStr.isLowerC c = Py.chrIsLower c.toNat := by
  simp only [PyStr.isLowerC, Py.chrIsLower, Char.toNat]
  have h1 : ('a' ≤ c) ↔ 97 ≤ c.val.toNat := by
    rw [Char.le_def]; exact UInt32.le_iff_toNat_le
  have h2 : (c ≤ 'z') ↔ c.val.toNat ≤ 122 := by
    rw [Char.le_def]; exact UInt32.le_iff_toNat_le
  simp [h1, h2]
theorem ofNat_up : ∀ k : Fin 26, (Char.ofNat (65 + k.val + 32)).toNat = 65 + k.val + 32 := by decide
theorem ofNat_lo : ∀ k : Fin 26, (Char.ofNat (97 + k.val - 32)).toNat = 97 + k.val - 32 := by decide
theorem toLower_eq (c : Char) : (PyStr.toLowerC c).toNat = Py.chrLower c.toNat := by
  unfold PyStr.toLowerC Py.chrLower
  rw [isUpper_eq]
  by_cases h : Py.chrIsUpper c.toNat = true
  · simp only [h, if_true]
    have hb : 65 ≤ c.toNat ∧ c.toNat ≤ 90 := by simpa [Py.chrIsUpper] using h
    have := ofNat_up ⟨c.toNat - 65, by omega⟩
    simp only at this
    have e : 65 + (c.toNat - 65) = c.toNat := by omega
    rw [e] at this
    exact this
  · simp [h]
theorem toUpper_eq (c : Char) : (PyStr.toUpperC c).toNat = Py.chrUpper c.toNat := by
  unfold PyStr.toUpperC Py.chrUpper
  rw [isLower_eq]
  by_cases h : Py.chrIsLower c.toNat = true
  · simp only [h, if_true]
    have hb : 97 ≤ c.toNat ∧ c.toNat ≤ 122 := by simpa [Py.chrIsLower] using h
    have := ofNat_lo ⟨c.toNat - 97, by omega⟩
    simp only at this
    have e : 97 + (c.toNat - 97) = c.toNat := by omega
    rw [e] at this
    exact this
  · simp [h]

theorem eq_underscore (c : Char) : (c == '_') = decide (c.toNat = 95) := by
  by_cases h : c = '_'
  · subst h; decide
  · have : ¬ (c.toNat = 95) := by
      intro h2
      apply h
      have := Char.ofNat_toNat c
      rw [h2] at this
      exact this.symm
    simp [h, this]

theorem getChar_at {α} (pre : List Char) (c : Char) (cs : List Char) (k : Nat → Py.M α) :
    Py.getChar (toN (pre ++ c :: cs)) (pre.length : Int) k = k c.toNat := by
  have h1 : ¬ ((pre.length : Int) < 0) := by omega
  have h2 : (0 : Int) ≤ pre.length ∧ (pre.length : Int) < Py.lenS (toN (pre ++ c :: cs)) := by
    simp [Py.lenS, toN]; omega
  simp only [Py.getChar, h1, if_false, h2, and_self, if_true, Int.toNat_natCast]
  simp [toN]

/-! ### snake_case_to_pascal_case -/

theorem snake_loop (name : List Nat) : ∀ (suf pre : List Char) (acc : List Nat) (up : Bool), name = toN (pre ++ suf) →
    ∃ up', Py.forRangeGo (Src.Names.snake_case_to_pascal_case_loop1_body name) suf.length (pre.length : Int) (acc, up)
      = .ok (acc ++ toN (PyStr.snakeToPascalAux suf up), up') := by
  intro suf
  induction suf with
  | nil => intro pre acc up _; exact ⟨up, by simp [Py.forRangeGo, PyStr.snakeToPascalAux, toN]⟩
  | cons c cs ih =>
    intro pre acc up hn
    have hlen : ((pre ++ [c]).length : Int) = (pre.length : Int) + 1 := by simp
    by_cases hu : c.toNat = 95
    · have hb : Src.Names.snake_case_to_pascal_case_loop1_body name (pre.length : Int) (acc, up) = .ok ((acc, true), false) := by
        simp only [Src.Names.snake_case_to_pascal_case_loop1_body, hn, getChar_at]
        simp [hu]
      obtain ⟨up', h⟩ := ih (pre ++ [c]) acc true (by simp [hn])
      refine ⟨up', ?_⟩
      rw [List.length_cons, Py.forRangeGo_step _ _ _ _ _ hb, ← hlen, h]
      simp [PyStr.snakeToPascalAux, eq_underscore, hu]
    · have hb : Src.Names.snake_case_to_pascal_case_loop1_body name (pre.length : Int) (acc, up)
          = .ok ((acc ++ [if up then Py.chrUpper c.toNat else Py.chrLower c.toNat], false), false) := by
        simp only [Src.Names.snake_case_to_pascal_case_loop1_body, hn, getChar_at]
        cases up <;> simp [hu]
      obtain ⟨up', h⟩ := ih (pre ++ [c]) (acc ++ [if up then Py.chrUpper c.toNat else Py.chrLower c.toNat]) false (by simp [hn])
      refine ⟨up', ?_⟩
      rw [List.length_cons, Py.forRangeGo_step _ _ _ _ _ hb, ← hlen, h]
      cases up <;> simp [PyStr.snakeToPascalAux, eq_underscore, hu, toN, toUpper_eq, toLower_eq]

theorem snake_case_to_pascal_case_eq (s : String) :
    Src.Names.snake_case_to_pascal_case (toN s.toList) = .ok (toN (PyStr.snakeToPascal s).toList) := by
  unfold Src.Names.snake_case_to_pascal_case Py.forRange PyStr.snakeToPascal
  have hl : (Py.lenS (toN s.toList)).toNat = s.toList.length := by simp [Py.lenS, toN]
  rw [hl]
  obtain ⟨up', h⟩ := snake_loop (toN s.toList) s.toList [] [] true (by simp)
  simp only [List.length_nil, Int.natCast_zero, List.nil_append] at h
  simp only [h, Py.bind_ok]
  simp [String.toList_ofList]


/-! ### pascal_case_to_snake_case -/

theorem nil_or_snoc (l : List Char) : l = [] ∨ ∃ q p, l = q ++ [p] := by
  match h : l.reverse with
  | [] => left; simpa using h
  | p :: q =>
    right
    refine ⟨q.reverse, p, ?_⟩
    have := congrArg List.reverse h
    simpa using this

/-- one iteration: the model's `under` decides the underscore -/
theorem pascal_step (pre : List Char) (c : Char) (cs : List Char) (acc : List Nat) :
    Src.Names.pascal_case_to_snake_case_loop1_body (toN (pre ++ c :: cs)) (pre.length : Int) acc
      = .ok (acc ++ toN (match PyStr.pascalToSnakeAux (c :: cs) pre.getLast? with
          | l => l.take (l.length - (PyStr.pascalToSnakeAux cs (some c)).length)), false) := by
  have haux : ∀ (under : Bool), ((if under then ['_', PyStr.toLowerC c] else [PyStr.toLowerC c]) ++ PyStr.pascalToSnakeAux cs (some c)).take
      (((if under then ['_', PyStr.toLowerC c] else [PyStr.toLowerC c]) ++ PyStr.pascalToSnakeAux cs (some c)).length
        - (PyStr.pascalToSnakeAux cs (some c)).length) = (if under then ['_', PyStr.toLowerC c] else [PyStr.toLowerC c]) := by
    intro under
    cases under
    · simp
    · have e : (PyStr.pascalToSnakeAux cs (some c)).length + 1 + 1 - (PyStr.pascalToSnakeAux cs (some c)).length = 2 := by omega
      simp [e]
  have hlenS : Py.lenS (toN (pre ++ c :: cs)) = (pre.length : Int) + 1 + cs.length := by
    simp [Py.lenS, toN]; omega
  simp only [Src.Names.pascal_case_to_snake_case_loop1_body, getChar_at, hlenS]
  rcases nil_or_snoc pre with rfl | ⟨q, p, rfl⟩
  · -- first character: never an underscore
    simp [PyStr.pascalToSnakeAux, toN, toLower_eq]
  · have hpos : ((q ++ [p]).length : Int) > 0 := by simp
    have hprev : ∀ (k : Nat → Py.M (List Nat)), Py.getChar (toN (q ++ [p] ++ c :: cs)) (((q ++ [p]).length : Int) - 1) k = k p.toNat := by
      intro k
      have e : q ++ [p] ++ c :: cs = q ++ p :: (c :: cs) := by simp
      have e2 : (((q ++ [p]).length : Int) - 1) = (q.length : Int) := by simp
      rw [e, e2, getChar_at]
    have hlast : (q ++ [p]).getLast? = some p := by simp
    simp only [hpos, decide_true, if_true, hprev, hlast, PyStr.pascalToSnakeAux, haux]
    by_cases hu : Py.chrIsUpper c.toNat = true
    · match cs with
      | [] =>
        have hlt : ¬ (((q ++ [p]).length : Int) + 1 < ((q ++ [p]).length : Int) + 1 + (([] : List Char).length : Int)) := by simp
        simp only [hu, if_true, hlt, decide_false, Bool.false_eq_true, if_false]
        by_cases hl : Py.chrIsLower p.toNat = true <;>
          simp [hl, isUpper_eq, isLower_eq, hu, toN, toLower_eq]
      | n :: cs' =>
        have hlt : (((q ++ [p]).length : Int) + 1 < ((q ++ [p]).length : Int) + 1 + ((n :: cs').length : Int)) := by simp; omega
        have hnext : ∀ (k : Nat → Py.M (List Nat)), Py.getChar (toN (q ++ [p] ++ c :: n :: cs')) (((q ++ [p]).length : Int) + 1) k = k n.toNat := by
          intro k
          have e : q ++ [p] ++ c :: n :: cs' = (q ++ [p] ++ [c]) ++ n :: cs' := by simp
          have e2 : (((q ++ [p]).length : Int) + 1) = ((q ++ [p] ++ [c]).length : Int) := by simp; omega
          rw [e, e2, getChar_at]
        simp only [hu, if_true, hlt, decide_true, hnext]
        by_cases hn : Py.chrIsUpper n.toNat = true
        · by_cases hl : Py.chrIsLower p.toNat = true <;>
            simp [hn, hl, isUpper_eq, isLower_eq, hu, toN, toLower_eq]
        · simp [hn, isUpper_eq, isLower_eq, hu, toN, toLower_eq]
    · simp [hu, isUpper_eq, toN, toLower_eq]


theorem aux_split (c : Char) (cs : List Char) (prev : Option Char) :
    (PyStr.pascalToSnakeAux (c :: cs) prev).take
      ((PyStr.pascalToSnakeAux (c :: cs) prev).length - (PyStr.pascalToSnakeAux cs (some c)).length)
      ++ PyStr.pascalToSnakeAux cs (some c) = PyStr.pascalToSnakeAux (c :: cs) prev := by
  simp only [PyStr.pascalToSnakeAux]
  generalize (if (match prev with | none => false | some p => PyStr.isUpperC c && ((match cs with | n :: _ => !PyStr.isUpperC n | [] => false) || PyStr.isLowerC p)) = true
    then ['_', PyStr.toLowerC c] else [PyStr.toLowerC c]) = Z
  simp

theorem pascal_loop (name : List Nat) : ∀ (suf pre : List Char) (acc : List Nat), name = toN (pre ++ suf) →
    Py.forRangeGo (Src.Names.pascal_case_to_snake_case_loop1_body name) suf.length (pre.length : Int) acc
      = .ok (acc ++ toN (PyStr.pascalToSnakeAux suf pre.getLast?)) := by
  intro suf
  induction suf with
  | nil => intro pre acc _; simp [Py.forRangeGo, PyStr.pascalToSnakeAux, toN]
  | cons c cs ih =>
    intro pre acc hn
    have hb := pascal_step pre c cs acc
    rw [← hn] at hb
    have hlen : ((pre ++ [c]).length : Int) = (pre.length : Int) + 1 := by simp
    rw [List.length_cons, Py.forRangeGo_step _ _ _ _ _ hb, ← hlen, ih (pre ++ [c]) _ (by simp [hn])]
    have hl : (pre ++ [c]).getLast? = some c := by simp
    rw [hl, List.append_assoc]
    congr 2
    have := aux_split c cs pre.getLast?
    simp only [toN, ← List.map_append]
    rw [this]

theorem pascal_case_to_snake_case_eq (s : String) :
    Src.Names.pascal_case_to_snake_case (toN s.toList) = .ok (toN (PyStr.pascalToSnake s).toList) := by
  unfold Src.Names.pascal_case_to_snake_case Py.forRange PyStr.pascalToSnake
  have hl : (Py.lenS (toN s.toList)).toNat = s.toList.length := by simp [Py.lenS, toN]
  rw [hl]
  have h := pascal_loop (toN s.toList) s.toList [] [] (by simp)
  simp only [List.length_nil, Int.natCast_zero, List.nil_append, List.getLast?_nil] at h
  simp only [h, Py.bind_ok]
  simp [String.toList_ofList]

end EoVerif.SrcTie
