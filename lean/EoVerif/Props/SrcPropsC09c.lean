import EoVerif.Props.SrcWriter
import EoVerif.Props.C09
import EoVerif.Spec.RW
/-!
  # C09 (whole histories), stated about the translated source

  `srcWStep` dispatches one writer operation to the **translated** method of `EoWriter` and threads the two fields
  `(data, _string_sanitization_mode)` exactly as the method returns them.  `srcWRun` runs a whole history: a call that
  raises contributes its exception and the run goes on from the fields the call was entered with — which is what the
  theorems then *prove* about the source through the model (`atomic`): the translated method answers `ValueError`
  exactly when the model's step rejects, and the model's rejected step leaves the writer as it was.

  * `srcWStep_eq`: one translated step is `Writer.step` (every state, every argument).
  * `src_wrun_eq`: a whole history over the translated methods from the fields `__init__` assigns is `Writer.run`, with
    the same accept / reject outcome per call.
  * `src_history_grows`, `src_history_mode`, `src_history_only_value_error` (**C09 about the source, whole histories**):
    across any history the buffer only grows by appending, every rejection is a `ValueError`, and the sanitisation
    mode in force is the argument of the last setter call (initially off).
-/
namespace EoVerif.SrcProps
open EoVerif SrcTie Writer

/-- the two fields of a translated `EoWriter` -/
abbrev WS := List Int × Bool

def wsview (w : Writer) : WS := (ofBytes w.data, w.san)

open Src.Writer in
/-- one operation through the translated methods -/
def srcWStep : WS → Op → Py.M WS
  | (d, s), .addByte v => Py.bind (EoWriter.add_byte d s v) fun d' => .ok (d', s)
  | (d, s), .addBytes bs => Py.bind (EoWriter.add_bytes d s (ofBytes bs)) fun d' => .ok (d', s)
  | (d, s), .addChar n => Py.bind (EoWriter.add_char d s n) fun d' => .ok (d', s)
  | (d, s), .addShort n => Py.bind (EoWriter.add_short d s n) fun d' => .ok (d', s)
  | (d, s), .addThree n => Py.bind (EoWriter.add_three d s n) fun d' => .ok (d', s)
  | (d, s), .addInt n => Py.bind (EoWriter.add_int d s n) fun d' => .ok (d', s)
  | (d, s), .addString str => Py.bind (EoWriter.add_string d s str) fun d' => .ok (d', s)
  | (d, s), .addFixedString str l p => Py.bind (EoWriter.add_fixed_string d s str l p) fun d' => .ok (d', s)
  | (d, s), .addEncodedString str => Py.bind (EoWriter.add_encoded_string d s str) fun d' => .ok (d', s)
  | (d, s), .addFixedEncodedString str l p =>
    Py.bind (EoWriter.add_fixed_encoded_string d s str l p) fun d' => .ok (d', s)
  | (d, s), .setSan b => Py.bind (EoWriter.string_sanitization_mode_setter d s b) fun s' => .ok (d, s')

/-- the outcome of one model step, as the translated side renders it -/
def wstepView (x : Writer × Except PyErr Unit) : Py.M WS :=
  match x.2 with
  | .ok () => .ok (wsview x.1)
  | .error e => .error e

theorem wview_bind (x : Writer × Except PyErr Unit) (s : Bool) (hs : x.1.san = s) :
    (Py.bind (wview x) fun d' => (.ok (d', s) : Py.M WS)) = wstepView x := by
  unfold wview wstepView wsview
  cases h : x.2 with
  | ok u => cases u; simp [hs]
  | error e => rfl

/-- **one step of the translated writer is one step of the model**, for every state and argument -/
theorem srcWStep_eq (w : Writer) (op : Op) : srcWStep (wsview w) op = wstepView (w.step op) := by
  have hm := mode_only_by_setter w op
  cases op with
  | addByte v => simp only [srcWStep, wsview, add_byte_eq]; exact wview_bind _ _ hm
  | addBytes bs => simp only [srcWStep, wsview, add_bytes_eq]; exact wview_bind _ _ hm
  | addChar n => simp only [srcWStep, wsview, add_char_eq]; exact wview_bind _ _ hm
  | addShort n => simp only [srcWStep, wsview, add_short_eq]; exact wview_bind _ _ hm
  | addThree n => simp only [srcWStep, wsview, add_three_eq]; exact wview_bind _ _ hm
  | addInt n => simp only [srcWStep, wsview, add_int_eq]; exact wview_bind _ _ hm
  | addString s => simp only [srcWStep, wsview, add_string_eq]; exact wview_bind _ _ hm
  | addFixedString s l p => simp only [srcWStep, wsview, add_fixed_string_eq]; exact wview_bind _ _ hm
  | addEncodedString s => simp only [srcWStep, wsview, add_encoded_string_eq]; exact wview_bind _ _ hm
  | addFixedEncodedString s l p => simp only [srcWStep, wsview, add_fixed_encoded_string_eq]; exact wview_bind _ _ hm
  | setSan b =>
    obtain ⟨h1, h2⟩ := san_setter_eq w b
    simp only [srcWStep, wsview, h1, Py.bind_ok, wstepView, Writer.step]

/-- a whole history through the translated methods; a raising call leaves the fields as they were -/
def srcWRun : WS → List Op → WS × List (Except PyErr Unit)
  | st, [] => (st, [])
  | st, op :: ops =>
    match srcWStep st op with
    | .ok st' => let (s'', outs) := srcWRun st' ops; (s'', .ok () :: outs)
    | .error e => let (s'', outs) := srcWRun st ops; (s'', .error e :: outs)

/-- the model's run with the outcome of every call -/
def runOutW (w : Writer) : List Op → Writer × List (Except PyErr Unit)
  | [] => (w, [])
  | op :: ops => let (w', outs) := runOutW (w.step op).1 ops; (w', (w.step op).2 :: outs)

theorem runOutW_fst (w : Writer) (ops : List Op) : (runOutW w ops).1 = w.run ops := by
  induction ops generalizing w with
  | nil => rfl
  | cons op ops ih => simp [runOutW, Writer.run, ih]

theorem src_wrun_gen (ops : List Op) : ∀ w : Writer,
    srcWRun (wsview w) ops = (wsview (w.run ops), (runOutW w ops).2) := by
  induction ops with
  | nil => intro w; rfl
  | cons op ops ih =>
    intro w
    have hstep := srcWStep_eq w op
    cases hres : (w.step op).2 with
    | ok u =>
      cases u
      simp only [wstepView, hres] at hstep
      simp only [srcWRun, hstep, ih, Writer.run, runOutW, hres]
    | error e =>
      have hsame : (w.step op).1 = w := atomic w op e hres
      simp only [wstepView, hres] at hstep
      have ih' := ih (w.step op).1
      rw [hsame] at ih'
      simp only [srcWRun, hstep, ih', Writer.run, runOutW, hres, hsame]

theorem src_winit : Src.Writer.EoWriter.__init__ = .ok (wsview {}) := init_eq

/-- a whole history of the translated writer from a fresh instance is the model's run -/
theorem src_wrun_eq (ops : List Op) :
    srcWRun (wsview {}) ops = (wsview (({} : Writer).run ops), (runOutW {} ops).2) := src_wrun_gen ops {}

/-- **growth**: over any history of the translated writer the buffer it started with stays as a prefix -/
theorem src_history_grows (w : Writer) (ops : List Op) :
    ∃ bs : Bytes, (srcWRun (wsview w) ops).1.1 = ofBytes w.data ++ ofBytes bs := by
  obtain ⟨bs, h⟩ := run_prefix w ops
  exact ⟨bs, by rw [src_wrun_gen]; simp [wsview, h, ofBytes]⟩

theorem runOutW_only_value_error (ops : List Op) : ∀ (w : Writer) (e : PyErr), .error e ∈ (runOutW w ops).2 → e = .ValueError := by
  induction ops with
  | nil => intro w e h; simp [runOutW] at h
  | cons op ops ih =>
    intro w e h
    simp only [runOutW, List.mem_cons] at h
    rcases h with h | h
    · exact only_value_error w op e h.symm
    · exact ih _ e h

/-- every rejection in any history of the translated writer is a `ValueError` -/
theorem src_history_only_value_error (w : Writer) (ops : List Op) (e : PyErr)
    (h : .error e ∈ (srcWRun (wsview w) ops).2) : e = .ValueError := by
  rw [src_wrun_gen] at h
  exact runOutW_only_value_error ops w e h

/-- the mode the last setter call of a history asked for (initially `m`) -/
def lastMode (m : Bool) : List Op → Bool
  | [] => m
  | .setSan b :: ops => lastMode b ops
  | _ :: ops => lastMode m ops

theorem run_mode (ops : List Op) : ∀ w : Writer, (w.run ops).san = lastMode w.san ops := by
  induction ops with
  | nil => intro w; rfl
  | cons op ops ih =>
    intro w
    have hm := mode_only_by_setter w op
    cases op <;> simp only [Writer.run, lastMode, ih, hm]

/-- the sanitisation mode of the translated writer changes only through its setter, over any history -/
theorem src_history_mode (w : Writer) (ops : List Op) :
    (srcWRun (wsview w) ops).1.2 = lastMode w.san ops := by
  rw [src_wrun_gen]; exact run_mode ops w

/-- the bytes an accepted history must have appended: the declared size of every accepted call -/
def declaredSum : List Op → List (Except PyErr Unit) → Nat
  | op :: ops, .ok () :: outs => declared op + declaredSum ops outs
  | _ :: ops, .error _ :: outs => declaredSum ops outs
  | _, _ => 0

theorem runOutW_length (ops : List Op) : ∀ w : Writer,
    ((runOutW w ops).1).data.length = w.data.length + declaredSum ops (runOutW w ops).2 := by
  induction ops with
  | nil => intro w; simp [runOutW, declaredSum]
  | cons op ops ih =>
    intro w
    have ih' := ih (w.step op).1
    cases hres : (w.step op).2 with
    | ok u =>
      cases u
      obtain ⟨bs, hd, hl⟩ := appends_declared w op hres
      simp only [runOutW, hres, declaredSum] at ih' ⊢
      rw [ih', hd, List.length_append, hl]; omega
    | error e =>
      have hsame : (w.step op).1 = w := atomic w op e hres
      simp only [runOutW, hres, declaredSum] at ih' ⊢
      rw [ih', hsame]

/-- **size accounting over whole histories of the translated writer**: the buffer grows by exactly the declared size of
    every accepted call, and by nothing for a rejected one -/
theorem src_history_length (w : Writer) (ops : List Op) :
    (srcWRun (wsview w) ops).1.1.length = w.data.length + declaredSum ops (srcWRun (wsview w) ops).2 := by
  rw [src_wrun_gen]
  have h := runOutW_length ops w
  rw [runOutW_fst] at h
  simp [wsview, ofBytes, h]

/-- writes only (stops at the first rejected one): the translated counterpart of `RW.writeAll` -/
def srcWriteAll : WS → List Op → Py.M WS
  | st, [] => .ok st
  | st, op :: ops => Py.bind (srcWStep st op) fun st' => srcWriteAll st' ops

theorem src_writeAll_eq (ops : List Op) : ∀ w : Writer,
    srcWriteAll (wsview w) ops = (match RW.writeAll w ops with | .ok w' => .ok (wsview w') | .error e => .error e) := by
  induction ops with
  | nil => intro w; rfl
  | cons op ops ih =>
    intro w
    have hstep := srcWStep_eq w op
    simp only [srcWriteAll, hstep, RW.writeAll]
    rcases hs : w.step op with ⟨w', res⟩
    cases res with
    | ok u => cases u; simp [wstepView, ih]
    | error e => simp [wstepView]

/-- non-vacuity: a concrete history through the translated methods, with a rejected call in the middle -/
example : srcWRun (wsview {}) [.addChar 1, .addShort 64009, .setSan true, .addString [0x41, 0xFF], .addByte 255]
    = (([2, 0x41, 0x79, 255], true), [.ok (), .error .ValueError, .ok (), .ok (), .ok ()]) := by decide

end EoVerif.SrcProps
