import EoVerif.Model.Enc
import EoVerif.Lemmas.Enc
/-!
# C10 — packet-encryption primitives are lossless and exactly invertible
-/
namespace EoVerif.Enc

theorem interleave_length (d : Bytes) : (interleave d).length = d.length := by
  exact permute_length _ d
theorem deinterleave_length (d : Bytes) : (deinterleave d).length = d.length := by
  exact permute_length _ d

/-- The two index maps are permutations of `0..n-1` that depend only on `n`, and are mutually
    inverse. -/
theorem ilvIdx_lt (n j : Nat) (h : j < n) : ilvIdx n j < n := by
  unfold ilvIdx; split <;> omega
theorem dlvIdx_lt (n j : Nat) (h : j < n) : dlvIdx n j < n := by
  unfold dlvIdx; split <;> omega
theorem ilv_dlv (n j : Nat) (h : j < n) : ilvIdx n (dlvIdx n j) = j := by
  unfold ilvIdx dlvIdx; repeat' split
  all_goals omega
theorem dlv_ilv (n j : Nat) (h : j < n) : dlvIdx n (ilvIdx n j) = j := by
  unfold ilvIdx dlvIdx; repeat' split
  all_goals omega

/-- Output position `j` of `interleave` holds input position `ilvIdx n j` (a permutation of
    positions that depends only on the length). -/
theorem interleave_get (d : Bytes) (j : Nat) (h : j < d.length) :
    (interleave d)[j]? = d[ilvIdx d.length j]? := by
  exact permute_get _ d j h (ilvIdx_lt _ _ h)
theorem deinterleave_get (d : Bytes) (j : Nat) (h : j < d.length) :
    (deinterleave d)[j]? = d[dlvIdx d.length j]? := by
  exact permute_get _ d j h (dlvIdx_lt _ _ h)

theorem deinterleave_interleave (d : Bytes) : deinterleave (interleave d) = d := by
  exact permute_permute ilvIdx dlvIdx d ilvIdx_lt dlvIdx_lt ilv_dlv
theorem interleave_deinterleave (d : Bytes) : interleave (deinterleave d) = d := by
  exact permute_permute dlvIdx ilvIdx d dlvIdx_lt ilvIdx_lt dlv_ilv

/-- `flip_msb` is an involution on bytes that fixes 0 and 128. -/
theorem flipB_invol (b : Nat) (h : b < 256) : flipB (flipB b) = b := by
  exact flipB_invol' b h
theorem flipB_fixes : flipB 0 = 0 ∧ flipB 128 = 128 := by
  decide
theorem flipB_lt (b : Nat) (h : b < 256) : flipB b < 256 := by
  exact flipB_lt' b h
theorem flipMsb_invol (d : Bytes) (h : ∀ b ∈ d, b < 256) : flipMsb (flipMsb d) = d := by
  exact flipMsb_flipMsb d h
theorem flipMsb_length (d : Bytes) : (flipMsb d).length = d.length := by
  simp [flipMsb]

/-- `swap_multiples`: multiple 0 is the identity, negative multiples are rejected. -/
theorem swap_zero (d : Bytes) : swapMultiples d 0 = .ok d := by
  simp [swapMultiples]
theorem swap_neg_rejected (d : Bytes) (m : Int) (h : m < 0) : swapMultiples d m = .error .ValueError := by
  simp [swapMultiples, h]

/-- For a positive multiple: defined, length-preserving, a permutation of the multiset of bytes,
    fixes the position of every non-multiple, and is an involution. -/
theorem swap_pos_ok (d : Bytes) (m : Int) (h : 0 < m) : swapMultiples d m = .ok (swapAux m.toNat d []) := by
  have h1 : ¬ m < 0 := by omega
  have h2 : m ≠ 0 := by omega
  simp [swapMultiples, h1, h2]
theorem swap_length (m : Nat) (d : Bytes) : (swapAux m d []).length = d.length := by
  simp [swapAux_length]
theorem swap_perm (m : Nat) (d : Bytes) : (swapAux m d []).Perm d := by
  simpa using swapAux_perm m d []
theorem swap_fixes_nonmultiples (m : Nat) (d : Bytes) (i : Nat) (hi : i < d.length)
    (h : d.getD i 0 % m ≠ 0) : (swapAux m d [])[i]? = d[i]? := by
  simpa using swapAux_fixes m d [] i hi h
theorem swap_invol (m : Nat) (d : Bytes) : swapAux m (swapAux m d []) [] = d := by
  simpa using swapAux_invol m d [] (by simp)

/-- A pipeline step and its inverse. -/
inductive Step where
  | interleave | deinterleave | flipMsb | swap (m : Nat)
  deriving Repr, DecidableEq

def Step.run : Step → Bytes → Bytes
  | .interleave, d => Enc.interleave d
  | .deinterleave, d => Enc.deinterleave d
  | .flipMsb, d => Enc.flipMsb d
  | .swap m, d => if m = 0 then d else swapAux m d []

def Step.inv : Step → Step
  | .interleave => .deinterleave
  | .deinterleave => .interleave
  | .flipMsb => .flipMsb
  | .swap m => .swap m

def runAll (p : List Step) (d : Bytes) : Bytes := p.foldl (fun acc s => s.run acc) d

/-- Any pipeline composed of the primitives is undone exactly by the inverses in reverse order. -/
theorem pipeline_inverse (p : List Step) (d : Bytes) (h : ∀ b ∈ d, b < 256) :
    runAll (p.reverse.map Step.inv) (runAll p d) = d := by
  have hpres : ∀ (s : Step) (d : Bytes), (∀ b ∈ d, b < 256) → ∀ b ∈ s.run d, b < 256 := by
    intro s d hd
    cases s with
    | interleave => exact permute_ok _ d hd
    | deinterleave => exact permute_ok _ d hd
    | flipMsb => exact flipMsb_ok d hd
    | swap m =>
      simp only [Step.run]
      split
      · exact hd
      · exact swapAux_ok m d hd
  have hinv : ∀ (s : Step) (d : Bytes), (∀ b ∈ d, b < 256) → s.inv.run (s.run d) = d := by
    intro s d hd
    cases s with
    | interleave => exact deinterleave_interleave d
    | deinterleave => exact interleave_deinterleave d
    | flipMsb => exact flipMsb_invol d hd
    | swap m =>
      simp only [Step.inv, Step.run]
      split
      · rfl
      · exact swap_invol m d
  induction p generalizing d with
  | nil => rfl
  | cons s p ih =>
    simp only [runAll, List.reverse_cons, List.map_append, List.foldl_append, List.foldl_cons,
      List.map_cons, List.map_nil, List.foldl_nil] at ih ⊢
    rw [ih (s.run d) (hpres s d h)]
    exact hinv s d h

/-! Sanity instances (tests, labelled as such). -/
example : interleave [0, 1, 2, 3, 4, 5] = [0, 5, 1, 4, 2, 3] := by decide
example : deinterleave [0, 1, 2, 3, 4, 5] = [0, 2, 4, 5, 3, 1] := by decide
example : flipMsb [0, 1, 127, 128, 129, 254, 255] = [0, 129, 255, 128, 1, 126, 127] := by decide
example : swapMultiples [10, 21, 27] 3 = .ok [10, 27, 21] := by rfl

end EoVerif.Enc
