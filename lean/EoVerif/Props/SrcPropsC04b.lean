import EoVerif.Props.SrcPropsC05b
import EoVerif.Props.SrcPropsC09c
import EoVerif.Props.C04
import EoVerif.Props.C06
/-!
  # C04 and C06 (whole item lists / chunk lists), stated about the translated source

  Compositions of the whole-history source ties (`src_writeAll_eq` for the translated `EoWriter`, `src_run_gen` for the
  translated `EoReader`) with the property theorems of `Props/C04.lean` and `Props/C06.lean`.  Only translated Python
  methods occur in the statements:

  * `src_roundtrip` (**C04**): for every well-formed list of typed items, the translated writer (fresh instance, every
    `add_*` in order) accepts every write, and the translated reader (fresh instance over exactly the bytes written,
    the matching `get_*` calls in the same order) returns the values written — strings as their windows-1252 image —
    ending at position = length of the data.
  * `src_isolation` (**C06**): for every list of well-formed chunks written by the translated writer with sanitisation
    on and separated by break bytes, and every per-chunk read plan (any prefix of the chunk's fields, or all of them
    followed by any surplus reads), the translated reader in chunked mode returns exactly the written values, zeros /
    empty strings for the surplus reads, chunk after chunk.
-/
namespace EoVerif.SrcProps
open EoVerif SrcTie RW

theorem readAll_eq_runOut (r : Reader) (ops : List Reader.Op) : readAll r ops = r.runOut ops := by
  induction ops generalizing r with
  | nil => rfl
  | cons op ops ih => simp [readAll, Reader.runOut, ih]


/-- an operation that is a plain read (neither the mode setter nor `next_chunk`) -/
def isRead : Reader.Op → Bool
  | .setChunked _ => false
  | .nextChunk => false
  | _ => true

theorem read_step_frame (r : Reader) (op : Reader.Op) (h : isRead op = true) :
    (r.step op).1.chunked = r.chunked ∧ (r.step op).1.chunkStart = r.chunkStart := by
  cases op with
  | setChunked b => simp [isRead] at h
  | nextChunk => simp [isRead] at h
  | getByte => have := readByte_frame r; simp only [Reader.step]; exact ⟨this.2.1, this.2.2.1⟩
  | getBytes n => have := readBytes_frame r n; simp only [Reader.step]; exact ⟨this.2.1, this.2.2.1⟩
  | getChar => have := readBytes_frame r 1; simp only [Reader.step]; exact ⟨this.2.1, this.2.2.1⟩
  | getShort => have := readBytes_frame r 2; simp only [Reader.step]; exact ⟨this.2.1, this.2.2.1⟩
  | getThree => have := readBytes_frame r 3; simp only [Reader.step]; exact ⟨this.2.1, this.2.2.1⟩
  | getInt => have := readBytes_frame r 4; simp only [Reader.step]; exact ⟨this.2.1, this.2.2.1⟩
  | getString => have := readBytes_frame r r.remaining.toNat; simp only [Reader.step]; exact ⟨this.2.1, this.2.2.1⟩
  | getEncodedString =>
    have := readBytes_frame r r.remaining.toNat; simp only [Reader.step]; exact ⟨this.2.1, this.2.2.1⟩
  | getFixedString l p =>
    simp only [Reader.step]; split
    · exact ⟨rfl, rfl⟩
    · have := readBytes_frame r l.toNat; exact ⟨this.2.1, this.2.2.1⟩
  | getFixedEncodedString l p =>
    simp only [Reader.step]; split
    · exact ⟨rfl, rfl⟩
    · have := readBytes_frame r l.toNat; exact ⟨this.2.1, this.2.2.1⟩

theorem reads_frame (ops : List Reader.Op) : ∀ (r : Reader), (∀ op ∈ ops, isRead op = true) →
    (r.runOut ops).1.chunked = r.chunked ∧ (r.runOut ops).1.chunkStart = r.chunkStart := by
  induction ops with
  | nil => intro r _; exact ⟨rfl, rfl⟩
  | cons op ops ih =>
    intro r h
    have h1 := read_step_frame r op (h op (by simp))
    have h2 := ih (r.step op).1 (fun o ho => h o (by simp [ho]))
    simp only [Reader.runOut]
    exact ⟨h2.1.trans h1.1, h2.2.trans h1.2⟩

def isSetter : Writer.Op → Bool
  | .setSan _ => true
  | _ => false

theorem writeAll_mode (ops : List Writer.Op) : ∀ (w w' : Writer), (∀ op ∈ ops, isSetter op = false) →
    writeAll w ops = .ok w' → w'.san = w.san := by
  induction ops with
  | nil => intro w w' _ h; simp only [writeAll] at h; cases h; rfl
  | cons op ops ih =>
    intro w w' hno h
    simp only [writeAll] at h
    have hm := Writer.mode_only_by_setter w op
    have hop : isSetter op = false := hno op (by simp)
    rcases hs : w.step op with ⟨w1, res⟩
    rw [hs] at h hm
    cases res with
    | error e => simp at h
    | ok u =>
      cases u
      simp only at h
      have := ih w1 w' (fun o ho => hno o (by simp [ho])) h
      rw [this]
      cases op <;> simp_all [isSetter]

theorem chunkWrites_no_setter (cs : List (List Field)) : ∀ op ∈ chunkWrites cs, isSetter op = false := by
  induction cs with
  | nil => intro op h; simp [chunkWrites] at h
  | cons c rest ih =>
    intro op h
    cases rest with
    | nil =>
      simp only [chunkWrites, List.mem_map] at h
      obtain ⟨f, _, rfl⟩ := h
      cases f <;> rfl
    | cons c2 rest2 =>
      simp only [chunkWrites, List.mem_append, List.mem_map, List.mem_singleton] at h
      rcases h with (⟨f, _, rfl⟩ | rfl) | h
      · cases f <;> rfl
      · rfl
      · exact ih op h

/-- **C04 on the translated writer and reader** -/
theorem src_roundtrip (items : List Item) (h : wellFormed items = true) :
    ∃ data : Bytes,
      srcWriteAll (wsview {}) (items.map Item.writeOp) = .ok (ofBytes data, false) ∧
      ∃ nb : Int, srcRunOut (rview (Reader.new data)) (items.map Item.readOp) =
        ((ofBytes data, (data.length : Int), false, 0, nb), items.map (fun i => .ok (toS i.expect))) := by
  obtain ⟨w, hw, hvals, hpos, _⟩ := roundtrip items h
  refine ⟨w.data, ?_, ?_⟩
  · rw [src_writeAll_eq, hw]
    have hsan : w.san = false := by
      have := writeAll_mode _ {} w (by
        intro op hop; obtain ⟨i, _, rfl⟩ := List.mem_map.1 hop; cases i <;> rfl) hw
      simpa using this
    simp [wsview, hsan]
  · rw [readAll_eq_runOut] at hvals hpos
    refine ⟨((Reader.new w.data).runOut (items.map Item.readOp)).1.nextBreak, ?_⟩
    rw [src_run_gen _ _ (Reader.inv_new w.data), hvals]
    obtain ⟨hdata, _, _, _⟩ := Reader.stays_inside w.data (items.map Item.readOp)
    have hfr := reads_frame (items.map Item.readOp) (Reader.new w.data) (by
      intro op hop; obtain ⟨i, _, rfl⟩ := List.mem_map.1 hop; cases i <;> rfl)
    simp only [rview, hdata, hpos, hfr.1, hfr.2, List.map_map]
    simp [Reader.new, outS, Function.comp_def]

/-- **C06 on the translated writer and reader** -/
theorem src_isolation (cs : List (List Field)) (plans : List Plan)
    (hok : ∀ c ∈ cs, chunkOk c = true) (hlen : plans.length = cs.length) :
    ∃ data : Bytes,
      srcWriteAll (wsview { san := true }) (chunkWrites cs) = .ok (ofBytes data, true) ∧
      ∃ st : RS, srcStep (rview (Reader.new data)) (.setChunked true) = .ok (st, .none) ∧
        (srcRunOut st (allPlanOps cs plans)).2 = (allPlanExpect cs plans).map outS := by
  obtain ⟨w, hw, hvals⟩ := isolation cs plans hok hlen
  refine ⟨w.data, ?_, ?_⟩
  · rw [src_writeAll_eq, hw]
    have hsan : w.san = true := by
      have := writeAll_mode _ { san := true } w (chunkWrites_no_setter cs) hw
      simpa using this
    simp [wsview, hsan]
  · have hinv0 := Reader.inv_new w.data
    have hstep := srcStep_eq (Reader.new w.data) hinv0 (.setChunked true)
    have hinv1 : Reader.Inv ((Reader.new w.data).step (.setChunked true)).1 :=
      (Reader.step_refines _ hinv0 _).2.2
    refine ⟨rview ((Reader.new w.data).step (.setChunked true)).1, ?_, ?_⟩
    · rw [hstep]; simp [stepView, Reader.step, toS]
    · rw [src_run_gen _ _ hinv1]
      rw [readAll_eq_runOut] at hvals
      simp only [hvals]

/-! Non-vacuity (tests, labelled as such): the hypotheses are met by concrete lists, and the translated writer / reader really
    run on them. -/
example : wellFormed sampleItems = true := by decide
example : srcWriteAll (wsview {}) (sampleItems.map Item.writeOp)
    = .ok (ofBytes (Writer.run {} (sampleItems.map Item.writeOp)).data, false) := by decide
example : (srcRunOut (rview (Reader.new (Writer.run {} (sampleItems.map Item.writeOp)).data)) (sampleItems.map Item.readOp)).2
    = sampleItems.map (fun i => .ok (toS i.expect)) := by decide
example : ∀ c ∈ sampleChunks, chunkOk c = true := by decide
example : samplePlans.length = sampleChunks.length := by decide

end EoVerif.SrcProps
