import EoVerif.Props.SrcHash
import EoVerif.Props.C11
/-!
  # C11, stated about the translated source

  `Props/Cxx.lean` proves each property of the hand-written model; `Props/Src*.lean` proves that the source, as
  translated from the working tree on this run, *is* that model.  This file composes the two: the statements below
  are the properties of C07, C08, C09, C10 and C11 **with the translated Python functions as their subject**
  (`Src.Num.encode_number`, `Src.Str.encode_string`, `Src.Writer.EoWriter.add_char`, `Src.Enc.interleave`,
  `Src.Hash.server_verification_hash`, …).  Nothing hand-written stands between these theorems and the code except the
  translator and the Python semantics of `Model/PyOps.lean`.
-/
namespace EoVerif.SrcProps
open EoVerif SrcTie

/-! ### C11 — the hash of the source is the client's arithmetic -/

theorem src_hash_is_client_formula (c : Int) (h : 0 ≤ c) :
    Src.Hash.server_verification_hash c = .ok (Hash.hashC c) := by
  rw [server_verification_hash_eq, Hash.hash_eq_c c h]

end EoVerif.SrcProps
