import EoVerif.Props.SrcReader
import EoVerif.Props.C05
/-!
  # C05, stated about the translated source

  Compositions of `Props/SrcReader.lean` (translated `EoReader` = the concrete model `Reader`) with the refinement
  theorem of `Props/C05.lean` (`Reader` refines the documented cache-free model `AReader`): the translated methods
  return what the **documented chunked-reading model** returns, and the position stays inside the data.
-/
namespace EoVerif.SrcProps
open EoVerif SrcTie Reader

theorem inv_is_rinv (r : Reader) : Reader.Inv r ↔ RInv r := Iff.rfl

/-- `get_char()` of the translated reader on any state the invariant holds for: the value and the new position are
    those of the documented model, and the position stays within the data -/
theorem src_get_char_documented (r : Reader) (h : Reader.Inv r) :
    ∃ v : Int, ((Reader.abs r).step .getChar).2 = .ok (.int v) ∧
      Src.Reader.EoReader.get_char (ofBytes r.data) r.pos r.chunked r.chunkStart r.nextBreak
        = .ok (((((Reader.abs r).step .getChar).1.pos : Nat) : Int), v) ∧
      ((Reader.abs r).step .getChar).1.pos ≤ r.data.length := by
  obtain ⟨v, hv, hs⟩ := get_char_eq r h
  obtain ⟨h2, habs, hinv⟩ := Reader.step_refines r h .getChar
  refine ⟨v, by rw [← h2]; exact hv, ?_, ?_⟩
  · rw [hs, ← habs]; rfl
  · rw [← habs]; exact hinv.2.2.2.1

theorem src_get_int_documented (r : Reader) (h : Reader.Inv r) :
    ∃ v : Int, ((Reader.abs r).step .getInt).2 = .ok (.int v) ∧
      Src.Reader.EoReader.get_int (ofBytes r.data) r.pos r.chunked r.chunkStart r.nextBreak
        = .ok (((((Reader.abs r).step .getInt).1.pos : Nat) : Int), v) ∧
      ((Reader.abs r).step .getInt).1.pos ≤ r.data.length := by
  obtain ⟨v, hv, hs⟩ := get_int_eq r h
  obtain ⟨h2, habs, hinv⟩ := Reader.step_refines r h .getInt
  refine ⟨v, by rw [← h2]; exact hv, ?_, ?_⟩
  · rw [hs, ← habs]; rfl
  · rw [← habs]; exact hinv.2.2.2.1

theorem src_get_bytes_documented (r : Reader) (h : Reader.Inv r) (n : Nat) :
    ∃ bs : Bytes, ((Reader.abs r).step (.getBytes n)).2 = .ok (.bytes bs) ∧
      Src.Reader.EoReader.get_bytes (ofBytes r.data) r.pos r.chunked r.chunkStart r.nextBreak (n : Int)
        = .ok (((((Reader.abs r).step (.getBytes n)).1.pos : Nat) : Int), ofBytes bs) := by
  obtain ⟨bs, hv, hs⟩ := get_bytes_eq r h n
  obtain ⟨h2, habs, _⟩ := Reader.step_refines r h (.getBytes n)
  refine ⟨bs, by rw [← h2]; exact hv, ?_⟩
  rw [hs, ← habs]; rfl

theorem src_get_string_documented (r : Reader) (h : Reader.Inv r) :
    ∃ s : Ansi.Str, ((Reader.abs r).step .getString).2 = .ok (.str s) ∧
      Src.Reader.EoReader.get_string (ofBytes r.data) r.pos r.chunked r.chunkStart r.nextBreak
        = .ok (((((Reader.abs r).step .getString).1.pos : Nat) : Int), s) := by
  obtain ⟨s, hv, hs⟩ := get_string_eq r h
  obtain ⟨h2, habs, _⟩ := Reader.step_refines r h .getString
  refine ⟨s, by rw [← h2]; exact hv, ?_⟩
  rw [hs, ← habs]; rfl

/-- the invariant is what every state reached from a fresh reader satisfies (C05's `run_refines` gives it for
    histories of the model; here: the fresh translated reader is the fresh model reader) -/
theorem src_fresh_reader_inv (data : Bytes) :
    Src.Reader.EoReader.__init__ (ofBytes data) =
      .ok (ofBytes (Reader.new data).data, ((Reader.new data).pos : Int), (Reader.new data).chunked,
        ((Reader.new data).chunkStart : Int), (Reader.new data).nextBreak) ∧ Reader.Inv (Reader.new data) :=
  ⟨init_reader_eq data, Reader.inv_new data⟩

end EoVerif.SrcProps
