import EoVerif.Props.SrcStr
import EoVerif.Props.C08
/-!
  # C08, stated about the translated source

  `Props/Cxx.lean` proves each property of the hand-written model; `Props/Src*.lean` proves that the source, as
  translated from the working tree on this run, *is* that model.  This file composes the two: the statements below
  are the properties of C07, C08, C09, C10 and C11 **with the translated Python functions as their subject**
  (`Src.Num.encode_number`, `Src.Str.encode_string`, `Src.Writer.EoWriter.add_char`, `Src.Enc.interleave`,
  `Src.Hash.server_verification_hash`, …).  Nothing hand-written stands between these theorems and the code except the
  translator and the Python semantics of `Model/PyOps.lean`.
-/
namespace EoVerif.SrcProps
open EoVerif SrcTie

/-! ### C08 — the string codec of the source -/

/-- `decode_string(encode_string(b))` returns `b` whenever `b` has no `~` (0x7E); lengths are preserved -/
theorem src_string_roundtrip (bs : Bytes) (h : ∀ b ∈ bs, b ≠ 0x7E) :
    ∃ es : Bytes, Src.Str.encode_string (ofBytes bs) = .ok (ofBytes es) ∧ es.length = bs.length ∧
      Src.Str.decode_string (ofBytes es) = .ok (ofBytes bs) :=
  ⟨Str.encode bs, encode_string_eq bs, Str.encode_length bs, by rw [decode_string_eq, Str.decode_encode bs h]⟩

/-- encoding never creates a break byte -/
theorem src_encode_no_FF (bs : Bytes) (h : 0xFF ∉ bs) :
    ∃ es : Bytes, Src.Str.encode_string (ofBytes bs) = .ok (ofBytes es) ∧ 0xFF ∉ es :=
  ⟨Str.encode bs, encode_string_eq bs, Str.encode_no_FF bs h⟩

end EoVerif.SrcProps
