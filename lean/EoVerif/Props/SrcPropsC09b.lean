import EoVerif.Props.SrcPropsC09
/-!
  # C09 (sanitisation), stated about the translated source

  With string sanitisation on, `add_string` / `add_encoded_string` of the translated writer append a payload of exactly
  `len(string)` bytes without any 0xFF (every y-diaeresis became `y`); with it off, `add_string` appends the exact
  windows-1252 image.
-/
namespace EoVerif.SrcProps
open EoVerif SrcTie

theorem src_add_string_sanitised (w : Writer) (s : Ansi.Str) (h : w.san = true) :
    ∃ bs : Bytes, Src.Writer.EoWriter.add_string (ofBytes w.data) w.san s = .ok (ofBytes (w.data ++ bs)) ∧
      bs.length = s.length ∧ 0xFF ∉ bs ∧ bs = (Ansi.encode s).map (fun b => if b = 0xFF then 0x79 else b) := by
  obtain ⟨hl, hno, heq⟩ := Writer.sanitised_payload w s h
  refine ⟨w.strBytes s, ?_, hl, hno, heq⟩
  rw [add_string_eq]
  simp [wview, Writer.step]

theorem src_add_encoded_string_sanitised (w : Writer) (s : Ansi.Str) (h : w.san = true) :
    ∃ bs : Bytes, Src.Writer.EoWriter.add_encoded_string (ofBytes w.data) w.san s = .ok (ofBytes (w.data ++ bs)) ∧
      bs.length = s.length ∧ 0xFF ∉ bs := by
  obtain ⟨hl, hno, _⟩ := Writer.sanitised_payload w s h
  refine ⟨Str.encode (w.strBytes s), ?_, by rw [Str.encode_length, hl], Str.encode_no_FF _ hno⟩
  rw [add_encoded_string_eq]
  simp [wview, Writer.step]

theorem src_add_string_unsanitised (w : Writer) (s : Ansi.Str) (h : w.san = false) :
    Src.Writer.EoWriter.add_string (ofBytes w.data) w.san s = .ok (ofBytes (w.data ++ Ansi.encode s)) := by
  rw [add_string_eq]
  simp [wview, Writer.step, Writer.unsanitised_payload w s h]

end EoVerif.SrcProps
