import EoVerif.Props.SrcNum
import EoVerif.Lemmas.PyLoops
import EoVerif.Props.C07
/-!
  # C07, stated about the translated source

  `Props/Cxx.lean` proves each property of the hand-written model; `Props/Src*.lean` proves that the source, as
  translated from the working tree on this run, *is* that model.  This file composes the two: the statements below
  are the properties of C07, C08, C09, C10 and C11 **with the translated Python functions as their subject**
  (`Src.Num.encode_number`, `Src.Str.encode_string`, `Src.Writer.EoWriter.add_char`, `Src.Enc.interleave`,
  `Src.Hash.server_verification_hash`, …).  Nothing hand-written stands between these theorems and the code except the
  translator and the Python semantics of `Model/PyOps.lean`.
-/
namespace EoVerif.SrcProps
open EoVerif SrcTie

/-! ### C07 — the number codec of the source is a wire-safe bijection -/

/-- for every EO int: `encode_number` succeeds with four bytes none of which is 0x00 or 0xFF, and `decode_number` of
    them returns the number -/
theorem src_number_roundtrip (n : Int) (h0 : 0 ≤ n) (h1 : n < 4097152081) :
    ∃ bs : Bytes, Src.Num.encode_number n = .ok (ofBytes bs) ∧ bs.length = 4 ∧
      (∀ b ∈ bs, b ≠ 0x00 ∧ b ≠ 0xFF ∧ b < 256) ∧ Src.Num.decode_number (ofBytes bs) = .ok n := by
  have h1' : n < Num.INT_MAX := h1
  obtain ⟨bs, hbs, hl, hd⟩ := Num.decode_encode n h0 h1'
  refine ⟨bs, ?_, hl, Num.encode_wire_safe n h0 h1' bs hbs, ?_⟩
  · rw [encode_number_eq, hbs]; rfl
  · have := decode_number_eq bs
    simp only [ofBytes] at this ⊢
    rw [this, hd]

/-- for `n < 253^k` the first `k` bytes alone decode to `n`, the rest is the 0xFE filler -/
theorem src_number_prefix (k : Nat) (hk : 1 ≤ k ∧ k ≤ 4) (n : Int) (h0 : 0 ≤ n) (h1 : n < 253 ^ k) :
    ∃ bs : Bytes, Src.Num.encode_number n = .ok (ofBytes bs) ∧
      Src.Num.decode_number (ofBytes (bs.take k)) = .ok n ∧ ∀ b ∈ bs.drop k, b = 0xFE := by
  have hk' : k = 1 ∨ k = 2 ∨ k = 3 ∨ k = 4 := by omega
  have h4 : n < Num.INT_MAX := by
    rcases hk' with rfl | rfl | rfl | rfl <;> simp [Num.INT_MAX] at h1 ⊢ <;> omega
  obtain ⟨bs, hbs, _, _⟩ := Num.decode_encode n h0 h4
  obtain ⟨hp, hf⟩ := Num.encode_prefix k hk n h0 h1 bs hbs
  refine ⟨bs, ?_, ?_, hf⟩
  · rw [encode_number_eq, hbs]; rfl
  · have := decode_number_eq (bs.take k)
    simp only [ofBytes] at this ⊢
    rw [this, hp]

/-- decoding any byte string is the documented positional formula -/
theorem src_decode_formula (bs : Bytes) : Src.Num.decode_number (ofBytes bs) = .ok (Num.decodeFormula bs) := by
  have := decode_number_eq bs
  simp only [ofBytes] at this ⊢
  rw [this, Num.decode_eq_formula]

end EoVerif.SrcProps
